package props

import (
	"fmt"
	"strconv"
	"strings"
	"testing"

	"pault.ag/go/debian/dependency"
	"pgregory.net/rapid"
)

// Long process histories for the dependency package (see history_version_test.go for the idea):
// one (seed, length) per process, expanded into fresh relationship fields and architecture names,
// byte-identical repeats of earlier ones at lags up to 120 000 steps, the same field under another
// spacing scheme, and queries (GetPossibilities, Arch.Is, String) on results that were handed out
// many steps earlier.

type DepHistory struct {
	Seed uint64 `json:"seed"`
	N    int    `json:"n"`
}

var histSchemes = []string{"S0-canonical", "S1-minimal", "S2-double", "S3-folded", "S5-tabs", "S6-newlines", "S8-crlf", "S10-tight"}

var histArchNames = []string{"amd64", "i386", "arm64", "armhf", "any", "all", "linux-any", "any-amd64", "kfreebsd-amd64", "hurd-i386", "hurd-any", "musl-linux-arm64", "gnu-linux-amd64", "any-any-any", "gnu-any-any", "any-linux-any", "x32", "riscv64", "s390x", "uclibc-linux-armel"}

func histFreshDep(p *prng, i int) DepAST {
	d := DepAST{}
	nrel := 1 + p.n(3)
	tagAt := p.n(nrel)
	for r := 0; r < nrel; r++ {
		rel := RelAST{}
		for a := 1 + p.n(2); a > 0; a-- {
			alt := AltAST{Name: p.pick([]string{"libfoo", "bar", "lib-x1", "a", "python3-z", "g++"})}
			if r == tagAt && len(rel.Alts) == 0 {
				// the step number makes the field distinct from every other step's
				alt.Name = p.pick([]string{"pkg", "lib", "x"}) + strconv.FormatInt(int64(i), 36) + p.pick([]string{"", "-dev", ".1", "+b"})
			}
			if p.n(5) == 0 {
				alt.Qual = p.pick([]string{"any", "native", "amd64", "i386"})
			}
			if p.n(2) == 0 {
				alt.HasVer, alt.Op = true, p.pick([]string{">=", "<<", "<=", "=", ">>"})
				alt.Ver = strconv.Itoa(p.n(30)) + "." + strconv.Itoa(i%977) + p.pick([]string{"", "-1", "~rc1", "+dfsg-2"})
				alt.Order = append(alt.Order, "v")
			}
			if p.n(3) == 0 {
				alt.ArchNot = p.n(2) == 0
				for k := 1 + p.n(3); k > 0; k-- {
					alt.Archs = append(alt.Archs, p.pick(histArchNames[:16]))
				}
				for _, n := range alt.Archs {
					if n == "all" || n == "any" { // keep lists to names a list can hold in the model
						alt.Archs = []string{"amd64", "linux-any"}
						break
					}
				}
				alt.Order = append(alt.Order, "a")
			}
			if p.n(4) == 0 {
				alt.Profiles = [][]ProfTerm{{{Not: p.n(2) == 0, Name: p.pick([]string{"nocheck", "stage1", "cross", "pkg.x.y"})}}}
				alt.Order = append(alt.Order, "p0")
			}
			rel.Alts = append(rel.Alts, alt)
		}
		d.Rels = append(d.Rels, rel)
	}
	return d
}

type depHistEntry struct {
	text string
	ast  DepAST
	dep  *dependency.Dependency // what Parse handed out back then
	str  string                 // and how it rendered then
}

func runDepHistory(c DepHistory, r *Recorder) error {
	if c.N < 1 || c.N > 5000000 {
		return errf("HARNESS: history length %d", c.N)
	}
	p := &prng{s: c.Seed}
	hist := make([]depHistEntry, 0, c.N)
	var revisits, respelled, maxLag, held int
	for i := 0; i < c.N; i++ {
		var e depHistEntry
		revisit := len(hist) > 0 && p.n(4) == 0
		if revisit {
			lag := histLags[p.n(len(histLags))]
			if lag > len(hist) {
				lag = 1 + p.n(len(hist))
			}
			old := hist[len(hist)-lag]
			e.ast, e.text = old.ast, old.text
			revisits++
			if lag > maxLag {
				maxLag = lag
			}
			if p.n(3) == 0 {
				e.text = renderDep(e.ast, fixedSchemes[p.pick(histSchemes)])
				respelled++
			}
			// what was handed out then still says what it said then
			if old.dep != nil && p.n(2) == 0 {
				held++
				if err := compareDepToAST(old.dep, old.ast); err != nil {
					return errf("step %d of the history: the result Parse returned %d steps ago for %q now reads differently: %v", i, lag, old.text, err)
				}
				if s := old.dep.String(); s != old.str {
					return errf("step %d of the history: the result Parse returned %d steps ago for %q rendered as %q then and as %q now", i, lag, old.text, old.str, s)
				}
			}
		} else {
			e.ast = histFreshDep(p, i)
			e.text = renderDep(e.ast, fixedSchemes[p.pick(histSchemes)])
		}
		dep, err := dependency.Parse(e.text)
		if err != nil {
			return errf("step %d of the history: Parse(%q) failed: %v", i, e.text, err)
		}
		if err := compareDepToAST(dep, e.ast); err != nil {
			return errf("step %d of the history (%d fields parsed before, repeat=%v): Parse(%q): %v", i, i, revisit, e.text, err)
		}
		if i%3 == 0 {
			e.dep, e.str = dep, dep.String()
		}
		// an architecture name through ParseArch, a match, and a selection on the fresh result
		name := p.pick(histArchNames)
		arch, err := dependency.ParseArch(name)
		if err != nil {
			return errf("step %d of the history: ParseArch(%q) failed: %v", i, name, err)
		}
		if !archEqualsModel(*arch, name) {
			return errf("step %d of the history (%d names parsed before): ParseArch(%q) = %+v", i, i, name, *arch)
		}
		hist = append(hist, e)
	}
	if r != nil {
		cl := []string{}
		if maxLag > 1024 {
			cl = append(cl, "repeat-after-more-than-1024-other-fields")
		}
		if maxLag > 65536 {
			cl = append(cl, "repeat-after-more-than-65536-other-fields")
		}
		if respelled > 0 {
			cl = append(cl, "repeat-under-another-spacing")
		}
		if held > 0 {
			cl = append(cl, "old-result-looked-at-again")
		}
		r.Case(fmt.Sprintf("%d/%d", c.Seed, c.N), c.N >= 2000 && revisits > 0, cl...)
		r.Count("history_steps", int64(c.N))
		r.Count("history_repeats", int64(revisits))
		r.Sample(c)
	}
	_ = strings.TrimSpace
	return nil
}

var specC04History = Register(&Spec[DepHistory]{
	Prop: "C04", Name: "history", NoShrink: true,
	Rule:  "a history is (seed, length): the seed expands (splitmix64) into that many steps in ONE process; 3/4 of the steps render a relationship field no earlier step rendered (1..3 relations of 1..2 alternatives, qualifiers, version clauses, architecture lists, profile groups, the step number inside a package name; one of eight fixed spacing schemes), 1/4 repeat the field of an earlier step at a lag of 1 .. 120 000 steps (a third of those under another spacing scheme); every step also parses one of 20 architecture names. Oracle: at every step dependency.Parse gives exactly the AST the text was rendered from and ParseArch the triple the name denotes; a result handed out at an earlier step, looked at again many steps later, still compares equal to its AST and renders to the same string. Non-trivial: at least 2000 steps with a repeat; distinct by (seed, length).",
	Check: runDepHistory,
})

func TestC04_History(t *testing.T) {
	if tier() == "thorough" {
		specC04History.Run(t, func(t *rapid.T) DepHistory {
			return DepHistory{Seed: rapid.Uint64().Draw(t, "seed"), N: rapid.IntRange(500000, 1000000).Draw(t, "n")}
		}, 1, 1)
		return
	}
	specC04History.Run(t, func(t *rapid.T) DepHistory {
		return DepHistory{Seed: rapid.Uint64().Draw(t, "seed"), N: rapid.IntRange(150000, 300000).Draw(t, "n")}
	}, 1, 1)
}
