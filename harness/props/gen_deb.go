package props

import (
	"archive/tar"
	"bytes"
	"compress/gzip"
	"fmt"
	"os/exec"
	"strings"
	"sync"
	"time"

	"github.com/kjk/lzma"
	"github.com/klauspost/compress/zstd"
	"pgregory.net/rapid"
)

type TarFile struct {
	Name    string `json:"name"`
	Type    string `json:"type"` // dir | reg | symlink
	Content []byte `json:"content,omitempty"`
	Link    string `json:"link,omitempty"`
}

// DebModel is a format-2.0 .deb as the independent builder lays it out.
type DebModel struct {
	ControlText string    `json:"controlText"`
	Exp         Exp       `json:"exp"`
	SourceName  string    `json:"sourceName"`
	CtlFiles    []TarFile `json:"ctlFiles"` // entries of control.tar in order; the one named control/./control carries ControlText
	DataFiles   []TarFile `json:"dataFiles"`
	CtlCodec    string    `json:"ctlCodec"`  // "" gz xz bz2 lzma zst
	DataCodec   string    `json:"dataCodec"` // same
	// XZOpt: how xz members are written: "" = preset 1 (1 MiB dictionary), "6" = the default
	// preset of xz and dpkg-deb (8 MiB), "dict16" / "dict64" = a 16 / 64 MiB dictionary (what
	// xz -7 / -9 declare) - the stream header states the dictionary size whatever the payload
	XZOpt        string     `json:"xzOpt,omitempty"`
	DebianBinary string     `json:"debianBinary"`
	Extra        []ArMember `json:"extra,omitempty"`      // additional members
	ExtraPos     int        `json:"extraPos,omitempty"`   // 0: after data, 1: between control and data
	Slash        bool       `json:"slash,omitempty"`      // GNU '/' terminated member names
	Omit         string     `json:"omit,omitempty"`       // member left out: "", "debian-binary", "control", "data"
	GzSplit      int        `json:"gzSplit,omitempty"`    // > 1: gzip members are written as that many concatenated gzip streams (RFC 1952 allows it)
	TarDialect   string     `json:"tarDialect,omitempty"` // "" GNU, "ustar", "pax" (see buildTarFmt)
	SignedCols   int        `json:"signedCols,omitempty"` // 1..3: that member carries a negative timestamp; 4: all members are owned by -1:-2
}

var codecs = []string{"", "gz", "xz", "bz2", "lzma", "zst"}

func buildTar(files []TarFile) ([]byte, error) { return buildTarFmt(files, "") }

// buildTarFmt writes the entries in the GNU dialect ("", what dpkg-deb writes), as plain ustar, or
// as pax ("pax": every entry behind an extended header of its own - sub-second mtime, atime, a
// non-ASCII owner name - as `tar --format=posix` and Python's tarfile write them).
func buildTarFmt(files []TarFile, dialect string) ([]byte, error) {
	var buf bytes.Buffer
	tw := tar.NewWriter(&buf)
	for i, f := range files {
		h := &tar.Header{Name: f.Name, Mode: 0o644, Uname: "root", Gname: "root", Format: tar.FormatGNU}
		switch dialect {
		case "ustar":
			h.Format = tar.FormatUSTAR
		case "pax":
			h.Format = tar.FormatPAX
			h.ModTime = time.Unix(1700000000+int64(i), 123456789)
			if i%2 == 0 {
				h.AccessTime = time.Unix(1700000100, 5)
			}
			if i%3 == 0 {
				h.Uname = "r\u00f6\u00f6t"
			}
		}
		switch f.Type {
		case "dir":
			h.Typeflag, h.Mode = tar.TypeDir, 0o755
		case "symlink":
			h.Typeflag, h.Linkname = tar.TypeSymlink, f.Link
		default:
			h.Typeflag, h.Size = tar.TypeReg, int64(len(f.Content))
		}
		if err := tw.WriteHeader(h); err != nil {
			return nil, err
		}
		if f.Type == "reg" || f.Type == "" {
			if _, err := tw.Write(f.Content); err != nil {
				return nil, err
			}
		}
	}
	if err := tw.Close(); err != nil {
		return nil, err
	}
	return buf.Bytes(), nil
}

var lzmaEncMu sync.Mutex

var (
	toolMu    sync.Mutex
	toolKnown = map[string]bool{}
)

func haveTool(name string) bool {
	toolMu.Lock()
	defer toolMu.Unlock()
	if v, ok := toolKnown[name]; ok {
		return v
	}
	_, err := exec.LookPath(name)
	toolKnown[name] = err == nil
	return err == nil
}

type codecUnavailable struct{ codec string }

func (c codecUnavailable) Error() string { return "compressor for " + c.codec + " not available" }

func compress(codec string, data []byte) ([]byte, error) {
	switch codec {
	case "":
		return data, nil
	case "gz":
		var b bytes.Buffer
		w := gzip.NewWriter(&b)
		w.Write(data)
		w.Close()
		return b.Bytes(), nil
	case "zst":
		enc, err := zstd.NewWriter(nil)
		if err != nil {
			return nil, err
		}
		defer enc.Close()
		return enc.EncodeAll(data, nil), nil
	case "lzma":
		// the third-party ENCODER (only the harness uses it) fills package-level tables on first
		// use without a lock: one at a time
		lzmaEncMu.Lock()
		defer lzmaEncMu.Unlock()
		var b bytes.Buffer
		w := lzma.NewWriter(&b)
		if _, err := w.Write(data); err != nil {
			return nil, err
		}
		if err := w.Close(); err != nil {
			return nil, err
		}
		return b.Bytes(), nil
	case "xz", "bz2":
		tool := map[string]string{"xz": "xz", "bz2": "bzip2"}[codec]
		if !haveTool(tool) {
			return nil, codecUnavailable{codec}
		}
		cmd := exec.Command(tool, "-c", "-1")
		cmd.Stdin = bytes.NewReader(data)
		out, err := cmd.Output()
		if err != nil {
			return nil, codecUnavailable{codec}
		}
		return out, nil
	}
	return nil, fmt.Errorf("HARNESS: unknown codec %q", codec)
}

func compressXZ(data []byte, opt string) ([]byte, error) {
	if !haveTool("xz") {
		return nil, codecUnavailable{"xz"}
	}
	arg := map[string]string{"6": "-6", "dict16": "--lzma2=preset=0,dict=16MiB", "dict64": "--lzma2=preset=0,dict=64MiB"}[opt]
	if arg == "" {
		arg = "-1"
	}
	cmd := exec.Command("xz", "-T1", "-c", arg)
	cmd.Stdin = bytes.NewReader(data)
	out, err := cmd.Output()
	if err != nil {
		return nil, codecUnavailable{"xz"}
	}
	return out, nil
}

func tarMemberName(base, codec string) string {
	if codec == "" {
		return base + ".tar"
	}
	return base + ".tar." + codec
}

// buildDeb renders the model; it also returns the ar member list it wrote.
func buildDeb(m DebModel) ([]byte, []ArMember, error) {
	ctlFiles := make([]TarFile, len(m.CtlFiles))
	copy(ctlFiles, m.CtlFiles)
	ctar, err := buildTarFmt(ctlFiles, m.TarDialect)
	if err != nil {
		return nil, nil, err
	}
	dtar, err := buildTarFmt(m.DataFiles, m.TarDialect)
	if err != nil {
		return nil, nil, err
	}
	comp := func(codec string, data []byte) ([]byte, error) {
		if codec == "xz" && m.XZOpt != "" {
			return compressXZ(data, m.XZOpt)
		}
		if codec != "gz" || m.GzSplit < 2 || len(data) < m.GzSplit {
			return compress(codec, data)
		}
		var out []byte
		step := len(data)/m.GzSplit/512*512 + 512
		for off := 0; off < len(data); off += step {
			end := off + step
			if end > len(data) {
				end = len(data)
			}
			z, err := compress("gz", data[off:end])
			if err != nil {
				return nil, err
			}
			out = append(out, z...)
		}
		return out, nil
	}
	cz, err := comp(m.CtlCodec, ctar)
	if err != nil {
		return nil, nil, err
	}
	dz, err := comp(m.DataCodec, dtar)
	if err != nil {
		return nil, nil, err
	}
	mk := func(name string, data []byte) ArMember {
		am := ArMember{Name: name, SlashTerm: m.Slash, MTime: 1700000000, Mode: "100644", Data: data}
		switch {
		case m.SignedCols == 1 && name == "debian-binary", m.SignedCols == 2 && strings.HasPrefix(name, "control."), m.SignedCols == 3 && strings.HasPrefix(name, "data."):
			am.MTime = -3600 // stamped before 1970
		case m.SignedCols == 4:
			am.UID, am.GID = -1, -2 // owned by nobody
		}
		return am
	}
	var ms []ArMember
	if m.Omit != "debian-binary" {
		ms = append(ms, mk("debian-binary", []byte(m.DebianBinary)))
	}
	if m.Omit != "control" {
		ms = append(ms, mk(tarMemberName("control", m.CtlCodec), cz))
	}
	if m.ExtraPos == 1 {
		ms = append(ms, m.Extra...)
	}
	if m.Omit != "data" {
		ms = append(ms, mk(tarMemberName("data", m.DataCodec), dz))
	}
	if m.ExtraPos != 1 {
		ms = append(ms, m.Extra...)
	}
	return renderAr(ms), ms, nil
}

func genDataFiles(t *rapid.T) []TarFile {
	files := []TarFile{}
	if rapid.Bool().Draw(t, "rootdir") {
		files = append(files, TarFile{Name: "./", Type: "dir"})
	}
	n := rapid.IntRange(0, 5).Draw(t, "nfiles")
	dirs := []string{"./usr/", "./usr/bin/", "./usr/share/doc/pkg/", "./etc/"}
	seenDir := map[string]bool{}
	for i := 0; i < n; i++ {
		d := rapid.SampledFrom(dirs).Draw(t, "dir")
		if !seenDir[d] {
			seenDir[d] = true
			files = append(files, TarFile{Name: d, Type: "dir"})
		}
		// never "." or "..": those are not file names (found as a harness false alarm in the dpkg-deb sub-check)
		name := d + genFromAlphabet(t, "fname0", "abcxyz019", 1, 1) + genFromAlphabet(t, "fname", "abcxyz019._-", 0, 9)
		if rapid.IntRange(0, 5).Draw(t, "sym") == 0 {
			files = append(files, TarFile{Name: name, Type: "symlink", Link: "target" + genFromAlphabet(t, "lt", "abc", 0, 3)})
		} else {
			size := rapid.SampledFrom([]int{0, 1, 10, 511, 512, 513, 4096, 4096, 32767, 32769, 70000}).Draw(t, "fsize")
			b := make([]byte, size)
			x := uint32(rapid.IntRange(1, 1<<20).Draw(t, "fseed"))
			for j := range b {
				x = x*1664525 + 1013904223
				b[j] = byte(x >> 24)
			}
			files = append(files, TarFile{Name: name, Type: "reg", Content: b})
		}
	}
	return files
}

func genCtlFiles(t *rapid.T, controlText string) []TarFile {
	files := []TarFile{}
	prefix := ""
	if rapid.Bool().Draw(t, "dotslash") {
		prefix = "./"
		if rapid.Bool().Draw(t, "ctlrootdir") {
			files = append(files, TarFile{Name: "./", Type: "dir"})
		}
	}
	others := []TarFile{
		{Name: prefix + "md5sums", Type: "reg", Content: []byte("d41d8cd98f00b204e9800998ecf8427e  usr/bin/x\n")},
		{Name: prefix + "conffiles", Type: "reg", Content: []byte("/etc/x\n")},
		{Name: prefix + "postinst", Type: "reg", Content: []byte("#!/bin/sh\nPackage: evil-looking\nexit 0\n")},
		{Name: prefix + "control.bak", Type: "reg", Content: []byte("Package: not-this-one\nVersion: 0\nArchitecture: all\n")},
		{Name: prefix + "triggers", Type: "reg", Content: []byte("activate-noawait ldconfig\n")},
	}
	k := rapid.IntRange(0, len(others)).Draw(t, "nothers")
	perm := rapid.Permutation(others).Draw(t, "othersperm")[:k]
	pos := rapid.IntRange(0, k).Draw(t, "ctlpos")
	before := append([]TarFile{}, perm[:pos]...)
	if rapid.IntRange(0, 5).Draw(t, "straddle") == 0 {
		// a large maintainer file in front, sized so that the body of ./control straddles the 32 KiB or
		// 64 KiB mark of the decompressed stream (where gzip/lzma/bzip2 readers return short reads)
		mark := rapid.SampledFrom([]int{32768, 32768, 65536}).Draw(t, "straddleMark")
		back := 512 * rapid.IntRange(1, 2).Draw(t, "straddleBack")
		p := 0
		for _, f := range files {
			p += 512 + (len(f.Content)+511)/512*512
		}
		for _, f := range before {
			p += 512 + (len(f.Content)+511)/512*512
		}
		if fsize := mark - back - 512 - 512 - p; fsize >= 0 {
			pat := []byte("0123456789abcdef0123456789abcdef  usr/share/doc/pkg/some-file\n")
			filler := bytes.Repeat(pat, fsize/len(pat)+1)[:fsize]
			before = append([]TarFile{{Name: prefix + "md5sums.big", Type: "reg", Content: filler}}, before...)
		}
	}
	files = append(files, before...)
	files = append(files, TarFile{Name: prefix + "control", Type: "reg", Content: []byte(controlText)})
	files = append(files, perm[pos:]...)
	return files
}

func genDebModel(t *rapid.T) DebModel {
	text, exp, _, src := genDebControlModel(t)
	if rapid.IntRange(0, 11).Draw(t, "bigcontrol") == 0 {
		// a control file larger than the usual I/O windows (4 KiB bufio, 32 KiB flate window, 64 KiB):
		// real packages with huge Provides lists reach this
		target := rapid.SampledFrom([]int{5000, 20000, 33000, 40000, 70000, 140000}).Draw(t, "bigsize")
		if rapid.Bool().Draw(t, "bigshape") {
			items := []string{}
			for n := 0; n < target; n += 22 {
				items = append(items, fmt.Sprintf("librust-crate%05d-dev", n/22))
			}
			val := strings.Join(items, ", ")
			text += "X-Provides-Like: " + val + "\n"
			exp.Unknown["X-Provides-Like"] = val
		} else {
			lines := []string{}
			for n := 0; n < target; n += 40 {
				lines = append(lines, fmt.Sprintf("line %06d of a very long description.....", n/40))
			}
			text += "X-Long-Text: first\n " + strings.Join(lines, "\n ") + "\n"
			exp.Unknown["X-Long-Text"] = "first\n" + strings.Join(lines, "\n") + "\n"
		}
		// ... and a field after it, so that a truncated read is noticed
		text += "X-After-The-Big-One: still here\n"
		exp.Unknown["X-After-The-Big-One"] = "still here"
	}
	m := DebModel{ControlText: text, Exp: exp, SourceName: src, DebianBinary: "2.0\n"}
	m.CtlFiles = genCtlFiles(t, text)
	m.DataFiles = genDataFiles(t)
	m.CtlCodec = rapid.SampledFrom(codecs).Draw(t, "ctlcodec")
	m.DataCodec = rapid.SampledFrom(codecs).Draw(t, "datacodec")
	if m.CtlCodec == "xz" || m.DataCodec == "xz" {
		opts := []string{"", "", "", "", "6", "dict16"}
		if tier() == "thorough" {
			opts = append(opts, "dict64")
		}
		m.XZOpt = rapid.SampledFrom(opts).Draw(t, "xzopt")
	}
	m.Slash = rapid.IntRange(0, 3).Draw(t, "slash") == 0
	if rapid.IntRange(0, 3).Draw(t, "gzsplit") == 0 {
		m.GzSplit = rapid.IntRange(2, 4).Draw(t, "gzsplitN")
	}
	m.TarDialect = rapid.SampledFrom([]string{"", "", "", "ustar", "pax"}).Draw(t, "tarDialect")
	if rapid.IntRange(0, 9).Draw(t, "signedColsOn") == 0 {
		m.SignedCols = rapid.IntRange(1, 4).Draw(t, "signedCols")
	}
	ne := rapid.SampledFrom([]int{0, 0, 1, 2}).Draw(t, "nextra")
	for i := 0; i < ne; i++ {
		name := rapid.SampledFrom([]string{"_gpgorigin", "_gpgbuilder", "_x", "_meta.json", "_" + genFromAlphabet(t, "en", "abc019", 1, 8)}).Draw(t, "ename")
		dup := false
		for _, e := range m.Extra {
			if e.Name == name {
				dup = true
			}
		}
		if dup {
			continue
		}
		m.Extra = append(m.Extra, ArMember{Name: name, SlashTerm: m.Slash, MTime: 1700000000, Mode: "100644", Data: genArData(t, "edata")})
	}
	m.ExtraPos = rapid.IntRange(0, 1).Draw(t, "extrapos")
	return m
}
