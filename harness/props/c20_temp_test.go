package props

import (
	"bytes"
	"fmt"
	"os"
	"path/filepath"
	"sort"
	"sync"
	"syscall"
	"testing"
	"unsafe"

	"pault.ag/go/debian/control"
	"pgregory.net/rapid"
)

// C20/scratchnames and C20/together.
//
// The upload sub-check plants symbolic links under the names the control file lists. A copy that
// works through scratch files has further names in the destination, which nobody lists - and which
// are as good a place for a planted link, when they can be foreseen. What the names are is the
// library's business, so the check asks the library: the operation runs once in a tree of its own
// with a watch (inotify) on the destination, and every name that appeared there and is not a listed
// one is then occupied, in a second tree, by a link to a file outside. Names that are fresh every
// time are never hit; names made from the process id, a counter or the file name are.
//
// The second sub-check copies several independent uploads (no name in common) into ONE directory
// at the same time, as an incoming queue served by a goroutine per upload does.

type ScratchCase struct {
	Handle string   `json:"handle"` // dsc | changes
	Op     string   `json:"op"`     // copy | move
	Files  []UpFile `json:"files"`
	Passes int      `json:"passes"` // observed runs before the planted one
}

// watchDir starts an inotify watch on dir; the returned function stops it and reports the names
// that were created in or moved into dir meanwhile (nil, false: no inotify here).
func watchDir(dir string) (func() []string, bool) {
	fd, err := syscall.InotifyInit1(syscall.IN_NONBLOCK | syscall.IN_CLOEXEC)
	if err != nil {
		return nil, false
	}
	if _, err := syscall.InotifyAddWatch(fd, dir, syscall.IN_CREATE|syscall.IN_MOVED_TO); err != nil {
		syscall.Close(fd)
		return nil, false
	}
	return func() []string {
		defer syscall.Close(fd)
		seen := map[string]bool{}
		buf := make([]byte, 64*1024)
		for {
			n, err := syscall.Read(fd, buf)
			if n <= 0 || err != nil {
				break
			}
			for off := 0; off+syscall.SizeofInotifyEvent <= n; {
				ev := (*syscall.InotifyEvent)(unsafe.Pointer(&buf[off]))
				nameLen := int(ev.Len)
				name := buf[off+syscall.SizeofInotifyEvent : off+syscall.SizeofInotifyEvent+nameLen]
				if i := bytes.IndexByte(name, 0); i >= 0 {
					name = name[:i]
				}
				if len(name) > 0 {
					seen[string(name)] = true
				}
				off += syscall.SizeofInotifyEvent + nameLen
			}
		}
		out := []string{}
		for k := range seen {
			out = append(out, k)
		}
		sort.Strings(out)
		return out
	}, true
}

// makeUploadTree lays out root/{src,dst,outside} with the upload in src and returns a handle on it.
func makeUploadTree(root string, uc UploadCase, prefix string) (uploadHandle, string, error) {
	for _, d := range []string{"src", "dst", "outside"} {
		if err := os.MkdirAll(filepath.Join(root, d), 0o755); err != nil {
			return nil, "", errf("HARNESS: %v", err)
		}
	}
	for _, f := range uc.Files {
		if err := os.WriteFile(filepath.Join(root, "src", f.Name), upContent(f), 0o644); err != nil {
			return nil, "", errf("HARNESS: %v", err)
		}
	}
	ctlName := prefix + uc.ctlName()
	text := uc.controlText(root)
	ctlPath := filepath.Join(root, "src", ctlName)
	if err := os.WriteFile(ctlPath, []byte(text), 0o644); err != nil {
		return nil, "", errf("HARNESS: %v", err)
	}
	if uc.Handle == "dsc" {
		d, err := control.ParseDscFile(ctlPath)
		if err != nil {
			return nil, "", errf("ParseDscFile(%q): %v", text, err)
		}
		return d, ctlName, nil
	}
	ch, err := control.ParseChangesFile(ctlPath)
	if err != nil {
		return nil, "", errf("ParseChangesFile(%q): %v", text, err)
	}
	return ch, ctlName, nil
}

func runUploadOp(h uploadHandle, op, dest string) error {
	if op == "move" {
		return h.Move(dest)
	}
	return h.Copy(dest)
}

const scratchVictim = "VICTIM: a file outside the source and destination directories\n"

var specC20Scratch = Register(&Spec[ScratchCase]{
	Prop: "C20", Name: "scratchnames",
	Rule: "uploads of 1..4 plainly named files (sizes 0 .. 100000) copied or moved into an empty destination, in trees of their own, 1..3 times with an inotify watch on the destination: every name that appeared there and is neither a listed file nor the control file is a scratch name of the library's. Then the same upload in a fresh tree whose destination holds, under each of those names, a symbolic link to root/outside/victim (and a second one to a file in root/outside that does not exist yet). Oracle: root/outside is bit-identical afterwards and nothing new exists there; if the operation reports success all files and the control file are byte-identical in the destination, if it fails the control file is not in the destination (Move: intact at its source). Non-trivial: the observed runs showed at least one scratch name; distinct by case. Skipped (counted) where inotify is not available.",
	Check: func(c ScratchCase, r *Recorder) error {
		uc := UploadCase{Handle: c.Handle, Files: c.Files}
		names := map[string]bool{}
		listed := map[string]bool{uc.ctlName(): true}
		for _, f := range c.Files {
			listed[f.Name] = true
		}
		for pass := 0; pass < c.Passes; pass++ {
			root, err := os.MkdirTemp(workDir(), "c20s-")
			if err != nil {
				return errf("HARNESS: %v", err)
			}
			defer os.RemoveAll(root)
			h, _, err := makeUploadTree(root, uc, "")
			if err != nil {
				return err
			}
			stop, ok := watchDir(filepath.Join(root, "dst"))
			if !ok {
				r.Count("skipped_external:inotify", 1)
				r.Case(jsonKey(c), false)
				return nil
			}
			operr := runUploadOp(h, c.Op, filepath.Join(root, "dst"))
			for _, n := range stop() {
				if !listed[n] {
					names[n] = true
				}
			}
			if operr != nil {
				return errf("%s of a plain upload (%d files) into an empty directory failed: %v", c.Op, len(c.Files), operr)
			}
		}
		scratch := []string{}
		for n := range names {
			scratch = append(scratch, n)
		}
		sort.Strings(scratch)
		cl := "no-scratch-names-seen"
		if len(scratch) > 0 {
			cl = "scratch-names-seen"
		}
		r.Case(jsonKey(c), len(scratch) > 0, cl)
		r.Sample(map[string]interface{}{"op": c.Op, "handle": c.Handle, "files": len(c.Files), "scratch": scratch})
		// the planted run
		root, err := os.MkdirTemp(workDir(), "c20s-")
		if err != nil {
			return errf("HARNESS: %v", err)
		}
		defer os.RemoveAll(root)
		h, ctlName, err := makeUploadTree(root, uc, "")
		if err != nil {
			return err
		}
		victim := filepath.Join(root, "outside", "victim")
		os.WriteFile(victim, []byte(scratchVictim), 0o644)
		for i, n := range scratch {
			target := victim
			if i%2 == 1 {
				target = filepath.Join(root, "outside", fmt.Sprintf("not-there-%d", i))
			}
			os.Symlink(target, filepath.Join(root, "dst", n))
		}
		before := snapshotTree(filepath.Join(root, "outside"))
		ctlBefore, _ := os.ReadFile(filepath.Join(root, "src", ctlName))
		operr := runUploadOp(h, c.Op, filepath.Join(root, "dst"))
		if d := diffSnap(before, snapshotTree(filepath.Join(root, "outside"))); d != "" {
			return errf("%s of %d files into a destination where links to files outside stand under the names the library used for its scratch files in earlier runs (%q) returned %v and changed root/outside: %s", c.Op, len(c.Files), scratch, operr, d)
		}
		if operr != nil {
			if isRegular(filepath.Join(root, "dst", ctlName)) {
				return errf("%s failed (%v) with links planted under earlier scratch names %q, but the control file is in the destination", c.Op, operr, scratch)
			}
			if b, err := os.ReadFile(filepath.Join(root, "src", ctlName)); err != nil || !bytes.Equal(b, ctlBefore) {
				return errf("%s failed (%v) with links planted under earlier scratch names %q, and the control file is no longer intact at its source", c.Op, operr, scratch)
			}
			r.Count("planted-run-refused", 1)
			return nil
		}
		for _, f := range c.Files {
			if b, err := os.ReadFile(filepath.Join(root, "dst", f.Name)); err != nil || !bytes.Equal(b, upContent(f)) {
				return errf("after %s (links planted under earlier scratch names %q) the file %s in the destination is missing or not byte-identical (%d bytes, err %v)", c.Op, scratch, f.Name, len(b), err)
			}
		}
		if b, err := os.ReadFile(filepath.Join(root, "dst", ctlName)); err != nil || !bytes.Equal(b, ctlBefore) {
			return errf("after %s (links planted under earlier scratch names %q) the control file in the destination is missing or differs (%v)", c.Op, scratch, err)
		}
		return nil
	},
})

func genPlainUpFiles(t *rapid.T, prefix string, max int) []UpFile {
	n := rapid.IntRange(1, max).Draw(t, "nfiles")
	var out []UpFile
	for i := 0; i < n; i++ {
		out = append(out, UpFile{
			Name: fmt.Sprintf("%spkg_1.0-%d%s", prefix, i, rapid.SampledFrom([]string{".orig.tar.gz", ".debian.tar.xz", "_amd64.deb", ".dsc", "_amd64.buildinfo"}).Draw(t, "ext")),
			Size: rapid.SampledFrom([]int{0, 1, 7, 300, 32767, 32768, 32769, 100000}).Draw(t, "size"),
			Seed: rapid.IntRange(1, 1<<20).Draw(t, "seed"),
		})
	}
	return out
}

func TestC20_ScratchNames(t *testing.T) {
	specC20Scratch.Run(t, func(t *rapid.T) ScratchCase {
		return ScratchCase{
			Handle: rapid.SampledFrom([]string{"dsc", "changes"}).Draw(t, "handle"),
			Op:     rapid.SampledFrom([]string{"copy", "copy", "move"}).Draw(t, "op"),
			Files:  genPlainUpFiles(t, "", 4),
			Passes: rapid.IntRange(1, 3).Draw(t, "passes"),
		}
	}, 150, 1500)
}

// ------------------------------------------------------------------ several uploads, one directory

type TogetherCase struct {
	Handle  string     `json:"handle"`
	Uploads [][]UpFile `json:"uploads"` // no name in common
	Op      string     `json:"op"`
}

var specC20Together = Register(&Spec[TogetherCase]{
	Prop: "C20", Name: "together",
	Rule: "2..8 independent uploads (1..3 plainly named files each, no name in common, control files named apart, each in a source directory of its own) copied or moved into ONE destination directory at the same time, a goroutine per upload, released together. Oracle: every operation succeeds (they have nothing in common but the directory); afterwards every file and every control file is in the destination, byte-identical to its original; nothing else is left in the destination. Non-trivial: every case; distinct by case.",
	Check: func(c TogetherCase, r *Recorder) error {
		r.Case(jsonKey(c), true, fmt.Sprintf("uploads:%d", len(c.Uploads)))
		r.Sample(map[string]interface{}{"uploads": len(c.Uploads), "op": c.Op, "handle": c.Handle})
		top, err := os.MkdirTemp(workDir(), "c20t-")
		if err != nil {
			return errf("HARNESS: %v", err)
		}
		defer os.RemoveAll(top)
		dst := filepath.Join(top, "dst")
		os.MkdirAll(dst, 0o755)
		type up struct {
			h       uploadHandle
			ctlName string
			ctl     []byte
			files   []UpFile
		}
		ups := []up{}
		for i, fs := range c.Uploads {
			root := filepath.Join(top, fmt.Sprintf("u%d", i))
			uc := UploadCase{Handle: c.Handle, Files: fs}
			h, ctlName, err := makeUploadTree(root, uc, fmt.Sprintf("u%d-", i))
			if err != nil {
				return err
			}
			b, _ := os.ReadFile(filepath.Join(root, "src", ctlName))
			ups = append(ups, up{h, ctlName, b, fs})
		}
		errs := make([]error, len(ups))
		var wg sync.WaitGroup
		start := make(chan struct{})
		for i := range ups {
			wg.Add(1)
			go func(i int) {
				defer wg.Done()
				<-start
				errs[i] = runUploadOp(ups[i].h, c.Op, dst)
			}(i)
		}
		close(start)
		wg.Wait()
		want := map[string]bool{}
		for i, u := range ups {
			if errs[i] != nil {
				return errf("%d independent uploads %s-ed into one directory at the same time: upload %d failed: %v", len(ups), c.Op, i, errs[i])
			}
			for _, f := range u.files {
				want[f.Name] = true
				if b, err := os.ReadFile(filepath.Join(dst, f.Name)); err != nil || !bytes.Equal(b, upContent(f)) {
					return errf("%d independent uploads %s-ed into one directory at the same time, all reporting success: file %s of upload %d is missing or not byte-identical in the destination (%d bytes, want %d; err %v)", len(ups), c.Op, f.Name, i, len(b), f.Size, err)
				}
			}
			want[u.ctlName] = true
			if b, err := os.ReadFile(filepath.Join(dst, u.ctlName)); err != nil || !bytes.Equal(b, u.ctl) {
				return errf("%d independent uploads %s-ed into one directory at the same time, all reporting success: control file %s is missing or differs in the destination (err %v)", len(ups), c.Op, u.ctlName, err)
			}
		}
		ents, _ := os.ReadDir(dst)
		for _, e := range ents {
			if !want[e.Name()] {
				return errf("%d independent uploads %s-ed into one directory at the same time, all reporting success: %s is left in the destination", len(ups), c.Op, e.Name())
			}
		}
		return nil
	},
})

func TestC20_Together(t *testing.T) {
	specC20Together.Run(t, func(t *rapid.T) TogetherCase {
		c := TogetherCase{Handle: rapid.SampledFrom([]string{"dsc", "changes"}).Draw(t, "handle"), Op: rapid.SampledFrom([]string{"copy", "copy", "move"}).Draw(t, "op")}
		n := rapid.IntRange(2, 8).Draw(t, "nuploads")
		for i := 0; i < n; i++ {
			c.Uploads = append(c.Uploads, genPlainUpFiles(t, fmt.Sprintf("u%d-", i), 3))
		}
		return c
	}, 150, 1500)
}
