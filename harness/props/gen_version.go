package props

import (
	"math"
	"math/big"
	"strconv"
	"strings"

	"pault.ag/go/debian/version"
	"pgregory.net/rapid"
)

// VerParts is the JSON-friendly mirror of version.Version.
type VerParts struct {
	E uint64 `json:"e"`
	V string `json:"v"`
	R string `json:"r"`
}

func (p VerParts) ver() version.Version {
	return version.Version{Epoch: uint(p.E), Version: p.V, Revision: p.R}
}

// verEdited is the same value reached another way: a Version that came out of the parser for some
// other text and had its exported members assigned afterwards (what a program does when it bumps
// a revision). Whatever else the parser may have left in the value, the members are what counts.
func (p VerParts) verEdited() version.Version {
	v, err := version.Parse("7:9.9.9~z-9+b9")
	if err != nil {
		return p.ver()
	}
	v.Epoch, v.Version, v.Revision = uint(p.E), p.V, p.R
	return v
}

func partsOf(v version.Version) VerParts {
	return VerParts{E: uint64(v.Epoch), V: v.Version, R: v.Revision}
}

func (p VerParts) key() string { return strconv.FormatUint(p.E, 10) + "\x00" + p.V + "\x00" + p.R }

const (
	alphaUpstream = "ABCXYZabcxyz0123456789.+~:-"
	alphaRevision = "ABCXYZabcxyz0123456789.+~"
	alphaHot      = "019aZ.+~-:"
)

var (
	tokDigits = []string{"0", "1", "2", "9", "10", "00", "01", "007", "100", "99", "20240101",
		"18446744073709551616", "123456789012345678901234567890", "000000000000000000001"}
	tokAlpha = []string{"a", "b", "z", "A", "Z", "rc", "beta", "alpha", "pre", "deb", "ubuntu", "bpo", "git", "b", "nmu"}
	tokPunct = []string{".", ".", ".", "+", "~", "-", ":", "~~", ".+", "+~", "..", "~.", "-.", "+b", "~rc", "+dfsg", "+deb", "~bpo"}
)

func filterTokens(toks []string, alpha string) []string {
	out := []string{}
	for _, t := range toks {
		ok := true
		for i := 0; i < len(t); i++ {
			if !strings.ContainsRune(alpha, rune(t[i])) {
				ok = false
			}
		}
		if ok {
			out = append(out, t)
		}
	}
	return out
}

var (
	tokPunctRev = filterTokens(tokPunct, alphaRevision)
)

// genPart draws a version part (upstream or revision) over alpha.  Token based
// construction makes digit runs, leading zeros, tildes and mixed punctuation
// frequent; a "soup" class covers arbitrary strings; a long-run class covers
// magnitudes beyond any machine integer.
func genPart(t *rapid.T, label string, alpha string) string {
	punct := tokPunct
	if alpha == alphaRevision {
		punct = tokPunctRev
	}
	kind := rapid.IntRange(0, 11).Draw(t, label+"kind")
	switch {
	case kind == 0:
		return ""
	case kind <= 7:
		n := rapid.IntRange(1, 7).Draw(t, label+"n")
		var sb strings.Builder
		for i := 0; i < n; i++ {
			switch rapid.IntRange(0, 5).Draw(t, label+"tk") {
			case 0, 1, 2:
				sb.WriteString(rapid.SampledFrom(tokDigits).Draw(t, label+"d"))
			case 3:
				sb.WriteString(rapid.SampledFrom(tokAlpha).Draw(t, label+"a"))
			default:
				sb.WriteString(rapid.SampledFrom(punct).Draw(t, label+"p"))
			}
		}
		return sb.String()
	case kind <= 9:
		n := rapid.IntRange(1, 16).Draw(t, label+"len")
		b := make([]byte, n)
		for i := range b {
			b[i] = alpha[rapid.IntRange(0, len(alpha)-1).Draw(t, label+"c")]
		}
		return string(b)
	case kind == 10:
		// hot alphabet soup
		n := rapid.IntRange(1, 10).Draw(t, label+"len")
		b := make([]byte, 0, n)
		for i := 0; i < n; i++ {
			c := alphaHot[rapid.IntRange(0, len(alphaHot)-1).Draw(t, label+"c")]
			if strings.IndexByte(alpha, c) >= 0 {
				b = append(b, c)
			}
		}
		return string(b)
	default:
		// very long digit run (up to 400 digits), optionally with leading zeros
		n := rapid.IntRange(20, 400).Draw(t, label+"digits")
		b := make([]byte, n)
		for i := range b {
			b[i] = byte('0' + rapid.IntRange(0, 9).Draw(t, label+"dg"))
		}
		pre := rapid.SampledFrom([]string{"", "1.", "0", "00", "a", "~"}).Draw(t, label+"pre")
		suf := rapid.SampledFrom([]string{"", ".1", "a", "~", "+"}).Draw(t, label+"suf")
		return pre + string(b) + suf
	}
}

// genEpoch draws an epoch for a Version *struct*; the Epoch member is a uint, so
// on a 32-bit build the values are folded into its range.
func genEpoch(t *rapid.T, label string) uint64 {
	return genEpoch64(t, label) & uint64(^uint(0))
}

func genEpoch64(t *rapid.T, label string) uint64 {
	switch rapid.IntRange(0, 9).Draw(t, label+"kind") {
	case 0, 1, 2, 3, 4:
		return 0
	case 5, 6:
		return uint64(rapid.IntRange(1, 3).Draw(t, label+"small"))
	case 7:
		return uint64(rapid.IntRange(0, 100000).Draw(t, label+"mid"))
	case 8:
		return math.MaxInt64
	default:
		return rapid.SampledFrom([]uint64{math.MaxUint64, math.MaxInt64 + 1, math.MaxUint32, math.MaxUint32 + 1, 9, 10}).Draw(t, label+"big")
	}
}

func genVerParts(t *rapid.T, label string) VerParts {
	return VerParts{E: genEpoch(t, label+"e"), V: genPart(t, label+"v", alphaUpstream), R: genPart(t, label+"r", alphaRevision)}
}

// editPart applies one local edit to a part, staying inside alpha.
func editPart(t *rapid.T, label string, s string, alpha string) string {
	pos := func() int {
		if len(s) == 0 {
			return 0
		}
		return rapid.IntRange(0, len(s)).Draw(t, label+"pos")
	}
	hot := func() string {
		for {
			c := alphaHot[rapid.IntRange(0, len(alphaHot)-1).Draw(t, label+"hc")]
			if strings.IndexByte(alpha, c) >= 0 {
				return string(c)
			}
		}
	}
	switch rapid.IntRange(0, 11).Draw(t, label+"edit") {
	case 0: // insert
		p := pos()
		return s[:p] + hot() + s[p:]
	case 1: // delete
		if len(s) == 0 {
			return s
		}
		p := rapid.IntRange(0, len(s)-1).Draw(t, label+"dp")
		return s[:p] + s[p+1:]
	case 2: // replace
		if len(s) == 0 {
			return hot()
		}
		p := rapid.IntRange(0, len(s)-1).Draw(t, label+"rp")
		return s[:p] + hot() + s[p+1:]
	case 3: // add leading zeros to the first digit run at/after pos
		p := pos()
		for p < len(s) && !(s[p] >= '0' && s[p] <= '9') {
			p++
		}
		return s[:p] + strings.Repeat("0", rapid.IntRange(1, 3).Draw(t, label+"z")) + s[p:]
	case 4: // strip leading zeros everywhere
		var sb strings.Builder
		for i := 0; i < len(s); i++ {
			if s[i] == '0' && (i == 0 || !(s[i-1] >= '0' && s[i-1] <= '9')) && i+1 < len(s) && s[i+1] >= '0' && s[i+1] <= '9' {
				continue
			}
			sb.WriteByte(s[i])
		}
		return sb.String()
	case 5: // lengthen a digit run: append a digit at the end of the run at pos
		p := pos()
		for p < len(s) && !(s[p] >= '0' && s[p] <= '9') {
			p++
		}
		for p < len(s) && s[p] >= '0' && s[p] <= '9' {
			p++
		}
		return s[:p] + string(byte('0'+rapid.IntRange(0, 9).Draw(t, label+"ld"))) + s[p:]
	case 6:
		suf := []string{"~", "a", "+b1", ".0", "~rc1", "0", ".", "+"}
		return s + rapid.SampledFrom(suf).Draw(t, label+"suf")
	case 7: // letter -> punctuation
		for i := 0; i < len(s); i++ {
			if (s[i] >= 'a' && s[i] <= 'z') || (s[i] >= 'A' && s[i] <= 'Z') {
				return s[:i] + rapid.SampledFrom([]string{".", "+", "~"}).Draw(t, label+"lp") + s[i+1:]
			}
		}
		return s + "~"
	case 8: // truncate
		if len(s) == 0 {
			return s
		}
		return s[:rapid.IntRange(0, len(s)-1).Draw(t, label+"tr")]
	case 9: // increment last digit
		for i := len(s) - 1; i >= 0; i-- {
			if s[i] >= '0' && s[i] < '9' {
				return s[:i] + string(s[i]+1) + s[i+1:]
			}
		}
		return s + "1"
	default:
		return s
	}
}

// genNeighbour derives b from a by one local edit (or an identical copy).
func genNeighbour(t *rapid.T, label string, a VerParts) VerParts {
	b := a
	switch rapid.IntRange(0, 9).Draw(t, label+"which") {
	case 0:
		return b // identical
	case 1:
		b.E = genEpoch(t, label+"e")
	case 2:
		if a.R == "" {
			b.R = "0"
		} else if a.R == "0" {
			b.R = ""
		} else {
			b.R = rapid.SampledFrom([]string{"", "0", "00", "1"}).Draw(t, label+"rv")
		}
	case 3, 4, 5:
		b.R = editPart(t, label+"r", a.R, alphaRevision)
	default:
		b.V = editPart(t, label+"v", a.V, alphaUpstream)
	}
	return b
}

type VerPair struct {
	A VerParts `json:"a"`
	B VerParts `json:"b"`
}

func genVerPair(t *rapid.T) VerPair {
	a := genVerParts(t, "a")
	if rapid.IntRange(0, 2).Draw(t, "rel") == 0 {
		return VerPair{A: a, B: genVerParts(t, "b")}
	}
	b := genNeighbour(t, "n", a)
	if rapid.Bool().Draw(t, "twice") {
		b = genNeighbour(t, "n2", b)
	}
	if rapid.Bool().Draw(t, "swap") {
		a, b = b, a
	}
	return VerPair{A: a, B: b}
}

// ---------------------------------------------------------------- reference model (Policy 5.6.12)

// refTokens splits a part into alternating non-digit / digit runs, starting
// with a (possibly empty) non-digit run.
func refTokens(s string) (nondigit []string, digit []string) {
	i := 0
	for i < len(s) || len(nondigit) == 0 {
		j := i
		for j < len(s) && !(s[j] >= '0' && s[j] <= '9') {
			j++
		}
		nondigit = append(nondigit, s[i:j])
		i = j
		for j < len(s) && s[j] >= '0' && s[j] <= '9' {
			j++
		}
		digit = append(digit, s[i:j])
		i = j
		if i >= len(s) {
			break
		}
	}
	return
}

func refCharKey(s string, i int) int {
	if i >= len(s) {
		return 0 // end of run
	}
	c := s[i]
	switch {
	case c == '~':
		return -1
	case (c >= 'a' && c <= 'z') || (c >= 'A' && c <= 'Z'):
		return int(c)
	default:
		return int(c) + 256
	}
}

func refCmpNonDigit(a, b string) int {
	n := len(a)
	if len(b) > n {
		n = len(b)
	}
	for i := 0; i < n; i++ {
		ka, kb := refCharKey(a, i), refCharKey(b, i)
		if ka != kb {
			if ka < kb {
				return -1
			}
			return 1
		}
	}
	return 0
}

func refCmpDigits(a, b string) int {
	x, y := new(big.Int), new(big.Int)
	if a != "" {
		x.SetString(a, 10)
	}
	if b != "" {
		y.SetString(b, 10)
	}
	return x.Cmp(y)
}

func refCmpPart(a, b string) int {
	na, da := refTokens(a)
	nb, db := refTokens(b)
	n := len(na)
	if len(nb) > n {
		n = len(nb)
	}
	get := func(xs []string, i int) string {
		if i < len(xs) {
			return xs[i]
		}
		return ""
	}
	for i := 0; i < n; i++ {
		if c := refCmpNonDigit(get(na, i), get(nb, i)); c != 0 {
			return c
		}
		if c := refCmpDigits(get(da, i), get(db, i)); c != 0 {
			return c
		}
	}
	return 0
}

// refCompare is the independent reference ordering.
func refCompare(a, b VerParts) int {
	if a.E != b.E {
		if a.E < b.E {
			return -1
		}
		return 1
	}
	if c := refCmpPart(a.V, b.V); c != 0 {
		return c
	}
	return refCmpPart(a.R, b.R)
}

func sign(x int) int {
	switch {
	case x < 0:
		return -1
	case x > 0:
		return 1
	}
	return 0
}

// ---------------------------------------------------------------- classification of pairs

func hasLeadingZeroRun(s string) bool {
	for i := 0; i+1 < len(s); i++ {
		if s[i] == '0' && (i == 0 || !(s[i-1] >= '0' && s[i-1] <= '9')) && s[i+1] >= '0' && s[i+1] <= '9' {
			return true
		}
	}
	return false
}

func longestDigitRun(s string) int {
	best, cur := 0, 0
	for i := 0; i < len(s); i++ {
		if s[i] >= '0' && s[i] <= '9' {
			cur++
			if cur > best {
				best = cur
			}
		} else {
			cur = 0
		}
	}
	return best
}

func commonPrefix(a, b string) int {
	i := 0
	for i < len(a) && i < len(b) && a[i] == b[i] {
		i++
	}
	return i
}

// classifyPair names the interesting comparison classes a pair falls in.
func classifyPair(p VerPair) []string {
	cl := []string{}
	a, b := p.A, p.B
	if a.key() == b.key() {
		return []string{"identical"}
	}
	if a.E != b.E {
		cl = append(cl, "epoch-differs")
	} else if a.V != b.V {
		cl = append(cl, "epoch-tie-upstream-differs")
	}
	if a.E == b.E && refCmpPart(a.V, b.V) == 0 && a.R != b.R {
		cl = append(cl, "upstream-tie-revision-decides")
		if (a.R == "" && refCmpPart(b.R, "0") == 0) || (b.R == "" && refCmpPart(a.R, "0") == 0) {
			cl = append(cl, "missing-vs-zero-revision")
		}
	}
	for _, pr := range [][2]string{{a.V, b.V}, {a.R, b.R}} {
		x, y := pr[0], pr[1]
		if x == y {
			continue
		}
		k := commonPrefix(x, y)
		if k > 0 {
			cl = append(cl, "late-decision")
		}
		cx, cy := byte(0), byte(0)
		if k < len(x) {
			cx = x[k]
		}
		if k < len(y) {
			cy = y[k]
		}
		isAl := func(c byte) bool { return (c >= 'a' && c <= 'z') || (c >= 'A' && c <= 'Z') }
		isPu := func(c byte) bool { return c != 0 && c != '~' && !isAl(c) && !(c >= '0' && c <= '9') }
		switch {
		case (cx == '~' && cy == 0) || (cy == '~' && cx == 0):
			cl = append(cl, "tilde-vs-end")
		case (cx == '~' && isAl(cy)) || (cy == '~' && isAl(cx)):
			cl = append(cl, "tilde-vs-letter")
		case (isAl(cx) && isPu(cy)) || (isAl(cy) && isPu(cx)):
			cl = append(cl, "letter-vs-punct")
		case (isAl(cx) && cy == 0) || (isAl(cy) && cx == 0):
			cl = append(cl, "letter-vs-end")
		case (isPu(cx) && cy == 0) || (isPu(cy) && cx == 0):
			cl = append(cl, "punct-vs-end")
		}
		if hasLeadingZeroRun(x) || hasLeadingZeroRun(y) {
			cl = append(cl, "leading-zeros")
		}
		if longestDigitRun(x) >= 20 || longestDigitRun(y) >= 20 {
			cl = append(cl, "huge-digit-run")
		}
		if longestDigitRun(x) != longestDigitRun(y) {
			cl = append(cl, "digit-runs-differ-in-length")
		}
	}
	return cl
}

// ---------------------------------------------------------------- Policy grammar strings (C03, shared by C04/C06/C10/C17)

// WellFormed is a version written from the Policy grammar together with the
// parts the *renderer* used - the parser-independent expectation.
type WellFormed struct {
	Text     string `json:"text"`     // rendering, incl. surrounding whitespace
	HasEpoch bool   `json:"hasEpoch"` // an "N:" prefix was written
	EpochTxt string `json:"epochTxt"` // digits as written (may carry leading zeros)
	Epoch    uint64 `json:"epoch"`
	Upstream string `json:"upstream"`
	HasRev   bool   `json:"hasRev"`
	Revision string `json:"revision"`
}

const (
	alnum      = "abcdefghijklmnopqrstuvwxyzABCDEFGHIJKLMNOPQRSTUVWXYZ0123456789"
	revChars   = alnum + ".+~"
	upstrChars = alnum + ".+~"
)

func genFromAlphabet(t *rapid.T, label, alpha string, min, max int) string {
	n := rapid.IntRange(min, max).Draw(t, label+"len")
	b := make([]byte, n)
	for i := range b {
		b[i] = alpha[rapid.IntRange(0, len(alpha)-1).Draw(t, label+"c")]
	}
	return string(b)
}

// genWellFormedCore draws (epoch?, upstream, revision?) from the Policy grammar.
// Epochs are folded into the range of the Epoch member (a uint: 32 bits on a
// 32-bit build, where the checks are run as well).
// longVersions: set by the C01-C03 tests (each test function is its own process): one version
// in eight is 12..260 tokens long.
var longVersions bool

func genWellFormedCore(t *rapid.T, label string) WellFormed {
	return genWellFormedCoreX(t, label, false)
}

// with anyEpoch the epoch is any decimal up to MaxInt64, whatever the platform:
// only C03/wellformed wants that, it expects a rejection where it does not fit
func genWellFormedCoreX(t *rapid.T, label string, anyEpoch bool) WellFormed {
	w := WellFormed{}
	w.HasEpoch = rapid.IntRange(0, 2).Draw(t, label+"hasEpoch") == 0
	if w.HasEpoch {
		switch rapid.IntRange(0, 5).Draw(t, label+"ek") {
		case 0:
			w.Epoch = 0
		case 1, 2:
			w.Epoch = uint64(rapid.IntRange(1, 9).Draw(t, label+"e1"))
		case 3:
			w.Epoch = uint64(rapid.IntRange(10, 1000000).Draw(t, label+"e2"))
		case 4:
			w.Epoch = math.MaxInt64
		default:
			w.Epoch = rapid.Uint64Range(0, math.MaxInt64).Draw(t, label+"e3")
		}
		if !anyEpoch {
			w.Epoch &= uint64(^uint(0))
		}
		w.EpochTxt = strings.Repeat("0", rapid.SampledFrom([]int{0, 0, 0, 1, 2}).Draw(t, label+"ez")) + strconv.FormatUint(w.Epoch, 10)
	}
	w.HasRev = rapid.IntRange(0, 1).Draw(t, label+"hasRev") == 0
	// upstream: digit, then [A-Za-z0-9.+~]*, plus ':' only with epoch and '-' only with revision
	up := string(byte('0' + rapid.IntRange(0, 9).Draw(t, label+"u0")))
	n := rapid.IntRange(0, 8).Draw(t, label+"un")
	if longVersions && rapid.IntRange(0, 7).Draw(t, label+"ulong") == 0 {
		// renderings beyond small fixed-size buffers (32, 64, 128, 256 bytes)
		n = rapid.SampledFrom([]int{12, 20, 28, 33, 45, 60, 64, 70, 100, 130, 260}).Draw(t, label+"ulen")
	}
	for i := 0; i < n; i++ {
		switch k := rapid.IntRange(0, 9).Draw(t, label+"uk"); {
		case k <= 3:
			up += rapid.SampledFrom(tokDigits[:11]).Draw(t, label+"ud")
		case k <= 5:
			up += rapid.SampledFrom(tokAlpha).Draw(t, label+"ua")
		case k <= 7:
			up += rapid.SampledFrom([]string{".", ".", "+", "~", "+dfsg", "~rc", "+b"}).Draw(t, label+"up")
		case k == 8:
			if w.HasEpoch {
				up += ":"
			} else {
				up += "."
			}
		default:
			if w.HasRev {
				up += "-"
			} else {
				up += "+"
			}
		}
	}
	w.Upstream = up
	if w.HasRev {
		switch rapid.IntRange(0, 3).Draw(t, label+"rk") {
		case 0:
			w.Revision = strconv.Itoa(rapid.IntRange(0, 20).Draw(t, label+"r1"))
		case 1:
			w.Revision = strconv.Itoa(rapid.IntRange(0, 9).Draw(t, label+"r2")) + rapid.SampledFrom([]string{"+b1", "~bpo12+1", "ubuntu1", ".1", "+deb12u1", "~exp1"}).Draw(t, label+"rs")
		default:
			w.Revision = genFromAlphabet(t, label+"rr", revChars, 1, 8)
		}
	}
	return w
}

func (w WellFormed) canonical() string {
	s := ""
	if w.HasEpoch {
		s += w.EpochTxt + ":"
	}
	s += w.Upstream
	if w.HasRev {
		s += "-" + w.Revision
	}
	return s
}

func genWellFormed(t *rapid.T, label string) WellFormed { return genWellFormedX(t, label, false) }

func genWellFormedX(t *rapid.T, label string, anyEpoch bool) WellFormed {
	w := genWellFormedCoreX(t, label, anyEpoch)
	ws := []string{"", "", "", " ", "  ", "\t", "\n", " \t", "\r\n"}
	w.Text = rapid.SampledFrom(ws).Draw(t, label+"lead") + w.canonical() + rapid.SampledFrom(ws).Draw(t, label+"trail")
	return w
}

// genSimpleVersion draws a plain, always-acceptable version string (used as a
// building block in dependency fields, documents and changelogs).
func genSimpleVersion(t *rapid.T, label string) string {
	w := genWellFormedCore(t, label)
	if w.HasEpoch && w.Epoch > 1000000 {
		w.Epoch = w.Epoch % 1000
		w.EpochTxt = strconv.FormatUint(w.Epoch, 10)
	}
	return w.canonical()
}
