package props

import (
	"math"
	"sort"
	"testing"

	"pault.ag/go/debian/version"
	"pgregory.net/rapid"
)

// pool of versions over a tiny alphabet so that equal-but-differently-spelled
// members (1.0 / 1.00 / 1.0-0, 0 / "") are common.
var tinyTokens = []string{"0", "1", "00", "01", "a", "~", "+", ".", "-", "10", "b", "3", "20", "20000000000000000000", "100000000000000000000", "18446744073709551615", "18446744073709551616"}

func genTinyPart(t *rapid.T, label string, allowHyphen bool) string {
	n := rapid.IntRange(0, 4).Draw(t, label+"n")
	s := ""
	for i := 0; i < n; i++ {
		tok := rapid.SampledFrom(tinyTokens).Draw(t, label+"t")
		if tok == "-" && !allowHyphen {
			tok = "."
		}
		s += tok
	}
	return s
}

func genTinyVer(t *rapid.T, label string) VerParts {
	return VerParts{E: uint64(rapid.IntRange(0, 1).Draw(t, label+"e")), V: genTinyPart(t, label+"v", true), R: genTinyPart(t, label+"r", false)}
}

func genPool(t *rapid.T) []VerParts {
	n := rapid.IntRange(3, 10).Draw(t, "poolN")
	pool := make([]VerParts, 0, n)
	for i := 0; i < n; i++ {
		switch rapid.IntRange(0, 9).Draw(t, "src") {
		case 0:
			pool = append(pool, genVerParts(t, "full"))
		case 1, 2:
			if len(pool) > 0 {
				// respell an existing member: add/strip leading zero, add -0, add revision 0
				base := pool[rapid.IntRange(0, len(pool)-1).Draw(t, "base")]
				switch rapid.IntRange(0, 3).Draw(t, "respell") {
				case 0:
					if base.R == "" {
						base.R = "0"
					} else if base.R == "0" {
						base.R = ""
					}
				case 1:
					base.V = editPart(t, "rz", base.V, alphaUpstream)
				case 2:
					if len(base.V) > 0 && base.V[0] >= '0' && base.V[0] <= '9' {
						base.V = "0" + base.V
					}
				default:
					base.R = base.R + "0"
				}
				pool = append(pool, base)
				continue
			}
			fallthrough
		default:
			pool = append(pool, genTinyVer(t, "tiny"))
		}
	}
	return pool
}

type Triple struct {
	A VerParts `json:"a"`
	B VerParts `json:"b"`
	C VerParts `json:"c"`
}

func genTriple(t *rapid.T) Triple {
	pool := genPool(t)
	pick := func(l string) VerParts { return pool[rapid.IntRange(0, len(pool)-1).Draw(t, l)] }
	return Triple{pick("a"), pick("b"), pick("c")}
}

var specC02Laws = Register(&Spec[Triple]{
	Prop: "C02", Name: "laws",
	Rule: "triples drawn with replacement from generated pools of 3..10 versions over a tiny token alphabet {0,1,00,01,3,10,20,a,b,~,+,.,-} plus four digit runs around and beyond 2^64 (epochs 0/1), enriched with respellings of existing members (leading zeros, revision 0 vs none) and with full-alphabet versions; about half of the operands are parser-made values (of another text) whose exported members were assigned afterwards; oracle = Compare(x,x)==0, sign antisymmetry, transitivity of <=, congruence of ~ in both argument positions. Non-trivial: the triple contains an equivalent-but-textually-different pair, or three pairwise inequivalent members; distinct by (a,b,c).",
	Check: func(c Triple, r *Recorder) error {
		a, b, cc := c.A.ver(), c.B.ver(), c.C.ver()
		// (some operands are parser-made values whose members were assigned afterwards)
		if len(c.A.key())%2 == 1 {
			a = c.A.verEdited()
		}
		if len(c.B.key())%3 == 1 {
			b = c.B.verEdited()
		}
		if len(c.C.key())%2 == 0 {
			cc = c.C.verEdited()
		}
		cmp := func(x, y version.Version) int { return sign(version.Compare(x, y)) }
		ab, bc, ac := cmp(a, b), cmp(b, cc), cmp(a, cc)
		eqDiff := (ab == 0 && c.A.key() != c.B.key()) || (bc == 0 && c.B.key() != c.C.key()) || (ac == 0 && c.A.key() != c.C.key())
		allDiff := ab != 0 && bc != 0 && ac != 0
		cl := []string{}
		if eqDiff {
			cl = append(cl, "equivalent-not-identical")
		}
		if allDiff {
			cl = append(cl, "pairwise-inequivalent")
		}
		r.Case(c.A.key()+"|"+c.B.key()+"|"+c.C.key(), eqDiff || allDiff, cl...)
		if eqDiff || allDiff {
			r.Sample(c)
		}
		for _, x := range []version.Version{a, b, cc} {
			if cmp(x, x) != 0 {
				return errf("Compare(%+v, itself) = %d, want 0", x, cmp(x, x))
			}
		}
		pairs := [][2]version.Version{{a, b}, {b, cc}, {a, cc}}
		for _, p := range pairs {
			if cmp(p[0], p[1]) != -cmp(p[1], p[0]) {
				return errf("swapping operands does not flip the sign: Compare(%+v,%+v)=%d, Compare(%+v,%+v)=%d", p[0], p[1], cmp(p[0], p[1]), p[1], p[0], cmp(p[1], p[0]))
			}
		}
		// the sort adapter's Less must be the strict part of the same order
		sl := version.Slice{a, b, cc}
		for i := 0; i < 3; i++ {
			for j := 0; j < 3; j++ {
				if sl.Less(i, j) != (cmp(sl[i], sl[j]) < 0) {
					return errf("Slice.Less(%+v, %+v) = %v but Compare gives %d", sl[i], sl[j], sl.Less(i, j), cmp(sl[i], sl[j]))
				}
			}
		}
		// transitivity on every permutation of the triple
		vs := []version.Version{a, b, cc}
		perms := [][3]int{{0, 1, 2}, {0, 2, 1}, {1, 0, 2}, {1, 2, 0}, {2, 0, 1}, {2, 1, 0}}
		for _, pm := range perms {
			x, y, z := vs[pm[0]], vs[pm[1]], vs[pm[2]]
			if cmp(x, y) <= 0 && cmp(y, z) <= 0 && !(cmp(x, z) <= 0) {
				return errf("not transitive: %+v <= %+v and %+v <= %+v but Compare(%+v,%+v)=%d", x, y, y, z, x, z, cmp(x, z))
			}
			if cmp(x, y) == 0 {
				if cmp(x, z) != cmp(y, z) {
					return errf("equivalent versions %+v ~ %+v behave differently against %+v: %d vs %d", x, y, z, cmp(x, z), cmp(y, z))
				}
				if cmp(z, x) != cmp(z, y) {
					return errf("equivalent versions %+v ~ %+v behave differently as second operand of %+v: %d vs %d", x, y, z, cmp(z, x), cmp(z, y))
				}
			}
		}
		return nil
	},
})

func TestC02_Laws(t *testing.T) {
	longVersions = true
	specC02Laws.Run(t, genTriple, 80000, 400000)
}

// ------------------------------------------------------------------ sorting

type SortCase struct {
	Xs   []VerParts `json:"xs"`
	Perm []int      `json:"perm"` // a second ordering of the same multiset
}

func genSortCase(t *rapid.T) SortCase {
	pool := genPool(t)
	n := rapid.IntRange(0, 40).Draw(t, "n")
	xs := make([]VerParts, n)
	for i := range xs {
		xs[i] = pool[rapid.IntRange(0, len(pool)-1).Draw(t, "i")]
	}
	perm := rapid.Permutation(seqInts(n)).Draw(t, "perm")
	return SortCase{Xs: xs, Perm: perm}
}

func seqInts(n int) []int {
	s := make([]int, n)
	for i := range s {
		s[i] = i
	}
	return s
}

type countingSlice struct {
	version.Slice
	less  int
	limit int
}

type lessBudgetExceeded struct{}

func (c *countingSlice) Less(i, j int) bool {
	c.less++
	if c.less > c.limit {
		panic(lessBudgetExceeded{})
	}
	return c.Slice.Less(i, j)
}

func sortBounded(xs []version.Version) (out []version.Version, ok bool) {
	cp := append(version.Slice{}, xs...)
	n := len(cp)
	limit := 64
	if n > 1 {
		limit = int(64*float64(n)*math.Log2(float64(n))) + 64
	}
	cs := &countingSlice{Slice: cp, limit: limit}
	defer func() {
		if p := recover(); p != nil {
			if _, is := p.(lessBudgetExceeded); is {
				out, ok = nil, false
				return
			}
			panic(p)
		}
	}()
	sort.Sort(cs)
	return cs.Slice, true
}

var specC02Sort = Register(&Spec[SortCase]{
	Prop: "C02", Name: "sort",
	Rule: "slices of 0..40 versions drawn with replacement from a generated pool (see C02/laws) plus a generated permutation; sort.Sort(version.Slice) must terminate within 64*n*log2(n)+64 Less calls, return a permutation of the input (multiset of (epoch,upstream,revision) unchanged), be non-decreasing for EVERY i<j, and sorting the permuted copy must give a position-wise equivalent sequence. Non-trivial: >=2 equivalence classes and one class with >=2 spellings; distinct by slice.",
	Check: func(c SortCase, r *Recorder) error {
		xs := make([]version.Version, len(c.Xs))
		for i, p := range c.Xs {
			xs[i] = p.ver()
			if i%3 == 1 {
				xs[i] = p.verEdited() // a parser-made value whose members were assigned afterwards
			}
		}
		// classification
		spell := map[string]bool{}
		for _, p := range c.Xs {
			spell[p.key()] = true
		}
		classes := 0
		respelled := false
		seen := []version.Version{}
		for _, x := range xs {
			found := false
			for _, s := range seen {
				if version.Compare(x, s) == 0 {
					found = true
					if x != s {
						respelled = true
					}
					break
				}
			}
			if !found {
				seen = append(seen, x)
				classes++
			}
		}
		nt := classes >= 2 && respelled
		r.Case(jsonKey(c.Xs), nt)
		if nt {
			r.Sample(c.Xs)
		}
		sorted, ok := sortBounded(xs)
		if !ok {
			return errf("sort.Sort(version.Slice) of %d elements exceeded the Less budget (comparison not a strict weak order?)", len(xs))
		}
		if len(sorted) != len(xs) {
			return errf("sorted length %d != input length %d", len(sorted), len(xs))
		}
		cnt := map[version.Version]int{}
		for _, x := range xs {
			cnt[x]++
		}
		for _, x := range sorted {
			cnt[x]--
		}
		for k, v := range cnt {
			if v != 0 {
				return errf("sorted slice is not a permutation of the input: %+v count differs by %d", k, v)
			}
		}
		for i := 0; i < len(sorted); i++ {
			for j := i + 1; j < len(sorted); j++ {
				if version.Compare(sorted[i], sorted[j]) > 0 {
					return errf("sorted slice decreases: [%d]=%+v > [%d]=%+v", i, sorted[i], j, sorted[j])
				}
			}
		}
		if len(c.Perm) == len(xs) {
			ys := make([]version.Version, len(xs))
			okPerm := true
			for i, p := range c.Perm {
				if p < 0 || p >= len(xs) {
					okPerm = false
					break
				}
				ys[i] = xs[p]
			}
			if okPerm {
				s2, ok := sortBounded(ys)
				if !ok {
					return errf("sort of the permuted slice exceeded the Less budget")
				}
				for i := range s2 {
					if version.Compare(s2[i], sorted[i]) != 0 {
						return errf("sorting two orderings of one multiset disagrees at %d: %+v vs %+v", i, sorted[i], s2[i])
					}
				}
			}
		}
		return nil
	},
})

func TestC02_Sort(t *testing.T) {
	longVersions = true
	specC02Sort.Run(t, genSortCase, 10000, 60000)
}
