package props

import (
	"bytes"
	"fmt"
	"strconv"
	"strings"

	"pgregory.net/rapid"
)

// ArMember is one member of an ar archive as the independent writer lays it out.
type ArMember struct {
	Name      string `json:"name"`
	SlashTerm bool   `json:"slash,omitempty"` // GNU style "name/"
	MTime     int64  `json:"mtime"`
	UID       int64  `json:"uid"`
	GID       int64  `json:"gid"`
	Mode      string `json:"mode"`
	BlankM    bool   `json:"blankMtime,omitempty"`
	BlankU    bool   `json:"blankUid,omitempty"`
	BlankG    bool   `json:"blankGid,omitempty"`
	BlankMode bool   `json:"blankMode,omitempty"`
	BlankSize bool   `json:"blankSize,omitempty"` // only honoured for an empty member: a blank column reads as 0
	// PadKind: what fills the odd byte behind data of odd length (0 = the usual '\n'); ar(5) asks
	// for a newline, other writers (the Go toolchain, BSD ar on some files) leave a NUL
	PadKind int    `json:"padKind,omitempty"` // 0 '\n', 1 NUL, 2 blank, 3 'x', 4 '`', 5 0xff
	Data    []byte `json:"data"`
}

const arMagic = "!<arch>\n"

func padRight(s string, n int) string {
	for len(s) < n {
		s += " "
	}
	return s
}

func arHeader(m ArMember) []byte {
	name := m.Name
	if m.SlashTerm && len(name) <= 15 {
		name += "/"
	}
	num := func(v int64, blank bool) string {
		if blank {
			return ""
		}
		return strconv.FormatInt(v, 10)
	}
	mode := m.Mode
	if m.BlankMode {
		mode = ""
	}
	h := padRight(name, 16) + padRight(num(m.MTime, m.BlankM), 12) + padRight(num(m.UID, m.BlankU), 6) + padRight(num(m.GID, m.BlankG), 6) +
		padRight(mode, 8) + padRight(num(int64(len(m.Data)), m.BlankSize && len(m.Data) == 0), 10) + "`\n"
	if len(h) != 60 {
		panic(fmt.Sprintf("HARNESS: ar header of %d bytes: %q", len(h), h))
	}
	return []byte(h)
}

func renderAr(ms []ArMember) []byte {
	var b bytes.Buffer
	b.WriteString(arMagic)
	for _, m := range ms {
		b.Write(arHeader(m))
		b.Write(m.Data)
		if len(m.Data)%2 == 1 {
			b.WriteByte([]byte{'\n', 0, ' ', 'x', '`', 0xff}[m.PadKind%6])
		}
	}
	return b.Bytes()
}

const arNameAlphabet = "abcdefghijklmnopqrstuvwxyzABCXYZ0123456789._+-"

func genArData(t *rapid.T, label string) []byte {
	switch rapid.IntRange(0, 30).Draw(t, label+"k") % 11 {
	case 10:
		// a member about as long as a 64 KiB read-ahead window: the next header lands on, just
		// before or just behind offset 65536 (and its multiples, with a second such member)
		n := 65536 - 68 - 60 + rapid.IntRange(-70, 70).Draw(t, label+"w")
		b := make([]byte, n)
		x := uint32(rapid.IntRange(1, 1<<20).Draw(t, label+"seed"))
		for i := range b {
			x = x*1664525 + 1013904223
			b[i] = byte(x >> 24)
		}
		return b
	case 0:
		return []byte{}
	case 1:
		return rapid.SliceOfN(rapid.Byte(), 1, 1).Draw(t, label+"one")
	case 2, 3:
		n := rapid.IntRange(1, 40).Draw(t, label+"oddn")*2 - 1
		return rapid.SliceOfN(rapid.Byte(), n, n).Draw(t, label+"odd")
	case 4, 5:
		n := rapid.IntRange(1, 40).Draw(t, label+"evenn") * 2
		return rapid.SliceOfN(rapid.Byte(), n, n).Draw(t, label+"even")
	case 6:
		// look-alike content: headers, magic, terminators
		fake := arHeader(ArMember{Name: "fake.tar", MTime: 1, Mode: "100644", Data: []byte("xx")})
		parts := [][]byte{fake, []byte(arMagic), []byte("`\n"), []byte("\n"), []byte("debian-binary   "), []byte("2.0\n")}
		n := rapid.IntRange(1, 4).Draw(t, label+"fk")
		var b []byte
		for i := 0; i < n; i++ {
			b = append(b, parts[rapid.IntRange(0, len(parts)-1).Draw(t, label+"fp")]...)
		}
		return b
	default:
		n := rapid.IntRange(100, 8192).Draw(t, label+"bign")
		b := make([]byte, n)
		x := uint32(rapid.IntRange(1, 1<<20).Draw(t, label+"seed"))
		for i := range b {
			x = x*1664525 + 1013904223
			b[i] = byte(x >> 24)
		}
		return b
	}
}

func genArMember(t *rapid.T, label string) ArMember {
	m := ArMember{}
	nl := rapid.SampledFrom([]int{1, 2, 5, 8, 12, 15, 16, 16}).Draw(t, label+"nl")
	m.Name = genFromAlphabet(t, label+"name", arNameAlphabet, nl, nl)
	if nl >= 2 && rapid.IntRange(0, 5).Draw(t, label+"oddname") == 0 {
		// the name column is padded with blanks on the right and nothing else: a blank in front
		// or inside, a tab at the end, a '/' inside are part of the name
		b := []byte(m.Name)
		mid := (len(b) - 1) / 2 // never the last byte: a blank or '/' there is padding / the terminator
		switch rapid.IntRange(0, 6).Draw(t, label+"odd") {
		case 4, 5, 6:
			// names are bytes: one that ends in (or consists of) characters of two, three or four
			// bytes, padded or filling the column
			tail := rapid.SampledFrom([]string{"é", "ü", "€", "語", "😀", "\u00a0", "\u0085", "\u3000"}).Draw(t, label+"mb")
			if len(tail) <= len(b) {
				b = append(b[:len(b)-len(tail)], tail...)
			}
		case 0:
			b[0] = ' '
		case 1:
			b[mid] = ' '
		case 2:
			b[len(b)-1] = '\t'
		default:
			if mid > 0 { // a leading '/' is GNU ar's own name space
				b[mid] = '/'
			}
		}
		m.Name = string(b)
	}
	if rapid.IntRange(0, 24).Draw(t, label+"foreign") == 0 {
		// names that other ar dialects give a meaning to (BSD "#1/<n>": the name is in the first n
		// data bytes; GNU "/<n>": an index into a name table; SysV "/" and "//" are left to C15):
		// here they are names
		m.Name = rapid.SampledFrom([]string{"#1/1", "#1/2", "#1/4", "#1/16", "#1/20", "#1/0", "#1/x", "#2/4", "#1/00000000004", "#1/2147483647", "\nb", "\n", "a\nb", "\x00", "`\nx", "!<arch>"}).Draw(t, label+"fname")
	}
	m.SlashTerm = rapid.Bool().Draw(t, label+"slash")
	m.MTime = int64(rapid.Uint64Range(0, 999999999999).Draw(t, label+"mtime"))
	m.UID = int64(rapid.IntRange(0, 999999).Draw(t, label+"uid"))
	m.GID = int64(rapid.IntRange(0, 999999).Draw(t, label+"gid"))
	if rapid.IntRange(0, 7).Draw(t, label+"mtimeMark") == 0 {
		// around the marks a narrower integer would wrap at: 2^31, 2^32 (ten digits), 2^33, ten nines
		m.MTime = rapid.SampledFrom([]int64{1<<31 - 1, 1 << 31, 1<<32 - 1, 1 << 32, 1<<32 + 1, 5000000000, 1 << 33, 9999999999, 10000000000, 99999999999, 999999999999}).Draw(t, label+"mtimeAt") + int64(rapid.IntRange(0, 3).Draw(t, label+"mtimePlus"))
		if m.MTime > 999999999999 {
			m.MTime = 999999999999
		}
	}
	if rapid.IntRange(0, 11).Draw(t, label+"signed") == 0 {
		// the columns are signed decimal text: ar writes a time before 1970 as "-3600" and the
		// owner "nobody" of some systems as -1 or -2
		switch rapid.IntRange(0, 2).Draw(t, label+"signedCol") {
		case 0:
			m.MTime = -int64(rapid.Uint64Range(1, 99999999999).Draw(t, label+"negmtime"))
		case 1:
			m.UID = -int64(rapid.IntRange(1, 99999).Draw(t, label+"neguid"))
		default:
			m.GID = -int64(rapid.IntRange(1, 99999).Draw(t, label+"neggid"))
		}
	}
	m.Mode = strconv.FormatInt(int64(rapid.IntRange(0, 0o77777777).Draw(t, label+"mode")), 8)
	if rapid.IntRange(0, 2).Draw(t, label+"stdmode") == 0 {
		m.Mode = "100644"
	}
	if rapid.IntRange(0, 5).Draw(t, label+"modezeros") == 0 && len(m.Mode) < 8 {
		// the mode column is text: leading zeros ("0644", "0100644", "000000") are part of it
		m.Mode = strings.Repeat("0", rapid.IntRange(1, 8-len(m.Mode)).Draw(t, label+"mz")) + m.Mode
	}
	m.BlankM = rapid.IntRange(0, 5).Draw(t, label+"bm") == 0
	m.BlankU = rapid.IntRange(0, 5).Draw(t, label+"bu") == 0
	m.BlankG = rapid.IntRange(0, 5).Draw(t, label+"bg") == 0
	m.BlankMode = rapid.IntRange(0, 5).Draw(t, label+"bmode") == 0
	m.Data = genArData(t, label+"data")
	m.BlankSize = len(m.Data) == 0 && rapid.Bool().Draw(t, label+"bsize")
	if len(m.Data)%2 == 1 && rapid.IntRange(0, 5).Draw(t, label+"pad") == 0 {
		m.PadKind = rapid.IntRange(1, 5).Draw(t, label+"padk")
	}
	return m
}
