package props

import (
	"bytes"
	"io"
	"strconv"
	"strings"
	"testing"

	"pault.ag/go/debian/deb"
	"pgregory.net/rapid"
)

// eagerEOFReaderAt is a conforming io.ReaderAt that reports io.EOF together with
// a read that ends exactly at the end of the input (the contract allows both).
type eagerEOFReaderAt struct{ b []byte }

func (e eagerEOFReaderAt) ReadAt(p []byte, off int64) (int, error) {
	if off < 0 || off > int64(len(e.b)) {
		return 0, io.EOF
	}
	n := copy(p, e.b[off:])
	if n < len(p) || off+int64(n) == int64(len(e.b)) {
		return n, io.EOF
	}
	return n, nil
}

type ArCase struct {
	EagerEOF bool `json:"eagerEOF,omitempty"` // read through eagerEOFReaderAt instead of bytes.Reader
	// Used: 0 = a fresh bytes.Reader; 1 = a bytes.Reader some of which was already Read (a caller
	// sniffing the magic); 2 = one that was read to its end (hashed); 3 = a strings.Reader seeked
	// into the middle; 4 = an io.SectionReader over a larger buffer (junk in front, more behind). ReadAt does not care where the Read position stands.
	Used    int        `json:"used,omitempty"`
	Members []ArMember `json:"members"`
	Half    int        `json:"half"` // member read half-way before the iterator advances
	Offs    []int      `json:"offs"` // ReadAt probe offsets (taken modulo the member size)
	// Repeat > 1: the archive holds the member list Repeat times over (thousands of members: an
	// archive is as long as it is, a .deb's three or four are not a limit of the format)
	Repeat int `json:"repeat,omitempty"`
}

func genArCase(t *rapid.T) ArCase {
	n := rapid.SampledFrom([]int{0, 1, 2, 2, 3, 3, 4, 5, 8}).Draw(t, "n")
	c := ArCase{}
	for i := 0; i < n; i++ {
		m := genArMember(t, "m")
		if i > 0 && rapid.IntRange(0, 2).Draw(t, "likePrev") == 0 {
			// archives written in one go: members share timestamp/owner/group (and maybe name length or
			// size) with their predecessor while the rest differs
			p := c.Members[i-1]
			m.MTime, m.UID, m.GID, m.BlankM, m.BlankU, m.BlankG = p.MTime, p.UID, p.GID, p.BlankM, p.BlankU, p.BlankG
			switch rapid.IntRange(0, 3).Draw(t, "alsoSame") {
			case 0:
				m.Mode, m.BlankMode = p.Mode, p.BlankMode
			case 1:
				m.Data = append([]byte{}, p.Data...)
			case 2:
				m.Name = p.Name
			}
		}
		c.Members = append(c.Members, m)
	}
	if n > 0 {
		c.Half = rapid.IntRange(0, n-1).Draw(t, "half")
	}
	c.Offs = rapid.SliceOfN(rapid.IntRange(0, 9000), 1, 4).Draw(t, "offs")
	if n >= 2 && rapid.IntRange(0, 39).Draw(t, "long") == 0 {
		for i := range c.Members {
			if len(c.Members[i].Data) > 90 {
				c.Members[i].Data = c.Members[i].Data[:rapid.IntRange(0, 90).Draw(t, "short")]
				c.Members[i].BlankSize = false
			}
		}
		c.Repeat = rapid.SampledFrom([]int{300, 600, 1025, 2049, 3000}).Draw(t, "repeat")
	}
	c.EagerEOF = rapid.IntRange(0, 3).Draw(t, "eagerEOF") == 0
	if !c.EagerEOF {
		c.Used = rapid.SampledFrom([]int{0, 0, 0, 1, 2, 3, 4, 4}).Draw(t, "used")
	}
	return c
}

func expectEntry(e *deb.ArEntry, m ArMember, i int) error {
	wantM, wantU, wantG, wantMode := m.MTime, m.UID, m.GID, m.Mode
	if m.BlankM {
		wantM = 0
	}
	if m.BlankU {
		wantU = 0
	}
	if m.BlankG {
		wantG = 0
	}
	if m.BlankMode {
		wantMode = ""
	}
	if e.Name != m.Name {
		return errf("member %d: name %q, want %q", i, e.Name, m.Name)
	}
	if e.Timestamp != wantM || e.OwnerID != wantU || e.GroupID != wantG {
		return errf("member %d (%s): timestamp/owner/group = %d/%d/%d, want %d/%d/%d", i, m.Name, e.Timestamp, e.OwnerID, e.GroupID, wantM, wantU, wantG)
	}
	if e.FileMode != wantMode {
		return errf("member %d (%s): mode %q, want %q", i, m.Name, e.FileMode, wantMode)
	}
	if e.Size != int64(len(m.Data)) {
		return errf("member %d (%s): size %d, want %d", i, m.Name, e.Size, len(m.Data))
	}
	if e.Data == nil {
		return errf("member %d (%s): nil Data reader", i, m.Name)
	}
	return nil
}

var specC13 = Register(&Spec[ArCase]{
	Prop: "C13", Name: "members",
	Rule: "ar archives rendered by an independent writer from a member-list model: 0..8 members (1 archive in 40: a list of 2..8 short members 300 to 3000 times over, up to 24 000 members); names of 1..16 bytes over [A-Za-z0-9._+-] (16-byte class; one in six with a blank in front or inside, a tab at the end, a '/' inside, or a tail of one two-, three- or four-byte character - é, €, an ideograph, an emoji, NBSP, NEL, U+3000), optional GNU '/' terminator; one in eight with a timestamp at a mark a narrower integer would wrap at (2^31, 2^32, 2^33, ten nines, +0..3), one member in twelve with a negative timestamp, owner or group (signed decimal text, as ar writes a time before 1970 or the owner -1); mtime < 10^12, uid/gid < 10^6, mode up to 8 octal digits, each numeric column independently blank; data empty, 1 byte, odd, even, up to 8 KiB, or built from look-alike headers / the global magic / header terminators; one pad byte after odd sizes (also after the last member) - a newline, in one odd member of six a NUL, blank, 'x', '`' or 0xff; read through bytes.Reader or (1/4) through a conforming ReaderAt that returns io.EOF together with a read ending exactly at the end of the input. In a third of the cases three damaged archives (a header failing in its owner, mode or size column) go through the reader first: what the process read before is no input. Oracle: LoadAr + Next() return exactly the model sequence (Name, Timestamp, OwnerID, GroupID, FileMode, Size), io.ReadAll(Data) == data; a member read half-way before the iterator advances finishes with the right bytes; a second iterator opened on the same ReaderAt and advanced one step behind sees the same members; after exhaustion Next() returns io.EOF repeatedly and every earlier Data reader still yields its bytes after Seek(0,0) and via ReadAt at generated offsets. Non-trivial: >= 2 members, or a zero-length / odd-length / 16-byte-name member; distinct by archive.",
	Check: func(c ArCase, r *Recorder) error {
		nt := len(c.Members) >= 2
		cl := []string{}
		if c.Repeat > 1 {
			if c.Repeat*len(c.Members) > 100000 {
				return errf("HARNESS: %d members", c.Repeat*len(c.Members))
			}
			one := c.Members
			c.Members = make([]ArMember, 0, c.Repeat*len(one))
			for k := 0; k < c.Repeat; k++ {
				c.Members = append(c.Members, one...)
			}
			cl = append(cl, "more-than-"+strconv.Itoa(len(c.Members)/1000*1000)+"-members")
		}
		oddThenMore := false
		for i, m := range c.Members {
			if len(m.Data) == 0 {
				nt = true
				cl = append(cl, "zero-length")
			}
			if len(m.Data)%2 == 1 {
				nt = true
				cl = append(cl, "odd-length")
				if i < len(c.Members)-1 {
					oddThenMore = true
				}
			}
			if len(m.Name) == 16 {
				nt = true
				cl = append(cl, "16-byte-name")
			}
			if m.BlankM || m.BlankU || m.BlankG || m.BlankMode {
				cl = append(cl, "blank-column")
			}
		}
		if oddThenMore {
			cl = append(cl, "odd-then-more-members")
		}
		raw := renderAr(c.Members)
		r.Case(string(raw), nt, cl...)
		if nt {
			names := []string{}
			for _, m := range c.Members {
				names = append(names, m.Name+":"+itoa(len(m.Data)))
			}
			r.Sample(names)
		}
		var shared io.ReaderAt = bytes.NewReader(raw)
		switch c.Used {
		case 1:
			br := bytes.NewReader(raw)
			io.CopyN(io.Discard, br, 8)
			shared = br
			r.Count("reader-partly-read", 1)
		case 2:
			br := bytes.NewReader(raw)
			io.Copy(io.Discard, br)
			shared = br
			r.Count("reader-read-to-end", 1)
		case 4:
			// the archive is a window of something larger (an io.SectionReader with a base offset
			// and more bytes behind its end): offsets are relative to the window, which also ends it
			big := append(append([]byte("JUNK-IN-FRONT-OF-THE-ARCHIVE-"), raw...), []byte("!<arch>\ntrailing        0           0     0     100644  4         `\nJUNK")...)
			shared = io.NewSectionReader(bytes.NewReader(big), int64(len("JUNK-IN-FRONT-OF-THE-ARCHIVE-")), int64(len(raw)))
			r.Count("reader-is-a-window", 1)
		case 3:
			sr := strings.NewReader(string(raw))
			sr.Seek(int64(len(raw)/2), io.SeekStart)
			shared = sr
			r.Count("reader-seeked", 1)
		}
		if c.EagerEOF {
			shared = eagerEOFReaderAt{raw}
			cl = append(cl, "eager-eof-readerat")
		}
		if len(raw)%3 == 0 {
			// what the process read before is no input of this archive: a damaged archive goes through
			// the reader first - a good member, then a header that fails in its owner, mode or size
			// column after the columns in front of it were read
			for _, bad := range []string{
				"!<arch>\nfirst           1111111111  222   333   100644  2         `\nhi" + "stale           1234567890  4321  x765  100755  4         `\nabcd",
				"!<arch>\nstale           987654321   77    88    100600  -4        `\nabcd",
				"!<arch>\nstale           555555555   66    99    10x     4         `\nabcd",
			} {
				if pa, err := deb.LoadAr(strings.NewReader(bad)); err == nil {
					for k := 0; k < 3; k++ {
						if _, err := pa.Next(); err != nil {
							break
						}
					}
				}
			}
			r.Count("damaged-archive-read-first", 1)
		}
		ar, err := deb.LoadAr(shared)
		if err != nil {
			return errf("LoadAr rejected a well-formed archive (%d members): %v", len(c.Members), err)
		}
		// a second, independent iterator over the same ReaderAt, advanced in lock-step (one step behind)
		ar2, err := deb.LoadAr(shared)
		if err != nil {
			return errf("second LoadAr on the same ReaderAt failed: %v", err)
		}
		defer func() {
			// (checked at the end through the closure below)
		}()
		second := func(i int) error {
			e, err := ar2.Next()
			if i >= len(c.Members) {
				if err != io.EOF {
					return errf("second iterator: after the last member Next() = %v, %v", e, err)
				}
				return nil
			}
			if err != nil {
				return errf("second iterator over the same ReaderAt: Next() for member %d: %v", i, err)
			}
			if err := expectEntry(e, c.Members[i], i); err != nil {
				return errf("second iterator: %v", err)
			}
			got, err := io.ReadAll(e.Data)
			if err != nil || !bytes.Equal(got, c.Members[i].Data) {
				return errf("second iterator: member %d data differs", i)
			}
			return nil
		}
		entries := []*deb.ArEntry{}
		var halfBuf []byte
		for i, m := range c.Members {
			e, err := ar.Next()
			if err != nil {
				return errf("Next() for member %d of %d (%s): %v", i, len(c.Members), m.Name, err)
			}
			if err := expectEntry(e, m, i); err != nil {
				return err
			}
			entries = append(entries, e)
			if i > 0 {
				if err := second(i - 1); err != nil {
					return err
				}
			}
			if i == c.Half {
				halfBuf = make([]byte, len(m.Data)/2)
				if _, err := io.ReadFull(e.Data, halfBuf); err != nil {
					return errf("member %d (%s): reading the first half: %v", i, m.Name, err)
				}
			} else {
				got, err := io.ReadAll(e.Data)
				if err != nil || !bytes.Equal(got, m.Data) {
					return errf("member %d (%s): read %d bytes (err %v) that differ from the %d packaged bytes", i, m.Name, len(got), err, len(m.Data))
				}
			}
		}
		if len(c.Members) > 0 {
			if err := second(len(c.Members) - 1); err != nil {
				return err
			}
		}
		if err := second(len(c.Members)); err != nil {
			return err
		}
		for k := 0; k < 3; k++ {
			e, err := ar.Next()
			if err != io.EOF || e != nil {
				return errf("after the last member Next() (call %d) = %v, %v; want nil, io.EOF", k+1, e, err)
			}
		}
		for i, m := range c.Members {
			e := entries[i]
			if i == c.Half {
				rest, err := io.ReadAll(e.Data)
				if err != nil || !bytes.Equal(append(append([]byte{}, halfBuf...), rest...), m.Data) {
					return errf("member %d (%s): finishing a half-read member after the iterator advanced gave wrong bytes (err %v)", i, m.Name, err)
				}
			}
			if _, err := e.Data.Seek(0, io.SeekStart); err != nil {
				return errf("member %d (%s): Seek(0,0): %v", i, m.Name, err)
			}
			again, err := io.ReadAll(e.Data)
			if err != nil || !bytes.Equal(again, m.Data) {
				return errf("member %d (%s): re-reading after the iterator finished gave %d bytes (err %v), want %d", i, m.Name, len(again), err, len(m.Data))
			}
			for _, off := range c.Offs {
				if len(m.Data) == 0 {
					break
				}
				o := off % len(m.Data)
				buf := make([]byte, min(17, len(m.Data)-o))
				n, err := e.Data.ReadAt(buf, int64(o))
				if (err != nil && err != io.EOF) || n != len(buf) || !bytes.Equal(buf, m.Data[o:o+len(buf)]) {
					return errf("member %d (%s): ReadAt(%d) gave %d bytes, err %v, wrong content", i, m.Name, o, n, err)
				}
			}
		}
		return nil
	},
})

func itoa(i int) string { return errf("%d", i).Error() }

func TestC13_Members(t *testing.T) {
	specC13.Run(t, genArCase, 25000, 120000)
}
