package props

import (
	"bufio"
	"bytes"
	"fmt"
	"golang.org/x/crypto/openpgp/armor"
	"io"
	"os"
	"path"
	"path/filepath"
	"reflect"
	"strconv"
	"strings"
	"testing"

	"pault.ag/go/debian/control"
	"pault.ag/go/debian/deb"
	"pault.ag/go/debian/dependency"
	"pgregory.net/rapid"
)

type TypedDocCase struct {
	Kind    string              `json:"kind"`
	Text    string              `json:"text"`
	BufSize int                 `json:"bufSize"`
	Path    string              `json:"path"`
	Exps    []Exp               `json:"exps"` // one per struct / paragraph
	Acc     map[string][]string `json:"acc"`  // accessor expectations, kind specific
	AccDeps map[string]DepAST   `json:"accDeps,omitempty"`
	Feats   []string            `json:"feats"`
	Rd      string              `json:"rd,omitempty"` // "" or a key of oddReaders: how the source delivers its bytes
	// Repeat > 1 (packages, sources): the index holds the generated paragraphs Repeat times over - a
	// suite's index runs to tens of thousands of paragraphs
	Repeat int `json:"repeat,omitempty"`
}

var bufSizes = []int{16, 64, 200, 1024, 4096, 4096, 8192, 65536}

func maybeDepField(t *rapid.T, b *docBuilder, e *Exp, field, goName string, prob int) {
	if d := depOrNil(t, goName, prob); d != nil {
		if b.substVersions {
			// debian/control is a template: the version of a relation is as often a substitution
			// variable - alone, or with literal text around it - as a number
			for ri := range d.Rels {
				for ai := range d.Rels[ri].Alts {
					if a := &d.Rels[ri].Alts[ai]; a.HasVer && rapid.IntRange(0, 2).Draw(t, goName+"substVer") == 0 {
						a.Ver = rapid.SampledFrom([]string{"${binary:Version}", "${source:Version}", "${source:Upstream-Version}", "${source:Version}~", "${source:Upstream-Version}.1~", "${binary:Version}+b1", "1:${source:Upstream-Version}-1", "${source:Upstream-Version}+1~"}).Draw(t, goName+"substVerText")
						b.feats["substvar-in-version"] = true
					}
				}
			}
		}
		b.dep(t, field, *d)
		e.Deps[goName] = *d
	}
}

// maybeClearsigned: a .dsc or .changes as it leaves dpkg-buildpackage is inside an OpenPGP
// clearsign frame (a third of the generated ones are): header, Hash line, the text dash-escaped and
// without its final line end, then an armored signature. No keyring is given to the typed parsers,
// so nothing is verified - the armor is well-formed (checksum included), the signature in it is
// random bytes.
func maybeClearsigned(t *rapid.T, b *docBuilder) string {
	text := b.sb.String()
	if rapid.IntRange(0, 2).Draw(t, "clearsigned") != 0 {
		return text
	}
	b.feats["clearsigned"] = true
	var body strings.Builder
	for _, l := range strings.SplitAfter(strings.TrimSuffix(text, "\n"), "\n") {
		if strings.HasPrefix(l, "-") {
			body.WriteString("- ")
		}
		body.WriteString(l)
	}
	var sig bytes.Buffer
	w, err := armor.Encode(&sig, "PGP SIGNATURE", nil)
	if err != nil {
		return text
	}
	n := rapid.SampledFrom([]int{70, 119, 310, 566}).Draw(t, "sigLen")
	x := uint32(rapid.IntRange(1, 1<<20).Draw(t, "sigSeed"))
	raw := make([]byte, n)
	for i := range raw {
		x = x*1664525 + 1013904223
		raw[i] = byte(x >> 24)
	}
	w.Write(raw)
	w.Close()
	hash := rapid.SampledFrom([]string{"Hash: SHA256\n", "Hash: SHA512\n", "Hash: SHA1\n"}).Draw(t, "hashLine")
	armored := sig.String()
	if rapid.IntRange(0, 2).Draw(t, "noCRC") == 0 {
		// newer OpenPGP implementations leave the optional checksum line out
		lines := strings.SplitAfter(armored, "\n")
		kept := lines[:0]
		for _, l := range lines {
			if !(strings.HasPrefix(l, "=") && len(strings.TrimSpace(l)) == 5) {
				kept = append(kept, l)
			}
		}
		armored = strings.Join(kept, "")
	}
	return "-----BEGIN PGP SIGNED MESSAGE-----\n" + hash + "\n" + body.String() + "\n" + armored + "\n"
}

// ------------------------------------------------------------------ .dsc

func genDscDoc(t *rapid.T) TypedDocCase {
	b, e := newDocBuilder(), newExp()
	acc := map[string][]string{}
	src := genPkgName(t, "src")
	w := genWellFormedCore(t, "ver")
	ver := w.canonical()
	format := rapid.SampledFrom([]string{"3.0 (quilt)", "3.0 (native)", "1.0"}).Draw(t, "fmt")
	b.scalar("Format", format)
	e.Scalars["Format"] = format
	b.scalar("Source", src)
	e.Scalars["Source"] = src
	bins := genBinaryNames(t, "bin", 1, 5)
	b.commaList("Binary", bins, genFoldMask(t, "bin"))
	e.Lists["Binaries"] = bins
	archs := genArchList(t, "arch", 3)
	if rapid.IntRange(0, 3).Draw(t, "archall") == 0 {
		archs = append(archs, "all")
	}
	b.spaceList("Architecture", archs)
	e.Archs["Architectures"] = archs
	hasAll := "false"
	for _, a := range archs {
		if a == "all" {
			hasAll = "true"
		}
	}
	acc["HasArchAll"] = []string{hasAll}
	b.scalar("Version", ver)
	e.Versions["Version"] = wfParts(w)
	if rapid.Bool().Draw(t, "origin") {
		b.scalar("Origin", "debian")
		e.Scalars["Origin"] = "debian"
	}
	maint := rapid.SampledFrom(personNames).Draw(t, "maint")
	b.scalar("Maintainer", maint)
	e.Scalars["Maintainer"] = maint
	ups := genPeople(t, "up", 3)
	if len(ups) > 0 {
		if rapid.IntRange(0, 5).Draw(t, "upTrailingComma") == 0 {
			// "A,\n B,\n C," - the wrap-and-sort -t style; dpkg-source copies the comma through
			b.commaListTrailing("Uploaders", ups, genFoldMask(t, "up"))
		} else {
			b.commaList("Uploaders", ups, genFoldMask(t, "up"))
		}
	}
	e.Lists["Uploaders"] = ups
	acc["Maintainers"] = append([]string{maint}, ups...)
	if rapid.Bool().Draw(t, "hp") {
		b.scalar("Homepage", "https://example.org/"+src)
		e.Scalars["Homepage"] = "https://example.org/" + src
	}
	sv := rapid.SampledFrom([]string{"3.9.3", "4.6.2", "4.7.0"}).Draw(t, "sv")
	b.scalar("Standards-Version", sv)
	e.Scalars["StandardsVersion"] = sv
	genUnknownFields(t, b, &e, "unk")
	maybeDepField(t, b, &e, "Build-Depends", "BuildDepends", 1)
	maybeDepField(t, b, &e, "Build-Depends-Arch", "BuildDependsArch", 3)
	maybeDepField(t, b, &e, "Build-Depends-Indep", "BuildDependsIndep", 3)
	b.line("Package-List:")
	for i, bn := range bins {
		b.line(" " + genPackageListLine(t, fmt.Sprintf("pl%d", i), bn))
	}
	files := genFiles(t, "files", src, strings.ReplaceAll(ver, ":", "%3a"), 1, 5)
	sizes := genSizes(t, "size", len(files))
	sha1 := hashesFor(t, "sha1", "sha1", 40, files, sizes, false)
	sha256 := hashesFor(t, "sha256", "sha256", 64, files, sizes, false)
	md5 := hashesFor(t, "md5", "md5", 32, files, sizes, false)
	b.hashList("Checksums-Sha1", sha1, false)
	b.hashList("Checksums-Sha256", sha256, false)
	b.hashList("Files", md5, false)
	e.Hashes["ChecksumsSha1"], e.Hashes["ChecksumsSha256"], e.Hashes["Files"] = sha1, sha256, md5
	p := rapid.SampledFrom([]string{"/srv/incoming/" + src + ".dsc", "rel/dir/x.dsc", "/x.dsc", ""}).Draw(t, "path")
	abs := []string{}
	debsrc := []string{}
	for _, f := range files {
		abs = append(abs, path.Join(filepath.Dir(p), f))
		if strings.Contains(f, ".debian.") && len(debsrc) == 0 {
			debsrc = []string{f}
		}
	}
	acc["AbsFiles"] = abs
	acc["DebianSource"] = debsrc
	if len(files) >= 2 {
		b.feats["multi-file"] = true
	}
	if len(bins) >= 2 {
		b.feats["multi-binary"] = true
	}
	return TypedDocCase{Kind: "dsc", Text: maybeClearsigned(t, b), Path: p, BufSize: rapid.SampledFrom(bufSizes).Draw(t, "buf"), Exps: []Exp{e}, Acc: acc, Feats: b.featList()}
}

// ------------------------------------------------------------------ .changes

func genChangesDoc(t *rapid.T) TypedDocCase {
	b, e := newDocBuilder(), newExp()
	acc := map[string][]string{}
	src := genPkgName(t, "src")
	w := genWellFormedCore(t, "ver")
	ver := w.canonical()
	b.scalar("Format", "1.8")
	e.Scalars["Format"] = "1.8"
	b.scalar("Date", "Wed, 29 Apr 2015 21:29:13 -0400")
	b.scalar("Source", src)
	e.Scalars["Source"] = src
	bins := genBinaryNames(t, "bin", 1, 5)
	b.spaceListFolded("Binary", bins, genFoldMask(t, "binfold"))
	e.Lists["Binaries"] = bins
	archs := append([]string{"source"}, genArchList(t, "arch", 2)...)
	b.spaceList("Architecture", archs)
	e.Archs["Architectures"] = archs
	b.scalar("Version", ver)
	e.Versions["Version"] = wfParts(w)
	dist := rapid.SampledFrom([]string{"unstable", "experimental", "bookworm-backports", "UNRELEASED"}).Draw(t, "dist")
	b.scalar("Distribution", dist)
	e.Scalars["Distribution"] = dist
	urg := rapid.SampledFrom([]string{"low", "medium", "high", "critical (security)"}).Draw(t, "urg")
	b.scalar("Urgency", urg)
	e.Scalars["Urgency"] = urg
	maint := rapid.SampledFrom(personNames).Draw(t, "maint")
	b.scalar("Maintainer", maint)
	e.Scalars["Maintainer"] = maint
	cb := rapid.SampledFrom(personNames).Draw(t, "cb")
	b.scalar("Changed-By", cb)
	e.Scalars["ChangedBy"] = cb
	descLines := []string{}
	for _, bn := range bins {
		descLines = append(descLines, bn+" - "+genLineText(t, "desc", false))
	}
	e.Unknown["Description"] = b.multi("Description", "", descLines)
	closes := []string{}
	for i := rapid.IntRange(0, 3).Draw(t, "ncl"); i > 0; i-- {
		closes = append(closes, strconv.Itoa(rapid.IntRange(1, 999999).Draw(t, "bug")))
	}
	if len(closes) > 0 {
		b.spaceList("Closes", closes)
	}
	e.Lists["Closes"] = closes
	chLines := []string{src + " (" + ver + ") " + dist + "; urgency=" + strings.Fields(urg)[0], ""}
	for i := rapid.IntRange(1, 4).Draw(t, "nch"); i > 0; i-- {
		chLines = append(chLines, "  * "+genLineText(t, "ch", false))
		if rapid.IntRange(0, 3).Draw(t, "chblank") == 0 {
			chLines = append(chLines, "")
			chLines = append(chLines, "  [ "+strings.Fields(rapid.SampledFrom(personNames).Draw(t, "chwho"))[0]+" ]")
		}
	}
	e.Scalars["Changes"] = b.multi("Changes", "", chLines)
	genUnknownFields(t, b, &e, "unk")
	files := genFiles(t, "files", src, ver, 1, 5)
	sizes := genSizes(t, "size", len(files))
	sha1 := hashesFor(t, "sha1", "sha1", 40, files, sizes, false)
	sha256 := hashesFor(t, "sha256", "sha256", 64, files, sizes, false)
	md5 := hashesFor(t, "md5", "md5", 32, files, sizes, true)
	b.hashList("Checksums-Sha1", sha1, false)
	b.hashList("Checksums-Sha256", sha256, false)
	b.hashList("Files", md5, true)
	e.Hashes["ChecksumsSha1"], e.Hashes["ChecksumsSha256"], e.Hashes["Files"] = sha1, sha256, md5
	p := rapid.SampledFrom([]string{"/srv/incoming/" + src + ".changes", "rel/dir/x.changes", "/x.changes", ""}).Draw(t, "path")
	abs := []string{}
	for _, f := range files {
		abs = append(abs, path.Join(filepath.Dir(p), f))
	}
	acc["AbsFiles"] = abs
	if len(files) >= 2 {
		b.feats["multi-file"] = true
	}
	if len(bins) >= 2 {
		b.feats["multi-binary"] = true
	}
	return TypedDocCase{Kind: "changes", Text: maybeClearsigned(t, b), Path: p, BufSize: rapid.SampledFrom(bufSizes).Draw(t, "buf"), Exps: []Exp{e}, Acc: acc, Feats: b.featList()}
}

// ------------------------------------------------------------------ debian/control

func genDescription(t *rapid.T, b *docBuilder) string {
	syn := genLineText(t, "syn", false)
	var rest []string
	for i := rapid.IntRange(0, 4).Draw(t, "ndesc"); i > 0; i-- {
		if rapid.IntRange(0, 3).Draw(t, "dblank") == 0 && len(rest) > 0 {
			rest = append(rest, "")
		}
		l := genLineText(t, "dl", false)
		if l == "." { // a line that is exactly "." cannot be carried by deb822
			l = ".."
		}
		rest = append(rest, l)
	}
	if len(rest) > 0 && rapid.IntRange(0, 9).Draw(t, "noSynopsis") == 0 {
		// nothing behind the colon and an empty line (' .') first: a description somebody started
		// with a blank line
		syn = ""
		rest = append([]string{""}, rest...)
		if rapid.Bool().Draw(t, "noSynopsis2") {
			rest = append([]string{""}, rest...)
		}
		b.feats["description-starts-with-empty-lines"] = true
	}
	return b.multi("Description", syn, rest)
}

func genControlDoc(t *rapid.T) TypedDocCase {
	b := newDocBuilder()
	if rapid.IntRange(0, 3).Draw(t, "blankStyleOn") == 0 {
		// debian/control is written by hand: elements of a blank-separated list are as often
		// aligned with several blanks or tabs, or folded under the first, as joined by one blank
		b.blankStyle = rapid.IntRange(1, 5).Draw(t, "blankStyle")
	}
	b.substVersions = rapid.Bool().Draw(t, "substVersions")
	acc := map[string][]string{}
	se := newExp()
	src := genPkgName(t, "src")
	b.scalar("Source", src)
	se.Scalars["Source"] = src
	sec := rapid.SampledFrom([]string{"misc", "devel", "non-free/libs"}).Draw(t, "sec")
	b.scalar("Section", sec)
	se.Scalars["Section"] = sec
	b.scalar("Priority", "optional")
	se.Scalars["Priority"] = "optional"
	maint := rapid.SampledFrom(personNames).Draw(t, "maint")
	b.scalar("Maintainer", maint)
	se.Scalars["Maintainer"] = maint
	ups := genPeople(t, "up", 3)
	if len(ups) > 0 {
		if rapid.IntRange(0, 5).Draw(t, "upTrailingComma") == 0 {
			// "A,\n B,\n C," - the wrap-and-sort -t style; dpkg-source copies the comma through
			b.commaListTrailing("Uploaders", ups, genFoldMask(t, "up"))
		} else {
			b.commaList("Uploaders", ups, genFoldMask(t, "up"))
		}
	}
	se.Lists["Uploaders"] = ups
	acc["Source.Maintainers"] = append([]string{maint}, ups...)
	maybeDepField(t, b, &se, "Build-Depends", "BuildDepends", 1)
	maybeDepField(t, b, &se, "Build-Depends-Indep", "BuildDependsIndep", 3)
	maybeDepField(t, b, &se, "Build-Conflicts", "BuildConflicts", 4)
	maybeDepField(t, b, &se, "Build-Conflicts-Indep", "BuildConflictsIndep", 5)
	b.scalar("Standards-Version", "4.6.2")
	genUnknownFields(t, b, &se, "unk")
	exps := []Exp{se}
	nb := rapid.IntRange(1, 4).Draw(t, "nbin")
	for i := 0; i < nb; i++ {
		for k := rapid.IntRange(1, 2).Draw(t, "blank"); k > 0; k-- {
			b.blank()
		}
		be := newExp()
		pn := genPkgName(t, "pkg")
		b.scalar("Package", pn)
		be.Scalars["Package"] = pn
		archs := genArchList(t, "arch", 3)
		b.spaceList("Architecture", archs)
		be.Archs["Architectures"] = archs
		if rapid.IntRange(0, 2).Draw(t, "ess") == 0 {
			v := rapid.Bool().Draw(t, "essv")
			b.scalar("Essential", map[bool]string{true: "yes", false: "no"}[v])
			be.Bools["Essential"] = v
		}
		if rapid.Bool().Draw(t, "bsec") {
			b.scalar("Section", "libs")
			be.Scalars["Section"] = "libs"
		}
		for _, f := range [][2]string{{"Depends", "Depends"}, {"Recommends", "Recommends"}, {"Suggests", "Suggests"}, {"Enhances", "Enhances"}, {"Pre-Depends", "PreDepends"},
			{"Breaks", "Breaks"}, {"Conflicts", "Conflicts"}, {"Replaces", "Replaces"}, {"Built-Using", "BuiltUsing"}} {
			prob := 4
			if f[0] == "Depends" {
				prob = 1
			}
			maybeDepField(t, b, &be, f[0], f[1], prob)
		}
		be.Scalars["Description"] = genDescription(t, b)
		exps = append(exps, be)
	}
	if nb >= 2 {
		b.feats["multi-binary"] = true
	}
	text := b.sb.String()
	if rapid.IntRange(0, 3).Draw(t, "commented") == 0 {
		// ... and it may carry comment lines anywhere: in front of a field, between the lines of a
		// folded one, at the very top and bottom
		lines := strings.SplitAfter(text, "\n")
		var out strings.Builder
		for _, l := range lines {
			if l != "" && rapid.IntRange(0, 5).Draw(t, "commentHere") == 0 {
				out.WriteString(rapid.SampledFrom([]string{"# comment\n", "#\n", "#Depends: commented-out (>= 1)\n", "# a: b\n#  continued\n"}).Draw(t, "comment"))
				b.feats["comment-lines"] = true
			}
			out.WriteString(l)
		}
		text = out.String()
	}
	return TypedDocCase{Kind: "control", Text: text, Path: "debian/control", BufSize: rapid.SampledFrom(bufSizes).Draw(t, "buf"), Exps: exps, Acc: acc, Feats: b.featList()}
}

// ------------------------------------------------------------------ Packages index

func genPackagesDoc(t *rapid.T) TypedDocCase {
	b := newDocBuilder()
	acc := map[string][]string{}
	accDeps := map[string]DepAST{}
	exps := []Exp{}
	n := rapid.IntRange(1, 4).Draw(t, "n")
	for i := 0; i < n; i++ {
		if i > 0 {
			b.blank()
		}
		e := newExp()
		pn := genPkgName(t, "pkg")
		b.scalar("Package", pn)
		e.Scalars["Package"] = pn
		srcPkg := pn
		switch rapid.IntRange(0, 2).Draw(t, "srck") {
		case 1:
			s := genPkgName(t, "src")
			b.scalar("Source", s)
			e.Scalars["Source"] = s
			srcPkg = s
		case 2:
			s := genPkgName(t, "src")
			full := s + " (" + genSimpleVersion(t, "srcver") + ")"
			b.scalar("Source", full)
			e.Scalars["Source"] = full
			srcPkg = s
		}
		acc["SourcePackage"] = append(acc["SourcePackage"], srcPkg)
		w := genWellFormedCore(t, "ver")
		b.scalar("Version", w.canonical())
		e.Versions["Version"] = wfParts(w)
		is := rapid.IntRange(0, 1<<30).Draw(t, "isize")
		b.scalar("Installed-Size", strconv.Itoa(is))
		e.Ints["InstalledSize"] = is
		maint := rapid.SampledFrom(personNames).Draw(t, "maint")
		b.scalar("Maintainer", maint)
		e.Scalars["Maintainer"] = maint
		arch := rapid.SampledFrom([]string{"amd64", "all", "i386", "arm64", "kfreebsd-amd64", "hurd-i386", "musl-linux-arm64"}).Draw(t, "arch")
		b.scalar("Architecture", arch)
		e.Archs["Architecture"] = []string{arch}
		if rapid.Bool().Draw(t, "ma") {
			ma := rapid.SampledFrom([]string{"same", "foreign", "allowed"}).Draw(t, "mav")
			b.scalar("Multi-Arch", ma)
			e.Scalars["MultiArch"] = ma
		}
		for _, f := range []string{"Depends", "Pre-Depends", "Suggests", "Conflicts", "Breaks", "Replaces", "Built-Using"} {
			if d := depOrNil(t, f, 2); d != nil {
				b.dep(t, f, *d) // single-line, folded after commas, or one relation per line: the accessors get the raw value
				if i == n-1 {
					accDeps[f] = *d
				}
			} else if i == n-1 {
				accDeps[f] = DepAST{}
			}
		}
		e.Scalars["Description"] = genDescription(t, b)
		if rapid.Bool().Draw(t, "hp") {
			b.scalar("Homepage", "https://example.org/"+pn)
			e.Scalars["Homepage"] = "https://example.org/" + pn
		}
		md := genHex(t, "dmd5", 32)
		b.scalar("Description-md5", md)
		e.Scalars["DescriptionMD5"] = md
		tags := []string{}
		for k := rapid.IntRange(0, 5).Draw(t, "ntags"); k > 0; k-- {
			tags = append(tags, rapid.SampledFrom([]string{"implemented-in::c", "interface::commandline", "role::program", "scope::utility", "uitoolkit::gtk", "works-with::text", "devel::lang:c"}).Draw(t, "tag"))
		}
		if len(tags) > 0 {
			b.commaList("Tag", tags, genFoldMask(t, "tagfold"))
		}
		e.Lists["Tags"] = tags
		b.scalar("Section", "utils")
		e.Scalars["Section"] = "utils"
		b.scalar("Priority", "optional")
		e.Scalars["Priority"] = "optional"
		fn := "pool/main/" + pn[:1] + "/" + pn + "/" + pn + "_1_amd64.deb"
		b.scalar("Filename", fn)
		e.Scalars["Filename"] = fn
		sz := rapid.IntRange(0, 1<<30).Draw(t, "size")
		b.scalar("Size", strconv.Itoa(sz))
		e.Ints["Size"] = sz
		m5, s1, s256 := genHex(t, "m5", 32), genHex(t, "s1", 40), genHex(t, "s256", 64)
		b.scalar("MD5sum", m5)
		b.scalar("SHA1", s1)
		b.scalar("SHA256", s256)
		e.Scalars["MD5sum"], e.Scalars["SHA1"], e.Scalars["SHA256"] = m5, s1, s256
		ids := []string{}
		for k := rapid.IntRange(0, 3).Draw(t, "nids"); k > 0; k-- {
			ids = append(ids, genHex(t, "bid", 40))
		}
		if len(ids) > 0 {
			b.spaceList("Build-Ids", ids)
		}
		e.Lists["DebugBuildIds"] = ids
		genUnknownFields(t, b, &e, "unk")
		exps = append(exps, e)
	}
	if n >= 2 {
		b.feats["multi-paragraph"] = true
	}
	return TypedDocCase{Kind: "packages", Text: b.sb.String(), BufSize: rapid.SampledFrom(bufSizes).Draw(t, "buf"), Exps: exps, Acc: acc, AccDeps: accDeps, Feats: b.featList()}
}

// ------------------------------------------------------------------ Sources index

func genSourcesDoc(t *rapid.T) TypedDocCase {
	b := newDocBuilder()
	accDeps := map[string]DepAST{}
	exps := []Exp{}
	n := rapid.IntRange(1, 4).Draw(t, "n")
	for i := 0; i < n; i++ {
		if i > 0 {
			b.blank()
		}
		e := newExp()
		src := genPkgName(t, "src")
		b.scalar("Package", src)
		e.Scalars["Package"] = src
		bins := genBinaryNames(t, "bin", 1, 5)
		b.commaList("Binary", bins, genFoldMask(t, "bin"))
		e.Lists["Binaries"] = bins
		w := genWellFormedCore(t, "ver")
		ver := w.canonical()
		b.scalar("Version", ver)
		e.Versions["Version"] = wfParts(w)
		maint := rapid.SampledFrom(personNames).Draw(t, "maint")
		b.scalar("Maintainer", maint)
		e.Scalars["Maintainer"] = maint
		if rapid.Bool().Draw(t, "ups") {
			u := rapid.SampledFrom(personNames).Draw(t, "up1") + ", " + rapid.SampledFrom(personNames).Draw(t, "up2")
			b.scalar("Uploaders", u)
			e.Scalars["Uploaders"] = u
		}
		for _, f := range []string{"Build-Depends", "Build-Depends-Arch", "Build-Depends-Indep"} {
			if d := depOrNil(t, f, 2); d != nil {
				b.dep(t, f, *d) // single-line, folded after commas, or one relation per line: the accessors get the raw value
				if i == n-1 {
					accDeps[f] = *d
				}
			} else if i == n-1 {
				accDeps[f] = DepAST{}
			}
		}
		archs := genArchList(t, "arch", 3)
		b.spaceList("Architecture", archs)
		e.Archs["Architecture"] = archs
		sv := rapid.SampledFrom([]string{"3.9.6", "4.6.2"}).Draw(t, "sv")
		b.scalar("Standards-Version", sv)
		e.Scalars["StandardsVersion"] = sv
		b.scalar("Format", "3.0 (quilt)")
		e.Scalars["Format"] = "3.0 (quilt)"
		files := genFiles(t, "files", src, ver, 1, 4)
		sizes := genSizes(t, "size", len(files))
		md5 := hashesFor(t, "md5", "md5", 32, files, sizes, false)
		sha1 := hashesFor(t, "sha1", "sha1", 40, files, sizes, false)
		sha256 := hashesFor(t, "sha256", "sha256", 64, files, sizes, false)
		b.hashList("Files", md5, false)
		if rapid.Bool().Draw(t, "vcs") {
			b.scalar("Vcs-Browser", "https://salsa.debian.org/x/"+src)
			b.scalar("Vcs-Git", "https://salsa.debian.org/x/"+src+".git")
			e.Scalars["VcsBrowser"] = "https://salsa.debian.org/x/" + src
			e.Scalars["VcsGit"] = "https://salsa.debian.org/x/" + src + ".git"
		}
		b.hashList("Checksums-Sha1", sha1, false)
		b.hashList("Checksums-Sha256", sha256, false)
		e.Hashes["Files"], e.Hashes["ChecksumsSha1"], e.Hashes["ChecksumsSha256"] = md5, sha1, sha256
		if rapid.Bool().Draw(t, "hp") {
			b.scalar("Homepage", "http://www.example.org")
			e.Scalars["Homepage"] = "http://www.example.org"
		}
		b.line("Package-List: ")
		b.line(" " + genPackageListLine(t, "pl", bins[0]))
		dir := "pool/main/" + src[:1] + "/" + src
		b.scalar("Directory", dir)
		e.Scalars["Directory"] = dir
		b.scalar("Priority", "source")
		e.Scalars["Priority"] = "source"
		b.scalar("Section", "misc")
		e.Scalars["Section"] = "misc"
		genUnknownFields(t, b, &e, "unk")
		exps = append(exps, e)
		if len(bins) >= 2 {
			b.feats["multi-binary"] = true
		}
	}
	if n >= 2 {
		b.feats["multi-paragraph"] = true
	}
	return TypedDocCase{Kind: "sources", Text: b.sb.String(), BufSize: rapid.SampledFrom(bufSizes).Draw(t, "buf"), Exps: exps, AccDeps: accDeps, Feats: b.featList()}
}

// ------------------------------------------------------------------ DEBIAN/control of a .deb

func genDebControlModel(t *rapid.T) (string, Exp, []string, string) {
	b, e := newDocBuilder(), newExp()
	pn := genPkgName(t, "pkg")
	b.scalar("Package", pn)
	e.Scalars["Package"] = pn
	srcName := pn
	if rapid.Bool().Draw(t, "hasSrc") {
		s := genPkgName(t, "src")
		full := s
		if rapid.IntRange(0, 2).Draw(t, "srcVer") == 0 {
			// binNMUs and dpkg-gencontrol -v builds: "Source: name (version)"
			full = s + " (" + genSimpleVersion(t, "srcver") + ")"
			b.feats["source-with-version"] = true
		}
		b.scalar("Source", full)
		e.Scalars["Source"] = full
		srcName = s
	}
	w := genWellFormedCore(t, "ver")
	b.scalar("Version", w.canonical())
	e.Versions["Version"] = wfParts(w)
	arch := rapid.SampledFrom([]string{"amd64", "all", "i386", "arm64", "kfreebsd-amd64", "musl-linux-arm64"}).Draw(t, "arch")
	b.scalar("Architecture", arch)
	e.Archs["Architecture"] = []string{arch}
	maint := rapid.SampledFrom(personNames).Draw(t, "maint")
	b.scalar("Maintainer", maint)
	e.Scalars["Maintainer"] = maint
	if rapid.Bool().Draw(t, "is") {
		is := rapid.IntRange(0, 1<<30).Draw(t, "isize")
		b.scalar("Installed-Size", strconv.Itoa(is))
		e.Ints["InstalledSize"] = is
	}
	if rapid.Bool().Draw(t, "ma") {
		b.scalar("Multi-Arch", "same")
		e.Scalars["MultiArch"] = "same"
	}
	for _, f := range [][2]string{{"Depends", "Depends"}, {"Recommends", "Recommends"}, {"Suggests", "Suggests"}, {"Breaks", "Breaks"}, {"Replaces", "Replaces"}, {"Built-Using", "BuiltUsing"}} {
		if d := depOrNil(t, f[1], 2); d != nil {
			// binary packages carry no substvars / profiles in practice, but the parser must not care
			b.line(f[0] + ": " + renderDep(*d, canonicalSpacer))
			e.Deps[f[1]] = *d
		}
	}
	b.scalar("Section", "utils")
	e.Scalars["Section"] = "utils"
	b.scalar("Priority", "optional")
	e.Scalars["Priority"] = "optional"
	if rapid.Bool().Draw(t, "hp") {
		b.scalar("Homepage", "https://example.org/")
		e.Scalars["Homepage"] = "https://example.org/"
	}
	if rapid.IntRange(0, 11).Draw(t, "longdesc") == 0 {
		// a control file larger than one read of any decompressor (32 KiB and more)
		n := rapid.IntRange(500, 1100).Draw(t, "longdescN")
		rest := make([]string, 0, n)
		for i := 0; i < n; i++ {
			rest = append(rest, fmt.Sprintf("line %04d of a very long description, lorem ipsum dolor sit amet", i))
		}
		e.Scalars["Description"] = b.multi("Description", "long", rest)
		b.feats["control-over-32KiB"] = true
	} else {
		e.Scalars["Description"] = genDescription(t, b)
	}
	genUnknownFields(t, b, &e, "unk")
	return b.sb.String(), e, b.featList(), srcName
}

func genDebControlDoc(t *rapid.T) TypedDocCase {
	text, e, feats, srcName := genDebControlModel(t)
	return TypedDocCase{Kind: "debcontrol", Text: text, BufSize: 4096, Exps: []Exp{e}, Acc: map[string][]string{"SourceName": {srcName}}, Feats: feats}
}

// ------------------------------------------------------------------ oracle

func checkAccDeps(got func(field string) dependency.Dependency, want map[string]DepAST, what string) error {
	for f, ast := range want {
		g := got(f)
		if err := compareDepToAST(&g, ast); err != nil {
			return errf("%s accessor for %s: %v", what, f, err)
		}
		// the value handed out is the caller's: changing it must not change what the next call returns
		scribbleDep(&g)
		g2 := got(f)
		if err := compareDepToAST(&g2, ast); err != nil {
			return errf("%s accessor for %s, called again after the caller modified the first result: %v", what, f, err)
		}
	}
	return nil
}

func checkTypedDoc(c TypedDocCase, r *Recorder) error {
	if c.Repeat > 1 && (c.Kind == "packages" || c.Kind == "sources") {
		if c.Repeat*len(c.Exps) > 200000 {
			return errf("HARNESS: %d paragraphs", c.Repeat*len(c.Exps))
		}
		one := strings.TrimRight(c.Text, "\n") + "\n"
		c.Text = strings.Repeat(one+"\n", c.Repeat)
		exps := c.Exps
		c.Exps = make([]Exp, 0, c.Repeat*len(exps))
		acc := map[string][]string{}
		for k := 0; k < c.Repeat; k++ {
			c.Exps = append(c.Exps, exps...)
			for name, vals := range c.Acc {
				acc[name] = append(acc[name], vals...)
			}
		}
		c.Acc = acc
		c.Feats = append(append([]string{}, c.Feats...), "multi-paragraph", "more-than-1000-paragraphs")
	}
	nt := false
	for _, f := range c.Feats {
		if f == "folded" || f == "multi-binary" || f == "multi-file" || f == "multi-paragraph" {
			nt = true
		}
	}
	cl := append([]string{"kind:" + c.Kind}, c.Feats...)
	if c.BufSize < 4096 {
		cl = append(cl, "small-bufio")
	}
	r.Case(c.Kind+"|"+c.Text+"|"+strconv.Itoa(c.BufSize), nt, cl...)
	if nt {
		r.Sample(map[string]interface{}{"kind": c.Kind, "text": c.Text})
	}
	size := c.BufSize
	if size < 16 {
		size = 4096
	}
	var src io.Reader = strings.NewReader(c.Text)
	if mk, ok := oddReaders[c.Rd]; ok {
		src = mk(src)
	}
	rd := bufio.NewReaderSize(src, size)
	switch c.Kind {
	case "dsc":
		d, err := control.ParseDsc(rd, c.Path)
		if err != nil {
			return errf("ParseDsc rejected %q: %v", c.Text, err)
		}
		if err := compareStruct(reflect.ValueOf(*d), c.Exps[0], "DSC"); err != nil {
			return errf("%v (document %q)", err, c.Text)
		}
		if d.Filename != c.Path {
			return errf("DSC.Filename = %q, want the path passed in %q", d.Filename, c.Path)
		}
		if _, ok := c.Acc["Maintainers"]; ok && !strSliceEq(d.Maintainers(), c.Acc["Maintainers"]) {
			return errf("DSC.Maintainers() = %q, want %q (document %q)", d.Maintainers(), c.Acc["Maintainers"], c.Text)
		}
		if w, ok := c.Acc["HasArchAll"]; ok && strconv.FormatBool(d.HasArchAll()) != w[0] {
			return errf("DSC.HasArchAll() = %v, want %s (Architecture %q)", d.HasArchAll(), c.Acc["HasArchAll"][0], c.Exps[0].Archs["Architectures"])
		}
		abs := []string{}
		for _, f := range d.AbsFiles() {
			abs = append(abs, f.Filename)
		}
		if _, ok := c.Acc["AbsFiles"]; ok && !strSliceEq(abs, c.Acc["AbsFiles"]) {
			return errf("DSC.AbsFiles() = %q, want %q", abs, c.Acc["AbsFiles"])
		}
		// accessors are pure: asking again gives the same answer and the decoded fields are untouched
		abs2 := []string{}
		for _, f := range d.AbsFiles() {
			abs2 = append(abs2, f.Filename)
		}
		if !strSliceEq(abs2, abs) {
			return errf("DSC.AbsFiles() called twice gives %q then %q", abs, abs2)
		}
		if err := compareStruct(reflect.ValueOf(*d), c.Exps[0], "DSC (after accessors)"); err != nil {
			return errf("an accessor changed the decoded fields: %v", err)
		}
		ds, err := d.DebianSource()
		if _, ok := c.Acc["DebianSource"]; !ok {
			// not modelled in this case
		} else if len(c.Acc["DebianSource"]) == 0 {
			if err == nil {
				return errf("DSC.DebianSource() = %q, want an error (no .debian. file)", ds)
			}
		} else if err != nil || ds != c.Acc["DebianSource"][0] {
			return errf("DSC.DebianSource() = %q, %v; want %q", ds, err, c.Acc["DebianSource"][0])
		}
	case "changes":
		ch, err := control.ParseChanges(rd, c.Path)
		if err != nil {
			return errf("ParseChanges rejected %q: %v", c.Text, err)
		}
		if err := compareStruct(reflect.ValueOf(*ch), c.Exps[0], "Changes"); err != nil {
			return errf("%v (document %q)", err, c.Text)
		}
		if ch.Filename != c.Path {
			return errf("Changes.Filename = %q, want the path passed in %q", ch.Filename, c.Path)
		}
		abs := []string{}
		for _, f := range ch.AbsFiles() {
			abs = append(abs, f.Filename)
		}
		abs2 := []string{}
		for _, f := range ch.AbsFiles() {
			abs2 = append(abs2, f.Filename)
		}
		if !strSliceEq(abs2, abs) {
			return errf("Changes.AbsFiles() called twice gives %q then %q", abs, abs2)
		}
		if err := compareStruct(reflect.ValueOf(*ch), c.Exps[0], "Changes (after accessors)"); err != nil {
			return errf("an accessor changed the decoded fields: %v", err)
		}
		if _, ok := c.Acc["AbsFiles"]; ok && !strSliceEq(abs, c.Acc["AbsFiles"]) {
			return errf("Changes.AbsFiles() = %q, want %q", abs, c.Acc["AbsFiles"])
		}
	case "control":
		if len(c.Text)%4 == 0 {
			// the file-based entry point
			if f, ferr := os.CreateTemp(workDir(), "c10-control-*"); ferr == nil {
				f.WriteString(c.Text)
				f.Close()
				fromFile, err := control.ParseControlFile(f.Name())
				os.Remove(f.Name())
				if err != nil {
					return errf("ParseControlFile rejected %q: %v", c.Text, err)
				}
				if abs, _ := filepath.Abs(f.Name()); fromFile.Filename != abs {
					return errf("ParseControlFile: Filename = %q, want %q", fromFile.Filename, abs)
				}
				if err := compareStruct(reflect.ValueOf(fromFile.Source), c.Exps[0], "ParseControlFile().Source"); err != nil {
					return err
				}
				if len(fromFile.Binaries) != len(c.Exps)-1 {
					return errf("ParseControlFile returned %d binary paragraphs, want %d", len(fromFile.Binaries), len(c.Exps)-1)
				}
				for i := range fromFile.Binaries {
					if err := compareStruct(reflect.ValueOf(fromFile.Binaries[i]), c.Exps[i+1], "ParseControlFile().Binaries"); err != nil {
						return err
					}
				}
			}
		}
		ct, err := control.ParseControl(rd, c.Path)
		if err != nil {
			return errf("ParseControl rejected %q: %v", c.Text, err)
		}
		if err := compareStruct(reflect.ValueOf(ct.Source), c.Exps[0], "Control.Source"); err != nil {
			return errf("%v (document %q)", err, c.Text)
		}
		if len(ct.Binaries) != len(c.Exps)-1 {
			return errf("ParseControl (bufio size %d) returned %d binary paragraphs, want %d (document %q)", c.BufSize, len(ct.Binaries), len(c.Exps)-1, c.Text)
		}
		for i := range ct.Binaries {
			if err := compareStruct(reflect.ValueOf(ct.Binaries[i]), c.Exps[i+1], "Control.Binaries["+strconv.Itoa(i)+"]"); err != nil {
				return errf("%v (document %q)", err, c.Text)
			}
		}
		if _, ok := c.Acc["Source.Maintainers"]; ok && !strSliceEq(ct.Source.Maintainers(), c.Acc["Source.Maintainers"]) {
			return errf("Source.Maintainers() = %q, want %q", ct.Source.Maintainers(), c.Acc["Source.Maintainers"])
		}
		if ct.Filename != c.Path {
			return errf("Control.Filename = %q, want %q", ct.Filename, c.Path)
		}
	case "packages":
		ps, err := control.ParseBinaryIndex(rd)
		if err != nil {
			return errf("ParseBinaryIndex rejected %q: %v", c.Text, err)
		}
		if len(ps) != len(c.Exps) {
			return errf("ParseBinaryIndex returned %d paragraphs, want %d", len(ps), len(c.Exps))
		}
		for i := range ps {
			if err := compareStruct(reflect.ValueOf(ps[i]), c.Exps[i], "BinaryIndex["+strconv.Itoa(i)+"]"); err != nil {
				return errf("%v (document %q)", err, c.Text)
			}
			if w, ok := c.Acc["SourcePackage"]; ok && ps[i].SourcePackage() != w[i] {
				return errf("BinaryIndex[%d].SourcePackage() = %q, want %q (Source %q)", i, ps[i].SourcePackage(), c.Acc["SourcePackage"][i], ps[i].Source)
			}
		}
		last := ps[len(ps)-1]
		if err := checkAccDeps(func(f string) dependency.Dependency {
			switch f {
			case "Depends":
				return last.GetDepends()
			case "Pre-Depends":
				return last.GetPreDepends()
			case "Suggests":
				return last.GetSuggests()
			case "Conflicts":
				return last.GetConflicts()
			case "Breaks":
				return last.GetBreaks()
			case "Replaces":
				return last.GetReplaces()
			default:
				return last.GetBuiltUsing()
			}
		}, c.AccDeps, "BinaryIndex"); err != nil {
			return errf("%v (document %q)", err, c.Text)
		}
	case "sources":
		ss, err := control.ParseSourceIndex(rd)
		if err != nil {
			return errf("ParseSourceIndex rejected %q: %v", c.Text, err)
		}
		if len(ss) != len(c.Exps) {
			return errf("ParseSourceIndex returned %d paragraphs, want %d", len(ss), len(c.Exps))
		}
		for i := range ss {
			if err := compareStruct(reflect.ValueOf(ss[i]), c.Exps[i], "SourceIndex["+strconv.Itoa(i)+"]"); err != nil {
				return errf("%v (document %q)", err, c.Text)
			}
		}
		last := ss[len(ss)-1]
		if err := checkAccDeps(func(f string) dependency.Dependency {
			switch f {
			case "Build-Depends":
				return last.GetBuildDepends()
			case "Build-Depends-Arch":
				return last.GetBuildDependsArch()
			default:
				return last.GetBuildDependsIndep()
			}
		}, c.AccDeps, "SourceIndex"); err != nil {
			return errf("%v (document %q)", err, c.Text)
		}
	case "debcontrol":
		var dc deb.Control
		if err := control.Unmarshal(&dc, rd); err != nil {
			return errf("Unmarshal(&deb.Control) rejected %q: %v", c.Text, err)
		}
		if err := compareStruct(reflect.ValueOf(dc), c.Exps[0], "deb.Control"); err != nil {
			return errf("%v (document %q)", err, c.Text)
		}
		if w, ok := c.Acc["SourceName"]; ok && dc.SourceName() != w[0] {
			return errf("deb.Control.SourceName() = %q, want %q", dc.SourceName(), c.Acc["SourceName"][0])
		}
		// the same paragraph where it lives: inside the control member of a .deb
		for _, codec := range []string{"", "gz"} {
			raw, _, err := buildDeb(DebModel{DebianBinary: "2.0\n", CtlCodec: codec, CtlFiles: []TarFile{{Name: "./md5sums", Type: "reg", Content: []byte("x\n")}, {Name: "./control", Type: "reg", Content: []byte(c.Text)}},
				DataFiles: []TarFile{{Name: "./usr/", Type: "dir"}}})
			if err != nil {
				return errf("HARNESS: cannot build package: %v", err)
			}
			d, err := deb.Load(bytes.NewReader(raw), "x.deb")
			if err != nil {
				return errf("deb.Load of a package carrying this control file (control.tar%s, %d bytes of control text) failed: %v", map[string]string{"": "", "gz": ".gz"}[codec], len(c.Text), err)
			}
			err = compareStruct(reflect.ValueOf(d.Control), c.Exps[0], "deb.Load(...).Control")
			d.Close()
			if err != nil {
				return errf("%v (control.tar%s, control text of %d bytes: %q)", err, map[string]string{"": "", "gz": ".gz"}[codec], len(c.Text), clip([]byte(c.Text)))
			}
		}
	default:
		return errf("HARNESS: unknown kind %q", c.Kind)
	}
	return nil
}

// genPackageListLine: one line of a Package-List field as dpkg-source writes them (dsc(5)):
// package, type, section, priority and then zero or more key=value columns - arch=, profile=,
// protected=, essential= - in that order.
func genPackageListLine(t *rapid.T, label, bin string) string {
	line := bin + " " + rapid.SampledFrom([]string{"deb", "deb", "udeb"}).Draw(t, label+"ty") + " " +
		rapid.SampledFrom([]string{"misc", "libs", "debian-installer", "contrib/utils", "unknown"}).Draw(t, label+"sec") + " " +
		rapid.SampledFrom([]string{"optional", "required", "important", "extra", "unknown"}).Draw(t, label+"pri")
	if rapid.IntRange(0, 5).Draw(t, label+"arch") != 0 {
		line += " arch=" + rapid.SampledFrom([]string{"any", "all", "linux-any", "amd64,arm64", "any,all", "kfreebsd-any,hurd-i386"}).Draw(t, label+"archv")
	}
	if rapid.IntRange(0, 3).Draw(t, label+"prof") == 0 {
		line += " profile=" + rapid.SampledFrom([]string{"!noudeb", "!stage1", "cross,!nocheck", "!noudeb+!stage1", "pkg.foo.bar"}).Draw(t, label+"profv")
	}
	if rapid.IntRange(0, 5).Draw(t, label+"prot") == 0 {
		line += " protected=yes"
	}
	if rapid.IntRange(0, 3).Draw(t, label+"ess") == 0 {
		line += " essential=yes"
	}
	return line
}

var specC10 = Register(&Spec[TypedDocCase]{
	Prop: "C10", Name: "typed",
	Rule:  "six document kinds rendered from a field model in the layout the Debian tools emit (a third of the .dsc and .changes documents inside a clearsign frame - Hash line, dash-escaped text, a well-formed armored signature block of random bytes, with or without the optional checksum line; no keyring is given, nothing is verified): .dsc (Binary 'a, b, c' single-line or folded, Architecture list, Uploaders, Build-Depends* single-line / folded / wrap-and-sort, Package-List lines of 4 to 8 columns (arch=, profile=, protected=, essential=), Checksums-Sha1/-Sha256, Files), .changes (space-separated Binary, Closes, multi-line Description (one in ten without synopsis and starting with one or two ' .' lines) and Changes with ' .', 5-column Files), debian/control (source paragraph + 1..4 binary paragraphs, the Architecture list in a quarter of the documents laid out by hand - two blanks, a tab, folded under the first element, folded behind a tab -, folded Uploaders and dependency fields with substvars as alternatives and - in half of the documents - inside version clauses ((= ${binary:Version}), (<< ${source:Version}~), (>= ${source:Upstream-Version}.1~)), comment lines in a quarter of the documents (in front of fields, between the lines of folded ones, at the top and bottom), Essential, multi-line Description), Packages and Sources indexes of 1..4 paragraphs or (one in 25) the same paragraphs repeated to 1025 .. 4100; Packages (Source 'name (ver)', Installed-Size, folded Tag, Build-Ids, dependency accessors over single-line, folded and one-relation-per-line fields), Sources (folded Binary, Standards-Version, Vcs-*, Directory, accessors) and DEBIAN/control (decoded from text and, packed into control.tar / control.tar.gz of a minimal .deb, through deb.Load; one in twelve with a description that takes the control file beyond 32 KiB); unknown X- fields sprinkled in; the bufio.Reader handed to the Parse* functions has a generated size 16..65536 and reads from a plain, one-byte, half or data-with-EOF reader. Oracle: every struct field whose Debian field is in the model equals the model (scalars verbatim / reader convention, versions by parts, architectures by triple, dependencies against the model AST, comma/space lists as trimmed elements, file lists as (algorithm, hash, size, name[, section, priority])), accessors agree with the model. Non-trivial: a folded field, >= 2 binaries, >= 2 files or >= 2 paragraphs; distinct by (kind, text, buffer size).",
	Check: checkTypedDoc,
})

func genTypedDoc(t *rapid.T) TypedDocCase {
	c := genTypedDocPlain(t)
	c.Rd = rapid.SampledFrom([]string{"", "", "", "one-byte reader", "half reader", "data-with-EOF reader"}).Draw(t, "rd")
	if (c.Kind == "packages" || c.Kind == "sources") && rapid.IntRange(0, 24).Draw(t, "long") == 0 {
		// a long index: 1024 paragraphs and more, the count not a round number
		want := rapid.SampledFrom([]int{1025, 1027, 1500, 2051, 4099}).Draw(t, "longN")
		c.Repeat = (want + len(c.Exps) - 1) / len(c.Exps)
		c.Rd = ""
	}
	return c
}

func genTypedDocPlain(t *rapid.T) TypedDocCase {
	switch rapid.IntRange(0, 5).Draw(t, "kind") {
	case 0:
		return genDscDoc(t)
	case 1:
		return genChangesDoc(t)
	case 2:
		return genControlDoc(t)
	case 3:
		return genPackagesDoc(t)
	case 4:
		return genSourcesDoc(t)
	default:
		return genDebControlDoc(t)
	}
}

func TestC10_Typed(t *testing.T) {
	specC10.Run(t, genTypedDoc, 12000, 120000)
}

// ------------------------------------------------------------------ Changes.GetDSC (on disk)

type GetDscCase struct {
	Changes TypedDocCase `json:"changes"`
	Dsc     TypedDocCase `json:"dsc"`
	DscName string       `json:"dscName"` // "" = the .changes lists no .dsc
	Pos     int          `json:"pos"`     // where in Files the .dsc is listed
}

var specC10GetDSC = Register(&Spec[GetDscCase]{
	Prop: "C10", Name: "getdsc",
	Rule: "a generated .changes and a generated .dsc are written next to each other in a scratch directory; the .changes lists the .dsc at a generated position among its Files (or not at all). Oracle: ParseChangesFile + GetDSC returns the typed .dsc equal to its model (same oracle as C10/typed) with Filename = the absolute path of the .dsc, or an error when no .dsc is listed. Non-trivial: the .dsc is not the first listed file; distinct by case.",
	Check: func(c GetDscCase, r *Recorder) error {
		r.Case(jsonKey(c.DscName)+c.Changes.Text+c.Dsc.Text, c.DscName != "" && c.Pos > 0)
		if c.DscName != "" && c.Pos > 0 {
			r.Sample(map[string]interface{}{"dscName": c.DscName, "pos": c.Pos})
		}
		dir, err := os.MkdirTemp(workDir(), "c10-")
		if err != nil {
			return errf("HARNESS: %v", err)
		}
		defer os.RemoveAll(dir)
		dir, _ = filepath.EvalSymlinks(dir)
		text := c.Changes.Text
		if c.DscName != "" {
			// add the .dsc to the 5-column Files list at position Pos
			lines := strings.SplitAfter(text, "\n")
			idx := -1
			for i, l := range lines {
				if l == "Files:\n" {
					idx = i
				}
			}
			if idx < 0 {
				return errf("HARNESS: no Files field")
			}
			n := 0 // the lines of the Files field (the document may go on behind it: a signature block)
			for idx+1+n < len(lines) && strings.HasPrefix(lines[idx+1+n], " ") {
				n++
			}
			at := idx + 1 + c.Pos%(n+1)
			entry := " d41d8cd98f00b204e9800998ecf8427e 0 devel optional " + c.DscName + "\n"
			lines = append(lines[:at], append([]string{entry}, lines[at:]...)...)
			text = strings.Join(lines, "")
			if err := os.WriteFile(filepath.Join(dir, c.DscName), []byte(c.Dsc.Text), 0o644); err != nil {
				return errf("HARNESS: %v", err)
			}
		}
		chPath := filepath.Join(dir, "x.changes")
		if err := os.WriteFile(chPath, []byte(text), 0o644); err != nil {
			return errf("HARNESS: %v", err)
		}
		ch, err := control.ParseChangesFile(chPath)
		if err != nil {
			return errf("ParseChangesFile(%q): %v", text, err)
		}
		if ch.Filename != chPath {
			return errf("Changes.Filename = %q, want %q", ch.Filename, chPath)
		}
		d, err := ch.GetDSC()
		if c.DscName == "" {
			if err == nil {
				return errf("GetDSC() returned %q although the .changes lists no .dsc", d.Filename)
			}
			return nil
		}
		if err != nil {
			return errf("GetDSC() failed for a .changes listing %s: %v", c.DscName, err)
		}
		if d.Filename != filepath.Join(dir, c.DscName) {
			return errf("GetDSC().Filename = %q, want %q", d.Filename, filepath.Join(dir, c.DscName))
		}
		if err := compareStruct(reflect.ValueOf(*d), c.Dsc.Exps[0], "GetDSC()"); err != nil {
			return errf("%v (dsc %q)", err, c.Dsc.Text)
		}
		return nil
	},
})

func TestC10_GetDSC(t *testing.T) {
	specC10GetDSC.Run(t, func(t *rapid.T) GetDscCase {
		c := GetDscCase{Changes: genChangesDoc(t), Dsc: genDscDoc(t), Pos: rapid.IntRange(0, 6).Draw(t, "pos")}
		// generated Files never end in .dsc unless we say so
		c.Changes.Text = strings.ReplaceAll(c.Changes.Text, ".dsc\n", ".dsx\n")
		if rapid.IntRange(0, 4).Draw(t, "hasDsc") != 0 {
			c.DscName = genPkgName(t, "dn") + "_" + rapid.SampledFrom([]string{"1.0-1", "2%3a1.0", "0~rc1"}).Draw(t, "dv") + ".dsc"
		}
		return c
	}, 800, 8000)
}

// ------------------------------------------------------------------ I/O buffer edges for multi-paragraph documents

func padTyped(c TypedDocCase, pad int) TypedDocCase {
	out := c
	val := strings.Repeat("x", pad)
	out.Text = "X-Pad: " + val + "\n" + c.Text
	out.Exps = append([]Exp{}, c.Exps...)
	e0 := c.Exps[0]
	unk := map[string]string{"X-Pad": val}
	for k, v := range e0.Unknown {
		unk[k] = v
	}
	e0.Unknown = unk
	out.Exps[0] = e0
	out.BufSize = 4096
	out.Feats = append([]string{"buffer-edge"}, c.Feats...)
	return out
}

var specC10Edge = Register(&Spec[TypedDocCase]{
	Prop: "C10", Name: "bufferedge",
	Rule:  "bounded-exhaustive over buffer alignment: a few generated Packages, Sources and debian/control documents (several paragraphs) get an 'X-Pad' field of n 'x' as first line, n chosen so that each line boundary of the document in turn lands at 4096-1, 4096, 4096+1, 8192-1, 8192, 8192+1 bytes from the start. Oracle as C10/typed (plus X-Pad itself in the first paragraph's raw values). Non-trivial: every case; distinct by text.",
	Check: checkTypedDoc,
})

func TestC10_BufferEdgeExh(t *testing.T) {
	n := pickN(3, 18)
	var bases []TypedDocCase
	sink := &Spec[TypedDocCase]{Check: func(c TypedDocCase, r *Recorder) error { bases = append(bases, c); return nil }}
	rapidCollect(t, sink, func(t *rapid.T) TypedDocCase {
		switch rapid.IntRange(0, 2).Draw(t, "kind") {
		case 0:
			return genPackagesDoc(t)
		case 1:
			return genSourcesDoc(t)
		default:
			return genControlDoc(t)
		}
	}, n)
	specC10Edge.Enumerate(t, true, func(_ *Recorder, yield func(TypedDocCase) bool) {
		for _, b := range bases {
			zero := padTyped(b, 0).Text
			for pos := 0; pos < len(zero); pos++ {
				if zero[pos] != '\n' {
					continue
				}
				for _, mark := range []int{4096, 8192} {
					for d := -1; d <= 1; d++ {
						pad := mark + d - (pos + 1)
						if pad < 1 {
							continue
						}
						if !yield(padTyped(b, pad)) {
							return
						}
					}
				}
			}
		}
	})
}

// ------------------------------------------------------------------ best checksums (accessor over a reused variable)

type BestEntry struct {
	Hash string `json:"hash"`
	Size int64  `json:"size"`
	Name string `json:"name"`
}

type BestDoc struct {
	Sha256 []BestEntry `json:"sha256"`
	Sha512 []BestEntry `json:"sha512"`
	Folded bool        `json:"folded"` // first entry on the field's own line or on the next one
}

type BestCase struct {
	Docs []BestDoc `json:"docs"` // decoded one after the other into ONE variable
}

type bestHolder struct {
	Source string
	control.BestChecksums
}

func (d BestDoc) text() string {
	var sb strings.Builder
	sb.WriteString("Source: s\n")
	field := func(name string, es []BestEntry) {
		if len(es) == 0 {
			return
		}
		sb.WriteString(name + ":")
		for i, e := range es {
			line := fmt.Sprintf("%s %d %s", e.Hash, e.Size, e.Name)
			if i == 0 && !d.Folded {
				sb.WriteString(" " + line + "\n")
			} else {
				if i == 0 {
					sb.WriteString("\n")
				}
				sb.WriteString(" " + line + "\n")
			}
		}
	}
	field("Checksums-Sha256", d.Sha256)
	field("Checksums-Sha512", d.Sha512)
	return sb.String()
}

func genBestDoc(t *rapid.T) BestDoc {
	d := BestDoc{Folded: rapid.Bool().Draw(t, "folded")}
	gen := func(label string, hexLen int) []BestEntry {
		es := []BestEntry{}
		for n := rapid.IntRange(0, 3).Draw(t, label+"n"); n > 0; n-- {
			es = append(es, BestEntry{Hash: genFromAlphabet(t, label+"h", "0123456789abcdef", hexLen, hexLen), Size: rapid.Int64Range(0, 1<<40).Draw(t, label+"s"),
				Name: rapid.SampledFrom([]string{"a_1.0.dsc", "a_1.0.orig.tar.gz", "a_1.0-1.debian.tar.xz", "b.tar", "x"}).Draw(t, label+"name")})
		}
		return es
	}
	d.Sha256, d.Sha512 = gen("s256", 64), gen("s512", 128)
	return d
}

var specC10Best = Register(&Spec[BestCase]{
	Prop: "C10", Name: "best",
	Rule: "2..4 documents with Checksums-Sha256 and / or Checksums-Sha512 lists of 0..3 (hash, size, name) entries each, decoded one after the other into ONE variable of a struct embedding control.BestChecksums. Oracle: after each decode Checksums() is the Sha256 list the variable now holds if it holds one, else its Sha512 list, else empty (a list the new document mentions replaces the old one, one it does not mention stays - the decoder's documented behaviour) - as (algorithm, hash, size, name) tuples in order; the slice handed out is the caller's (scribbled over, asked again: the model's list again). Non-trivial: two consecutive documents whose best lists differ; distinct by case.",
	Check: func(c BestCase, r *Recorder) error {
		want := func(d BestDoc) (string, []BestEntry) {
			if len(d.Sha256) > 0 {
				return "sha256", d.Sha256
			}
			return "sha512", d.Sha512
		}
		nt := false
		for i := 1; i < len(c.Docs); i++ {
			if len(c.Docs[i].Sha256) > 0 && jsonKey(c.Docs[i].Sha256) != jsonKey(c.Docs[i-1].Sha256) {
				nt = true
			}
		}
		r.Case(jsonKey(c), nt)
		var v bestHolder
		state := BestDoc{}
		for i, d := range c.Docs {
			if err := control.Unmarshal(&v, strings.NewReader(d.text())); err != nil {
				return errf("document %d %q: %v", i, d.text(), err)
			}
			// a member the new document does not mention keeps what it held (the decoder's
			// documented behaviour, as in encoding/json); one it mentions is replaced
			if len(d.Sha256) > 0 {
				state.Sha256 = d.Sha256
			}
			if len(d.Sha512) > 0 {
				state.Sha512 = d.Sha512
			}
			algo, es := want(state)
			for round := 0; round < 2; round++ {
				got := v.Checksums()
				if len(got) != len(es) {
					return errf("document %d %q (decoded into a variable that held %d documents before), call %d: Checksums() has %d entries, the best list of the document has %d", i, d.text(), i, round+1, len(got), len(es))
				}
				for k, e := range es {
					g := got[k]
					if g.Algorithm != algo || g.Hash != e.Hash || g.Size != e.Size || g.Filename != e.Name {
						return errf("document %d %q (decoded into a variable that held %d documents before), call %d: Checksums()[%d] = (%s, %s, %d, %s), the document says (%s, %s, %d, %s)", i, d.text(), i, round+1, k, g.Algorithm, g.Hash, g.Size, g.Filename, algo, e.Hash, e.Size, e.Name)
					}
				}
				for k := range got {
					got[k] = control.FileHash{Algorithm: "scribbled", Hash: "x", Filename: "/abs/" + got[k].Filename}
				}
			}
		}
		return nil
	},
})

func TestC10_Best(t *testing.T) {
	specC10Best.Run(t, func(t *rapid.T) BestCase {
		c := BestCase{}
		for n := rapid.IntRange(2, 4).Draw(t, "docs"); n > 0; n-- {
			c.Docs = append(c.Docs, genBestDoc(t))
		}
		return c
	}, 4000, 30000)
}
