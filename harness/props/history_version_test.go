package props

import (
	"fmt"
	"strconv"
	"strings"
	"testing"

	"pault.ag/go/debian/version"
	"pgregory.net/rapid"
)

// Long process histories.
//
// Every other sub-check judges one call (or a handful) in a process that has seen a few thousand
// inputs.  A library that remembers what it was given before - a cache of parsed strings, a table
// of split runs, a ring of recent results - can be right in all of them and wrong for the
// hundred-thousandth distinct string.  A history case is one seed and one length; the seed is
// expanded (splitmix64, a pure function of the case) into that many steps of fresh, distinct
// version strings, byte-identical repeats of earlier ones at lags from 1 to 120 000 steps, and
// differently padded repeats, each step judged against the model at once.  The case file holds
// the seed and the length, the error names the failing step.

type prng struct{ s uint64 }

func (p *prng) next() uint64 {
	p.s += 0x9e3779b97f4a7c15
	z := p.s
	z = (z ^ (z >> 30)) * 0xbf58476d1ce4e5b9
	z = (z ^ (z >> 27)) * 0x94d049bb133111eb
	return z ^ (z >> 31)
}
func (p *prng) n(k int) int             { return int(p.next() % uint64(k)) }
func (p *prng) pick(xs []string) string { return xs[p.n(len(xs))] }

type VerHistory struct {
	Seed uint64 `json:"seed"`
	N    int    `json:"n"`
}

type histEntry struct {
	text  string
	parts VerParts
}

var histLags = []int{1, 2, 3, 30, 300, 1000, 1023, 1024, 1025, 1100, 2100, 4097, 9000, 40000, 70000, 120000}

// histFresh builds a well-formed version no earlier step of the same history produced: the step
// number is part of the upstream version (in a spelling picked per step).
func histFresh(p *prng, i int) VerParts {
	var parts VerParts
	switch p.n(8) {
	case 0:
		parts.E = uint64(p.n(4))
	case 1:
		parts.E = uint64(p.n(100000))
	}
	var b strings.Builder
	b.WriteString(strconv.Itoa(p.n(30)))
	ntok := 1 + p.n(5)
	at := p.n(ntok)
	hasRev := p.n(3) != 0
	for k := 0; k < ntok; k++ {
		b.WriteString(p.pick([]string{".", ".", "+", "~", ".", "+dfsg", "~rc", "a", "b", "git", ".0"}))
		if k == at {
			switch p.n(3) {
			case 0:
				b.WriteString(strconv.Itoa(i))
			case 1:
				b.WriteString(fmt.Sprintf("%07d", i))
			default:
				b.WriteString("x" + strconv.FormatInt(int64(i), 36) + ".")
				b.WriteString(strconv.Itoa(p.n(10)))
			}
		} else {
			b.WriteString(p.pick(tokDigits[:11]))
		}
		if hasRev && p.n(6) == 0 {
			b.WriteString("-" + strconv.Itoa(p.n(5)))
		}
	}
	parts.V = b.String()
	if hasRev {
		parts.R = strconv.Itoa(p.n(20)) + p.pick([]string{"", "", "+b1", "~bpo12+1", "ubuntu3", ".1", "+deb12u" + strconv.Itoa(p.n(9))})
	} else if strings.Contains(parts.V, "-") {
		// without a revision the text would be split at the hyphen
		parts.V = strings.ReplaceAll(parts.V, "-", ".")
	}
	if strings.Contains(parts.V, ":") {
		parts.V = strings.ReplaceAll(parts.V, ":", ".")
	}
	return parts
}

func histText(p *prng, parts VerParts) string {
	s := parts.V
	if parts.R != "" {
		s += "-" + parts.R
	}
	if parts.E != 0 || p.n(10) == 0 {
		s = strconv.FormatUint(parts.E, 10) + ":" + s
	}
	return s
}

var histPads = []string{" ", "  ", "\t", "\n", " \t", "\r\n"}

func histPad(p *prng, s string) string {
	switch p.n(4) {
	case 0:
		return p.pick(histPads) + s
	case 1:
		return s + p.pick(histPads)
	default:
		return p.pick(histPads) + s + p.pick(histPads)
	}
}

func runVersionHistory(c VerHistory, r *Recorder, doParse, doCompare bool) error {
	if c.N < 1 || c.N > 20000000 {
		return errf("HARNESS: history length %d", c.N)
	}
	p := &prng{s: c.Seed}
	hist := make([]histEntry, 0, c.N)
	var maxLag, revisits, paddedRevisits, bothNew int
	for i := 0; i < c.N; i++ {
		var e histEntry
		revisit := len(hist) > 0 && p.n(4) == 0
		if revisit {
			lag := histLags[p.n(len(histLags))]
			if lag > len(hist) {
				lag = 1 + p.n(len(hist))
			}
			e = hist[len(hist)-lag]
			revisits++
			if lag > maxLag {
				maxLag = lag
			}
			if strings.TrimSpace(e.text) != e.text {
				paddedRevisits++
			}
			if p.n(4) == 0 {
				// the same version under other padding
				e.text = histPad(p, strings.TrimSpace(e.text))
			}
		} else {
			e.parts = histFresh(p, i)
			e.text = histText(p, e.parts)
			if p.n(3) == 0 {
				e.text = histPad(p, e.text)
			}
		}
		if doParse {
			got, err := version.Parse(e.text)
			if err != nil {
				return errf("step %d of the history: Parse(%q) failed: %v", i, e.text, err)
			}
			if partsOf(got) != e.parts {
				return errf("step %d of the history (%d distinct strings parsed before, repeat=%v): Parse(%q) = %+v, the text says %+v", i, len(hist)-revisits, revisit, e.text, got, e.parts)
			}
		}
		if doCompare && len(hist) > 0 {
			var o histEntry
			if !revisit && p.n(2) == 0 {
				// both operands new to the process
				o.parts = histFresh(p, c.N+i)
				bothNew++
			} else {
				o = hist[len(hist)-1-p.n(min(len(hist), 50))]
			}
			want := refCompare(e.parts, o.parts)
			a, b := e.parts.ver(), o.parts.ver()
			if got := sign(version.Compare(a, b)); got != want {
				return errf("step %d of the history (%d versions compared before): Compare(%+v, %+v) has sign %d, Policy/dpkg order gives %d", i, 2*i, a, b, got, want)
			}
			if got := sign(version.Compare(b, a)); got != -want {
				return errf("step %d of the history (%d versions compared before): Compare(%+v, %+v) has sign %d, Policy/dpkg order gives %d", i, 2*i, b, a, got, -want)
			}
		}
		hist = append(hist, e)
	}
	if r != nil {
		cl := []string{}
		if maxLag > 1024 {
			cl = append(cl, "repeat-after-more-than-1024-other-strings")
		}
		if maxLag > 65536 {
			cl = append(cl, "repeat-after-more-than-65536-other-strings")
		}
		if paddedRevisits > 0 {
			cl = append(cl, "padded-text-repeated")
		}
		if bothNew > 0 {
			cl = append(cl, "both-operands-new")
		}
		r.Case(fmt.Sprintf("%d/%d", c.Seed, c.N), c.N >= 2000 && revisits > 0, cl...)
		r.Count("history_steps", int64(c.N))
		r.Count("history_repeats", int64(revisits))
		if p.n(3) == 0 {
			r.Sample(c)
		}
	}
	return nil
}

func genVerHistory(lo, hi int) func(t *rapid.T) VerHistory {
	return func(t *rapid.T) VerHistory {
		return VerHistory{Seed: rapid.Uint64().Draw(t, "seed"), N: rapid.IntRange(lo, hi).Draw(t, "n")}
	}
}

const histRule = "a history is (seed, length): the seed expands (splitmix64) into that many steps in ONE process; 3/4 of the steps make a version no earlier step made (epoch 0, small or up to 99999; 2..6 tokens; the step number spelled decimal, zero-padded or base 36 inside the upstream part; revision in 2/3), 1/4 repeat the text of an earlier step byte for byte at a lag of 1, 2, 3, 30, 300, 1000, 1023..1025, 1100, 2100, 4097, 9000, 40000, 70000 or 120000 steps (a quarter of those under other padding); a third of the texts carry blanks, tabs or line ends around them. "

var specC03History = Register(&Spec[VerHistory]{
	Prop: "C03", Name: "history", NoShrink: true,
	Rule:  histRule + "Oracle: at every step version.Parse gives exactly the epoch, upstream part and revision the text was built from. Non-trivial: at least 2000 steps with a repeat; distinct by (seed, length).",
	Check: func(c VerHistory, r *Recorder) error { return runVersionHistory(c, r, true, false) },
})

var specC01History = Register(&Spec[VerHistory]{
	Prop: "C01", Name: "history", NoShrink: true,
	Rule:  histRule + "Each step's version is compared, both ways round, with one of the 50 versions before it or (half of the fresh steps) with another version new to the process. Oracle: sign(Compare) equals the reference order. Non-trivial: at least 2000 steps with a repeat; distinct by (seed, length).",
	Check: func(c VerHistory, r *Recorder) error { return runVersionHistory(c, r, false, true) },
})

// One history per process (the process is part of the case), so that a saved case fails again
// when it is replayed; more histories come from more shards.
func TestC03_History(t *testing.T) {
	if tier() == "thorough" {
		specC03History.Run(t, genVerHistory(2000000, 4000000), 1, 1)
		return
	}
	specC03History.Run(t, genVerHistory(600000, 1200000), 1, 1)
}

func TestC01_History(t *testing.T) {
	if tier() == "thorough" {
		specC01History.Run(t, genVerHistory(2000000, 4000000), 1, 1)
		return
	}
	specC01History.Run(t, genVerHistory(600000, 1200000), 1, 1)
}
