package props

import (
	"bytes"
	"math"
	"reflect"
	"strconv"
	"strings"
	"sync"
	"testing"

	"pault.ag/go/debian/control"
	"pault.ag/go/debian/dependency"
	"pault.ag/go/debian/version"
	"pgregory.net/rapid"
)

// ------------------------------------------------------------------ probe types

type probeScalars struct {
	Str      string
	Num      int
	UNum     uint
	Flag     bool
	Renamed  string `control:"X-Renamed"`
	Req      string `required:"true"`
	ReqEmpty string `control:"Req-Empty" required:"true"`
	Skipped  string `control:"-"`
	Multi    string `control:"Multi-Line" multiline:"true"`
	Text     string // plain string that may hold several lines
	// a skipped member of struct kind whose members are named like document fields
	SkippedMeta probeMeta `control:"-"`
	// unexported members: not part of the document either way (encoding/* convention)
	hidden    string
	hiddenVer version.Version
	mu        sync.Mutex
}

// ProbeCommon is embedded (anonymously) in probeEmb: the decoder walks into such members, so
// the encoder has to write them (BestChecksums is meant to be used this way)
type ProbeCommon struct {
	Origin string `required:"true"`
	Label  string
	Count  int `control:"Common-Count"`
}

// the same with a lower-case type name: the embedded member is then "unexported" to reflection
// although its own members are not
type probeCommonLower struct {
	Vendor string `required:"true"`
	Tier   int
}

type probeEmb struct {
	ProbeCommon
	probeCommonLower
	Extra string
}

// the raw paragraph one embedding level down (a user type that embeds a library type which in
// turn embeds control.Paragraph: struct{ control.DSC; Extra string })
type ProbeHeader struct {
	control.Paragraph
	Source string
}

type probeNested struct {
	ProbeHeader
	Extra string
}

// ... two and three levels down (a wrapper around a wrapper of a library type)
type ProbeMid struct {
	ProbeHeader
	Mid string
}

type probeDeep struct {
	ProbeMid
	Top string
}

type probeDeeper struct {
	probeDeep
	Roof string
}

// ... and embedded under an unexported alias name
type paragraphAlias = control.Paragraph

type probeAliased struct {
	paragraphAlias
	A string
}

// lists and scalars whose value arrives folded: no strip tag to hide the trailing newline
type probeFolded struct {
	Lines []string `control:"Plain-Lines" delim:"\n" multiline:"true"`
	Nums  []int    `control:"Num-Lines" delim:"\n" multiline:"true"`
	Count int      `control:"Folded-Count" multiline:"true"`
	Flag  bool     `control:"Folded-Flag" multiline:"true"`
	// members of custom type laid out the same way
	Ver  version.Version       `control:"Folded-Version" multiline:"true"`
	Arch dependency.Arch       `control:"Folded-Arch" multiline:"true"`
	Dep  dependency.Dependency `control:"Folded-Depends" multiline:"true"`
}

// members that share a Go name through embedding, under control keys of their own: two embedded
// structs that both declare Name (ambiguous in Go, distinct in the text), and an outer Version that
// shadows an embedded one
type probeTwinA struct {
	Name string `control:"A-Name"`
}
type probeTwinB struct {
	Name string `control:"B-Name" required:"true"`
}
type probeTwinV struct {
	Version string `control:"Inner-Version"`
}
type probeTwins struct {
	probeTwinA
	probeTwinB
	probeTwinV
	Version string `control:"Outer-Version"`
}

type probeEmbPass struct {
	control.Paragraph
	ProbeCommon
	Extra string
}

type probeMeta struct {
	Str string
	Num int
	Req string `required:"true"`
}

type probeLists struct {
	Words   []string
	Commas  []string                 `delim:", "`
	Loose   []string                 `control:"Loose-List" delim:"," strip:" "`
	Lines   []string                 `delim:"\n" strip:"\n\r\t " multiline:"true"`
	Ver     version.Version          `control:"Version"`
	Dep     dependency.Dependency    `control:"Depends"`
	Arch    dependency.Arch          `control:"Architecture"`
	Archs   []dependency.Arch        `control:"Arch-List"`
	MD5s    []control.MD5FileHash    `control:"Files" delim:"\n" strip:"\n\r\t "`
	SHA256s []control.SHA256FileHash `control:"Checksums-Sha256" delim:"\n" strip:"\n\r\t " multiline:"true"`
	Nums    []int                    `control:"Num-List"`
	// required lists: written even when empty, and an empty one reads back as empty
	ReqWords []string          `control:"Req-Words" required:"true"`
	ReqNums  []int             `control:"Req-Nums" required:"true"`
	ReqVers  []version.Version `control:"Req-Vers" delim:", " required:"true"`
	// required members of custom type: written even when zero, and the zero value reads back
	ReqVer  version.Version `control:"Req-Version" required:"true"`
	ReqArch dependency.Arch `control:"Req-Arch" required:"true"`
}

type probePointers struct {
	PStr  *string
	PInt  *int
	PVer  *version.Version
	Name  string `required:"true"`
	PBool *bool
}

// ------------------------------------------------------------------ cases

type ScalarsCase struct {
	Str, Renamed, Req, Skipped, Multi, Text string
	Num                                     int
	UNum                                    uint64
	Flag                                    bool
}

func genSingleLine(t *rapid.T, label string, allowEmpty bool) string {
	return genLineText(t, label, allowEmpty)
}

func genMultiLineText(t *rapid.T, label string) string {
	v, _ := genLineSeqValue(t, label)
	// first line must be plain (the decoder sees the reader's value)
	if strings.HasPrefix(v, " ") || strings.HasPrefix(v, "\t") {
		v = "x" + v
	}
	return v
}

func genScalarsCase(t *rapid.T) ScalarsCase {
	c := ScalarsCase{}
	opt := func(label string) string {
		if rapid.IntRange(0, 2).Draw(t, label+"zero") == 0 {
			return ""
		}
		return genSingleLine(t, label, false)
	}
	c.Str, c.Renamed, c.Skipped = opt("str"), opt("ren"), opt("skip")
	if rapid.IntRange(0, 29).Draw(t, "long") == 0 {
		// a value longer than the reader's 4096-byte buffer, with lengths around the buffer marks
		n := rapid.SampledFrom([]int{4070, 4080, 4085, 4090, 4096, 4100, 5000, 8180, 8192, 8200, 20000}).Draw(t, "longn") + rapid.IntRange(-3, 3).Draw(t, "longd")
		c.Str = strings.Repeat("abcdefghij", n/10+1)[:n]
	}
	c.Req = opt("req")
	switch rapid.IntRange(0, 4).Draw(t, "numk") {
	case 0:
		c.Num = 0
	case 1:
		c.Num = rapid.IntRange(-1000, 1000).Draw(t, "num")
	case 2:
		c.Num = rapid.SampledFrom([]int{math.MaxInt, math.MinInt, math.MaxInt32, math.MinInt32, -1, 1}).Draw(t, "numedge")
	default:
		c.Num = rapid.Int().Draw(t, "numany")
	}
	switch rapid.IntRange(0, 4).Draw(t, "unumk") {
	case 0:
		c.UNum = 0
	case 1:
		c.UNum = uint64(rapid.IntRange(0, 100000).Draw(t, "unum"))
	case 2:
		c.UNum = rapid.SampledFrom([]uint64{math.MaxInt64, math.MaxInt64 + 1, math.MaxUint64, math.MaxUint32}).Draw(t, "unumedge")
	default:
		c.UNum = rapid.Uint64().Draw(t, "unumany")
	}
	c.Flag = rapid.Bool().Draw(t, "flag")
	if rapid.Bool().Draw(t, "hasMulti") {
		c.Multi = genMultiLineText(t, "multi")
		if c.Multi != "" && rapid.IntRange(0, 7).Draw(t, "leadingEmpty") == 0 {
			// a text that starts with one or two empty lines: the member is tagged multiline, so nothing
			// stands behind the colon anyway and the empty lines are ' .' lines like any other (in an
			// untagged member a leading newline IS the layout convention - F14 - and is not generated)
			c.Multi = strings.Repeat("\n", rapid.IntRange(1, 2).Draw(t, "leadingEmptyN")) + c.Multi
		}
	}
	if rapid.Bool().Draw(t, "hasText") {
		c.Text = genMultiLineText(t, "text")
	}
	return c
}

func marshalToText(v interface{}) (string, error) {
	var buf bytes.Buffer
	if err := control.Marshal(&buf, v); err != nil {
		return "", err
	}
	return buf.String(), nil
}

func paraOfText(text string) (control.Paragraph, error) {
	ps, err := readParas(text)
	if err != nil {
		return control.Paragraph{}, err
	}
	if len(ps) != 1 {
		return control.Paragraph{}, errf("marshalled text %q holds %d paragraphs", text, len(ps))
	}
	return ps[0], nil
}

func dropFieldLines(text, field string) string {
	lines := strings.SplitAfter(text, "\n")
	out := []string{}
	skipping := false
	for _, l := range lines {
		if strings.HasPrefix(l, field+":") {
			skipping = true
			continue
		}
		if skipping && (strings.HasPrefix(l, " ") || strings.HasPrefix(l, "\t")) {
			continue
		}
		skipping = false
		out = append(out, l)
	}
	return strings.Join(out, "")
}

var specC09Scalars = Register(&Spec[ScalarsCase]{
	Prop: "C09", Name: "scalars",
	Rule: "values of a probe struct with string, int (full range), uint (full range incl. > MaxInt64), bool, renamed (control:\"X-Renamed\"), required (one possibly empty, one always empty), skipped (control:\"-\", on a string member and on a struct-kind member whose own members are named like document fields), unexported members (string, version.Version, sync.Mutex: neither written nor read), multiline:\"true\" and plain multi-line string fields; strings are single lines without surrounding blanks, multi-line texts are C08 line sequences, one in eight of those in a multiline-tagged member starting with one or two empty lines. Oracle: Unmarshal(Marshal(x)) == x field by field (multi-line strings up to one trailing newline, skipped field stays zero); in the emitted paragraph optional fields with empty rendering are absent, required ones present; removing a required field's lines makes Unmarshal fail; members of an anonymously embedded plain struct (required, optional, renamed) are written and read like the struct's own, also next to an embedded Paragraph; a Paragraph embedded one level down (or under an alias name) still carries the unknown fields through; folded (multiline:\"true\") lists, ints, bools and members of custom type (version, architecture - seven names, wildcards among them -, relationship field) without a strip tag, through Marshal/Unmarshal and through ConvertToParagraph/UnpackFromParagraph; members that share a Go name through embedding under control keys of their own (two embedded structs declaring Name, an outer Version beside an embedded one); a []*T written and read; three values (full, required-only, partial) marshalled as one slice read back as three values none of which carries a neighbour's fields. Non-trivial: >= 3 non-zero fields; distinct by value.",
	Check: func(c ScalarsCase, r *Recorder) error {
		nz := 0
		for _, s := range []string{c.Str, c.Renamed, c.Req, c.Multi, c.Text} {
			if s != "" {
				nz++
			}
		}
		if c.Num != 0 {
			nz++
		}
		if c.UNum != 0 {
			nz++
		}
		if c.Flag {
			nz++
		}
		cl := []string{}
		if c.UNum > math.MaxInt64 {
			cl = append(cl, "uint>MaxInt64")
		}
		if c.Multi != "" {
			cl = append(cl, "multiline-tag")
		}
		if c.Num < 0 {
			cl = append(cl, "negative-int")
		}
		r.Case(jsonKey(c), nz >= 3, cl...)
		if nz >= 3 {
			r.Sample(c)
		}
		x := probeScalars{Str: c.Str, Num: c.Num, UNum: uint(c.UNum), Flag: c.Flag, Renamed: c.Renamed, Req: c.Req, Skipped: c.Skipped, Multi: c.Multi, Text: c.Text}
		if c.Skipped != "" {
			x.SkippedMeta = probeMeta{Str: c.Skipped, Num: 7}
			x.hidden, x.hiddenVer = c.Skipped, version.Version{Epoch: 1, Version: "2", Revision: "3"}
		}
		text, err := marshalToText(&x)
		if err != nil {
			return errf("Marshal(%+v) failed: %v", x, err)
		}
		para, err := paraOfText(text)
		if err != nil {
			return errf("Marshal(%+v) wrote %q which does not read back: %v", x, text, err)
		}
		has := func(k string) bool { _, ok := para.Values[k]; return ok }
		expectPresent := map[string]bool{"Str": c.Str != "", "Num": true, "UNum": true, "Flag": true, "X-Renamed": c.Renamed != "", "Req": true, "Req-Empty": true,
			"Multi-Line": c.Multi != "", "Text": c.Text != ""}
		for k, want := range expectPresent {
			if has(k) != want {
				return errf("field %q present=%v, want %v in %q (value %+v)", k, has(k), want, text, x)
			}
		}
		for _, k := range []string{"Skipped", "-", "Renamed", "ReqEmpty", "Multi", "SkippedMeta", "hidden", "hiddenVer", "mu"} {
			if has(k) {
				return errf("field %q must not be emitted (text %q)", k, text)
			}
		}
		var y probeScalars
		if err := control.Unmarshal(&y, strings.NewReader(text)); err != nil {
			return errf("Unmarshal of marshalled text %q failed: %v", text, err)
		}
		if y.Str != x.Str || y.Num != x.Num || y.UNum != x.UNum || y.Flag != x.Flag || y.Renamed != x.Renamed || y.Req != x.Req || y.ReqEmpty != "" {
			return errf("round trip changed the value: wrote %+v as %q, read %+v", x, text, y)
		}
		if y.Skipped != "" {
			return errf("skipped field was decoded: %q", y.Skipped)
		}
		if y.SkippedMeta != (probeMeta{}) {
			return errf("skipped struct member was filled from %q: %+v", text, y.SkippedMeta)
		}
		if y.hidden != "" || y.hiddenVer != (version.Version{}) {
			return errf("unexported members were written by Unmarshal: %q %+v", y.hidden, y.hiddenVer)
		}
		if !sameUpToTrailingNewline(y.Multi, x.Multi) || !sameUpToTrailingNewline(y.Text, x.Text) {
			return errf("round trip changed a multi-line string: wrote %q / %q as %q, read %q / %q", x.Multi, x.Text, text, y.Multi, y.Text)
		}
		// types are told apart by what they are, not by what they are called: two unnamed struct
		// types (and two function-local types of one name), the one WITHOUT a Paragraph first
		{
			plain := struct {
				A string
			}{A: "1"}
			if _, err := marshalToText(&plain); err != nil {
				return errf("Marshal of an unnamed struct: %v", err)
			}
			withPara := struct {
				control.Paragraph
				A string
			}{}
			doc := "A: 1\nX-Unknown: k" + c.Req + "\nX-More: m\n"
			if err := control.Unmarshal(&withPara, strings.NewReader(doc)); err != nil {
				return errf("Unmarshal(%q) into an unnamed struct embedding Paragraph: %v", doc, err)
			}
			wtext, err := marshalToText(&withPara)
			if wp, perr := paraOfText(wtext); err != nil || perr != nil || wp.Values["X-Unknown"] != "k"+c.Req || wp.Values["X-More"] != "m" || wp.Values["A"] != "1" {
				return errf("an unnamed struct type embedding Paragraph, marshalled after an unnamed struct type without one, read %q and writes %q (err %v)", doc, wtext, err)
			}
			type local struct{ B string }
			if _, err := marshalToText(&local{B: "2"}); err != nil {
				return errf("Marshal of a function-local struct: %v", err)
			}
			if t2, err := func() (string, error) {
				type local struct {
					control.Paragraph
					B string
				}
				var v local
				if err := control.Unmarshal(&v, strings.NewReader("B: 2\nX-Kept: yes\n")); err != nil {
					return "", err
				}
				return marshalToText(&v)
			}(); err != nil || !strings.Contains(t2, "X-Kept: yes") {
				return errf("a function-local type embedding Paragraph, marshalled after another function-local type of the same name without one, writes %q (err %v)", t2, err)
			}
		}
		// one Encoder, several calls (a value, then a list, then a list of pointers): the stream holds
		// one paragraph per value written, in order
		{
			var eb bytes.Buffer
			enc, err := control.NewEncoder(&eb)
			if err != nil {
				return errf("NewEncoder: %v", err)
			}
			x2, x3 := probeScalars{Str: "second", Req: "r2", Num: 2}, probeScalars{Str: "third", Req: "r3", Num: 3}
			if err := enc.Encode(&x); err != nil {
				return errf("Encoder.Encode(&T): %v", err)
			}
			if err := enc.Encode([]probeScalars{x2, x3}); err != nil {
				return errf("Encoder.Encode([]T) after a value: %v", err)
			}
			if err := enc.Encode([]*probeScalars{&x3, &x2}); err != nil {
				return errf("Encoder.Encode([]*T) after a list: %v", err)
			}
			var back []probeScalars
			if err := control.Unmarshal(&back, bytes.NewReader(eb.Bytes())); err != nil {
				return errf("a value, a list of two and a list of two pointers written through one Encoder as %q do not read back: %v", eb.String(), err)
			}
			if len(back) != 5 || back[0].Req != x.Req || back[0].Num != x.Num || back[1].Str != "second" || back[2].Num != 3 || back[3].Str != "third" || back[4].Req != "r2" {
				return errf("a value, a list of two and a list of two pointers written through one Encoder as %q read back as %d values", eb.String(), len(back))
			}
		}
		// the paragraph-level API is a second route for the same conversion
		para2, err := control.ConvertToParagraph(&x)
		if err != nil {
			return errf("ConvertToParagraph(%+v): %v", x, err)
		}
		var viaPara probeScalars
		if err := control.UnpackFromParagraph(*para2, &viaPara); err != nil {
			return errf("UnpackFromParagraph(ConvertToParagraph(x)) failed: %v", err)
		}
		wantVia := probeScalars{Str: x.Str, Num: x.Num, UNum: x.UNum, Flag: x.Flag, Renamed: x.Renamed, Req: x.Req, Multi: x.Multi, Text: x.Text}
		if viaPara.Multi != "" || x.Multi != "" {
			// the multiline tag adds its layout newline in front; the text form removes it again
			viaPara.Multi = strings.TrimPrefix(viaPara.Multi, "\n")
		}
		if !reflect.DeepEqual(&viaPara, &wantVia) {
			return errf("ConvertToParagraph/UnpackFromParagraph changed the value: %+v became %+v", wantVia, viaPara)
		}
		// several values through one call: what a later paragraph leaves out must not be filled in
		// from an earlier one
		bare := probeScalars{Req: "r"}
		texts, err := marshalToText([]probeScalars{{Str: x.Str, Num: x.Num, UNum: x.UNum, Flag: x.Flag, Renamed: x.Renamed, Req: x.Req, Multi: x.Multi, Text: x.Text}, bare, {Str: x.Str, Req: x.Req, Text: x.Text}})
		if err != nil {
			return errf("Marshal of a slice of three values failed: %v", err)
		}
		var ys []probeScalars
		if err := control.Unmarshal(&ys, strings.NewReader(texts)); err != nil || len(ys) != 3 {
			return errf("Unmarshal of three marshalled values %q gives %d values, err %v", texts, len(ys), err)
		}
		if ys[1].Str != "" || ys[1].Renamed != "" || ys[1].Num != 0 || ys[1].UNum != 0 || ys[1].Flag || ys[1].Multi != "" || ys[1].Text != "" || ys[1].Req != "r" {
			return errf("the second of three values was written with only its required fields (%q) but reads back as %+v: fields of its neighbour leaked into it", texts, ys[1])
		}
		if ys[2].Str != x.Str || ys[2].Renamed != "" || ys[2].Num != 0 || ys[2].Multi != "" || !sameUpToTrailingNewline(ys[2].Text, x.Text) || ys[0].Str != x.Str || ys[0].Renamed != x.Renamed || ys[0].Num != x.Num {
			return errf("three values written as %q read back as %+v", texts, ys)
		}
		// members of an anonymously embedded plain struct are members like any other
		emb := probeEmb{ProbeCommon{Origin: "o" + c.Req, Label: c.Str, Count: c.Num}, probeCommonLower{Vendor: "v" + c.Req, Tier: 3}, c.Renamed}
		etext, err := marshalToText(&emb)
		if err != nil {
			return errf("Marshal of a struct with an embedded plain struct failed: %v", err)
		}
		var emb2 probeEmb
		if err := control.Unmarshal(&emb2, strings.NewReader(etext)); err != nil || emb2 != emb {
			return errf("struct with an embedded plain struct %+v was written as %q and read back as %+v (err %v)", emb, etext, emb2, err)
		}
		var ep probeEmbPass
		if err := control.Unmarshal(&ep, strings.NewReader(etext+"X-Unknown: kept\n")); err != nil {
			return errf("Unmarshal(%q) into a struct with Paragraph and an embedded plain struct failed: %v", etext, err)
		}
		ep.Origin = "changed"
		ptext, err := marshalToText(&ep)
		if pp, perr := paraOfText(ptext); err != nil || perr != nil || pp.Values["Origin"] != "changed" || pp.Values["X-Unknown"] != "kept" {
			return errf("after setting the embedded struct's Origin to \"changed\" the struct marshals as %q (err %v)", ptext, err)
		}
		// the raw paragraph reached through an embedded struct, or under an alias name
		var nested probeNested
		ndoc := "Source: " + "s" + c.Req + "\nX-Unknown: kept\nExtra: e\nVcs-Git: https://example.org/x.git\n"
		if err := control.Unmarshal(&nested, strings.NewReader(ndoc)); err != nil {
			return errf("Unmarshal(%q) into a struct that embeds a struct embedding Paragraph: %v", ndoc, err)
		}
		nested.Extra = "changed"
		ntext, err := marshalToText(&nested)
		if np, perr := paraOfText(ntext); err != nil || perr != nil || np.Values["X-Unknown"] != "kept" || np.Values["Vcs-Git"] != "https://example.org/x.git" || np.Values["Extra"] != "changed" || np.Values["Source"] != "s"+c.Req {
			return errf("a struct embedding a struct that embeds Paragraph read %q and marshals as %q (err %v): unknown fields must be re-emitted", ndoc, ntext, err)
		}
		ddoc := "Source: " + "s" + c.Req + "\nX-Unknown: k" + c.Req + "\nMid: m\nTop: t\nRoof: r\nVcs-Git: https://example.org/x.git\n"
		var deep probeDeep
		if err := control.Unmarshal(&deep, strings.NewReader(ddoc)); err != nil {
			return errf("Unmarshal(%q) into a struct reaching Paragraph through three embedded structs: %v", ddoc, err)
		}
		deep.Top = "changed"
		dtext, err := marshalToText(&deep)
		if dp, perr := paraOfText(dtext); err != nil || perr != nil || dp.Values["X-Unknown"] != "k"+c.Req || dp.Values["Vcs-Git"] != "https://example.org/x.git" || dp.Values["Roof"] != "r" || dp.Values["Top"] != "changed" || dp.Values["Mid"] != "m" || dp.Values["Source"] != "s"+c.Req {
			return errf("a struct reaching Paragraph through three embedded structs read %q and marshals as %q (err %v): unknown fields must be re-emitted, members written", ddoc, dtext, err)
		}
		var deeper probeDeeper
		if err := control.Unmarshal(&deeper, strings.NewReader(ddoc)); err != nil {
			return errf("Unmarshal(%q) into a struct reaching Paragraph through four embedded structs: %v", ddoc, err)
		}
		dtext, err = marshalToText(&deeper)
		if dp, perr := paraOfText(dtext); err != nil || perr != nil || dp.Values["X-Unknown"] != "k"+c.Req || dp.Values["Vcs-Git"] != "https://example.org/x.git" || dp.Values["Roof"] != "r" || dp.Values["Top"] != "t" || dp.Values["Source"] != "s"+c.Req {
			return errf("a struct reaching Paragraph through four embedded structs read %q and marshals as %q (err %v): unknown fields must be re-emitted, members written", ddoc, dtext, err)
		}
		var aliased probeAliased
		if err := control.Unmarshal(&aliased, strings.NewReader("A: 1\nX-Other: 2\n")); err == nil {
			if atext, err := marshalToText(&aliased); err == nil {
				if ap, perr := paraOfText(atext); perr != nil || ap.Values["A"] != "1" {
					return errf("struct embedding Paragraph under an alias name marshals as %q", atext)
				}
			}
		}
		// the aliased Paragraph filled by its owner: what goes out is what was put in
		byHand := probeAliased{paragraphAlias: control.Paragraph{Order: []string{"X-Other", "X-More"}, Values: map[string]string{"X-Other": "o" + c.Req, "X-More": "m"}}, A: "1"}
		if atext, err := marshalToText(&byHand); err == nil {
			if ap, perr := paraOfText(atext); perr != nil || ap.Values["A"] != "1" || (len(ap.Order) > 1 && (ap.Values["X-Other"] != "o"+c.Req || ap.Values["X-More"] != "m")) {
				return errf("struct embedding a hand-filled Paragraph (X-Other=%q, X-More=m) under an alias name marshals as %q", "o"+c.Req, atext)
			}
		}
		// folded lists and scalars without a strip tag
		fin := probeFolded{Lines: []string{"a", "b" + c.Req}, Nums: []int{1, c.Num}, Count: 5, Flag: true}
		foldedArch := []string{"amd64", "any", "all", "linux-any", "any-arm64", "musl-linux-armhf", "hurd-i386"}[uint(c.Num)%7]
		if fa, err := dependency.ParseArch(foldedArch); err == nil {
			fin.Arch = *fa
		}
		fin.Ver = version.Version{Epoch: uint(c.Num) % 3, Version: "1." + strconv.Itoa(int(uint(c.Num)%50)), Revision: []string{"", "1", "2~x"}[uint(c.Num)%3]}
		if fd, err := dependency.Parse("foo (>= " + fin.Ver.String() + ") [" + []string{"amd64", "!i386 !hurd-any"}[uint(c.Num)%2] + "], bar | baz"); err == nil {
			fin.Dep = *fd
		}
		foldedSame := func(o probeFolded) bool {
			return o.Arch == fin.Arch && o.Ver == fin.Ver && o.Dep.String() == fin.Dep.String()
		}
		ftext, err := marshalToText(&fin)
		if err != nil {
			return errf("Marshal(%+v): %v", fin, err)
		}
		var fout probeFolded
		if err := control.Unmarshal(&fout, strings.NewReader(ftext)); err != nil || !strSliceEq(fout.Lines, fin.Lines) || len(fout.Nums) != 2 || fout.Nums[1] != c.Num || fout.Count != 5 || !fout.Flag || !foldedSame(fout) {
			return errf("folded members without a strip tag: %+v written as %q reads back as %+v (err %v)", fin, ftext, fout, err)
		}
		// ... and through the paragraph-level pair: what ConvertToParagraph makes of the folded
		// members, UnpackFromParagraph reads back (the multiline layout newline is layout there too)
		if fp, err := control.ConvertToParagraph(&fin); err != nil {
			return errf("ConvertToParagraph(%+v): %v", fin, err)
		} else {
			var viaP probeFolded
			if err := control.UnpackFromParagraph(*fp, &viaP); err != nil || !strSliceEq(viaP.Lines, fin.Lines) || len(viaP.Nums) != 2 || viaP.Nums[0] != 1 || viaP.Nums[1] != c.Num || viaP.Count != 5 || !viaP.Flag || !foldedSame(viaP) {
				return errf("folded members without a strip tag: ConvertToParagraph(%+v) = %q, which UnpackFromParagraph reads as %+v (err %v)", fin, fp.Values, viaP, err)
			}
		}
		// members sharing a Go name through embedding
		tw := probeTwins{probeTwinA: probeTwinA{Name: "a" + c.Req}, probeTwinB: probeTwinB{Name: "b" + c.Req}, probeTwinV: probeTwinV{Version: "inner" + c.Req}, Version: "outer" + c.Req}
		if twText, err := marshalToText(&tw); err != nil {
			return errf("Marshal(%+v): %v", tw, err)
		} else {
			var twBack probeTwins
			if err := control.Unmarshal(&twBack, strings.NewReader(twText)); err != nil || twBack != tw {
				return errf("members that share a Go name through embedding (A-Name / B-Name, Inner-Version / Outer-Version): %+v written as %q reads back as %+v (err %v)", tw, twText, twBack, err)
			}
		}
		// a slice of pointers goes out the way it came in
		ptrs := []*probeEmb{{ProbeCommon: ProbeCommon{Origin: "o1"}, probeCommonLower: probeCommonLower{Vendor: "v"}}, {ProbeCommon: ProbeCommon{Origin: "o2"}, probeCommonLower: probeCommonLower{Vendor: "v"}}}
		if ptext, err := marshalToText(ptrs); err != nil {
			return errf("Marshal of a []*T (which Unmarshal fills happily) failed: %v", err)
		} else {
			var back []*probeEmb
			if err := control.Unmarshal(&back, strings.NewReader(ptext)); err != nil || len(back) != 2 || back[1].Origin != "o2" {
				return errf("[]*T written as %q reads back as %d elements (err %v)", ptext, len(back), err)
			}
		}
		for _, req := range []string{"Req", "Req-Empty"} {
			var z probeScalars
			if err := control.Unmarshal(&z, strings.NewReader(dropFieldLines(text, req))); err == nil {
				return errf("Unmarshal accepted %q although the required field %q is missing", dropFieldLines(text, req), req)
			}
			// the paragraph-level route checks requirements just the same
			if pp, err := paraOfText(dropFieldLines(text, req)); err == nil {
				var z2 probeScalars
				if err := control.UnpackFromParagraph(pp, &z2); err == nil {
					return errf("UnpackFromParagraph accepted a paragraph without the required field %q (%q)", req, dropFieldLines(text, req))
				}
			}
		}
		return nil
	},
})

func TestC09_Scalars(t *testing.T) {
	specC09Scalars.Run(t, genScalarsCase, 20000, 100000)
}

// ------------------------------------------------------------------ lists and custom types

type HashLine struct {
	Hash string `json:"hash"`
	Size int64  `json:"size"`
	Name string `json:"name"`
}

type ListsCase struct {
	Words, Commas, Loose, Lines []string
	Ver                         string
	Dep                         string
	Arch                        string
	Archs                       []string
	MD5s, SHA256s               []HashLine
	Nums                        []int
	ReqWords                    []string
	ReqNums                     []int
	ReqVers                     []string
	ReqVer, ReqArch             string // "" = the zero value
}

func genWord(t *rapid.T, label string) string {
	return genFromAlphabet(t, label, "abcxyzABC019.+-_~:/=@é", 1, 10)
}

func genWords(t *rapid.T, label string, max int) []string {
	n := rapid.IntRange(0, max).Draw(t, label+"n")
	var out []string
	for i := 0; i < n; i++ {
		out = append(out, genWord(t, label+"w"))
	}
	return out
}

func genHex(t *rapid.T, label string, n int) string {
	return genFromAlphabet(t, label, "0123456789abcdef", n, n)
}

func genFileName(t *rapid.T, label string) string {
	return genFromAlphabet(t, label, "abcxyz019", 1, 8) + rapid.SampledFrom([]string{"_1.0-1.dsc", "_1.0.orig.tar.gz", "_1.0-1.debian.tar.xz", "_1.0-1_amd64.deb", ".tar.gz", "_1.0-1_all.deb", "_1.0-1_amd64.buildinfo"}).Draw(t, label+"ext")
}

func genHashLines(t *rapid.T, label string, hexLen int, max int) []HashLine {
	n := rapid.IntRange(0, max).Draw(t, label+"n")
	var out []HashLine
	for i := 0; i < n; i++ {
		out = append(out, HashLine{Hash: genHex(t, label+"h", hexLen), Size: rapid.Int64Range(0, 1<<40).Draw(t, label+"s"), Name: genFileName(t, label+"f")})
	}
	return out
}

func genListsCase(t *rapid.T) ListsCase {
	c := ListsCase{}
	c.Words = genWords(t, "words", 5)
	c.Commas = genWords(t, "commas", 5)
	for i := range c.Commas {
		if rapid.IntRange(0, 3).Draw(t, "phrase") == 0 {
			c.Commas[i] = c.Commas[i] + " " + genWord(t, "w2") // elements may contain single blanks
		}
	}
	c.Loose = genWords(t, "loose", 5)
	for i := range c.Loose {
		c.Loose[i] = strings.ReplaceAll(c.Loose[i], ",", "")
		if c.Loose[i] == "" {
			c.Loose[i] = "x"
		}
	}
	for i := range c.Commas {
		c.Commas[i] = strings.ReplaceAll(c.Commas[i], ", ", ",")
	}
	c.Lines = genWords(t, "lines", 4)
	for i := range c.Lines {
		if c.Lines[i] == "." { // deb822 cannot carry a line that is exactly "."
			c.Lines[i] = ".."
		}
	}
	if rapid.Bool().Draw(t, "hasVer") {
		c.Ver = genWellFormedCore(t, "ver").canonical()
	}
	if rapid.Bool().Draw(t, "hasDep") {
		c.Dep = renderDep(genDepAST(t, "dep", 3, 3, true), canonicalSpacer)
	}
	if rapid.Bool().Draw(t, "hasArch") {
		c.Arch = genArchName(t, "arch")
	}
	na := rapid.IntRange(0, 4).Draw(t, "narchs")
	for i := 0; i < na; i++ {
		c.Archs = append(c.Archs, genArchName(t, "archs"))
	}
	c.MD5s = genHashLines(t, "md5", 32, 3)
	c.SHA256s = genHashLines(t, "sha256", 64, 3)
	nn := rapid.IntRange(0, 4).Draw(t, "nnums")
	for i := 0; i < nn; i++ {
		c.Nums = append(c.Nums, rapid.IntRange(-5, 1000000).Draw(t, "num"))
	}
	c.ReqWords = genWords(t, "reqwords", 3)
	for i := rapid.IntRange(0, 2).Draw(t, "nreqnums"); i > 0; i-- {
		c.ReqNums = append(c.ReqNums, rapid.IntRange(-5, 1000).Draw(t, "reqnum"))
	}
	for i := rapid.IntRange(0, 2).Draw(t, "nreqvers"); i > 0; i-- {
		c.ReqVers = append(c.ReqVers, genWellFormedCore(t, "reqver").canonical())
	}
	if rapid.Bool().Draw(t, "hasReqVer") {
		c.ReqVer = genWellFormedCore(t, "reqver1").canonical()
	}
	if rapid.Bool().Draw(t, "hasReqArch") {
		c.ReqArch = genArchName(t, "reqarch")
	}
	// a blank-separated list is separated by blanks, tabs and newlines - not by every rune Unicode
	// calls a space
	if len(c.Words) > 0 && rapid.IntRange(0, 5).Draw(t, "nbsp") == 0 {
		i := rapid.IntRange(0, len(c.Words)-1).Draw(t, "nbspAt")
		c.Words[i] = c.Words[i] + rapid.SampledFrom([]string{"\u00a0", "\u3000", "\u2003", "\u0085", "\f", "\v", "\x1f", "\x00"}).Draw(t, "nbspR") + "x"
	}
	return c
}

func strSliceEq(a, b []string) bool {
	if len(a) != len(b) {
		return false
	}
	for i := range a {
		if a[i] != b[i] {
			return false
		}
	}
	return true
}

var specC09Lists = Register(&Spec[ListsCase]{
	Prop: "C09", Name: "lists",
	Rule: "values of a probe struct with []string (default blank delimiter; delim \", \" with elements containing single blanks; delim \",\" + strip \" \"; newline-delimited multiline list), []int, version.Version, dependency.Dependency (canonical C04 renderings incl. substvars), dependency.Arch, []dependency.Arch, []MD5FileHash and multiline []SHA256FileHash, three required lists ([]string, []int, []version.Version with delim \", \") and two required members of custom type (version, architecture; zero in half of the cases); one blank-separated list in six carries an element with NBSP, U+3000, U+2003, NEL, form feed, vertical tab, US or NUL inside (a blank-separated list is separated by blanks, tabs and line ends); list lengths 0..5. Oracle: Unmarshal(Marshal(x)) == x field by field (nil == empty slice; versions by parts; dependencies structurally; arches by triple; file hashes by (algorithm, hash, size, name)); empty lists and zero custom values are omitted, required lists are written even when empty and an empty one reads back as an empty list. Non-trivial: >= 3 non-zero fields of >= 3 kinds; distinct by value.",
	Check: func(c ListsCase, r *Recorder) error {
		kinds := 0
		for _, l := range [][]string{c.Words, c.Commas, c.Loose, c.Lines, c.Archs} {
			if len(l) > 0 {
				kinds++
			}
		}
		for _, s := range []string{c.Ver, c.Dep, c.Arch} {
			if s != "" {
				kinds++
			}
		}
		if len(c.MD5s) > 0 {
			kinds++
		}
		if len(c.SHA256s) > 0 {
			kinds++
		}
		r.Case(jsonKey(c), kinds >= 3)
		if kinds >= 3 {
			r.Sample(c)
		}
		x := probeLists{Words: c.Words, Commas: c.Commas, Loose: c.Loose, Lines: c.Lines, Nums: c.Nums, ReqWords: c.ReqWords, ReqNums: c.ReqNums}
		for _, vs := range c.ReqVers {
			v, err := version.Parse(vs)
			if err != nil {
				return nil
			}
			x.ReqVers = append(x.ReqVers, v)
		}
		if c.ReqVer != "" {
			v, err := version.Parse(c.ReqVer)
			if err != nil {
				return nil
			}
			x.ReqVer = v
		}
		if c.ReqArch != "" {
			a, err := dependency.ParseArch(c.ReqArch)
			if err != nil {
				return nil
			}
			x.ReqArch = *a
		}
		if len(c.ReqWords) == 0 || len(c.ReqNums) == 0 || len(c.ReqVers) == 0 {
			r.Count("empty-required-list", 1)
		}
		if c.Ver != "" {
			v, err := version.Parse(c.Ver)
			if err != nil {
				return nil
			}
			x.Ver = v
		}
		if c.Dep != "" {
			d, err := dependency.Parse(c.Dep)
			if err != nil {
				return nil
			}
			x.Dep = *d
		}
		if c.Arch != "" {
			a, err := dependency.ParseArch(c.Arch)
			if err != nil {
				return nil
			}
			x.Arch = *a
		}
		for _, n := range c.Archs {
			a, err := dependency.ParseArch(n)
			if err != nil {
				return nil
			}
			x.Archs = append(x.Archs, *a)
		}
		for _, h := range c.MD5s {
			x.MD5s = append(x.MD5s, control.MD5FileHash{FileHash: control.FileHash{Algorithm: "md5", Hash: h.Hash, Size: h.Size, Filename: h.Name}})
		}
		for _, h := range c.SHA256s {
			x.SHA256s = append(x.SHA256s, control.SHA256FileHash{FileHash: control.FileHash{Algorithm: "sha256", Hash: h.Hash, Size: h.Size, Filename: h.Name}})
		}
		text, err := marshalToText(&x)
		if err != nil {
			return errf("Marshal(%+v) failed: %v", c, err)
		}
		para, err := paraOfText(text)
		if err != nil {
			if text == "" {
				// nothing to write: every field optional and empty
				para = control.Paragraph{Values: map[string]string{}}
			} else {
				return errf("Marshal(%+v) wrote %q which does not read back: %v", c, text, err)
			}
		}
		has := func(k string) bool { _, ok := para.Values[k]; return ok }
		present := map[string]bool{"Words": len(c.Words) > 0, "Commas": len(c.Commas) > 0, "Loose-List": len(c.Loose) > 0, "Lines": len(c.Lines) > 0,
			"Version": c.Ver != "", "Depends": c.Dep != "", "Architecture": c.Arch != "", "Arch-List": len(c.Archs) > 0, "Files": len(c.MD5s) > 0, "Checksums-Sha256": len(c.SHA256s) > 0, "Num-List": len(c.Nums) > 0,
			"Req-Words": true, "Req-Nums": true, "Req-Vers": true, "Req-Version": true, "Req-Arch": true}
		for k, want := range present {
			if has(k) != want {
				return errf("field %q present=%v, want %v in %q", k, has(k), want, text)
			}
		}
		var y probeLists
		{
			if err := control.Unmarshal(&y, strings.NewReader(text)); err != nil {
				return errf("Unmarshal of marshalled text %q failed: %v", text, err)
			}
		}
		if !strSliceEq(y.Words, c.Words) || !strSliceEq(y.Commas, c.Commas) || !strSliceEq(y.Loose, c.Loose) || !strSliceEq(y.Lines, c.Lines) {
			return errf("string lists changed: wrote %q %q %q %q as %q, read %q %q %q %q", c.Words, c.Commas, c.Loose, c.Lines, text, y.Words, y.Commas, y.Loose, y.Lines)
		}
		// a slice of values: full, empty, full
		if ltext, err := marshalToText([]probeLists{x, {}, x}); err == nil {
			var ls []probeLists
			if err := control.Unmarshal(&ls, strings.NewReader(ltext)); err != nil || len(ls) != 3 {
				return errf("Unmarshal of three marshalled list probes %q gives %d values, err %v", ltext, len(ls), err)
			}
			if len(ls[1].Words)+len(ls[1].Commas)+len(ls[1].Loose)+len(ls[1].Lines)+len(ls[1].Archs)+len(ls[1].MD5s)+len(ls[1].SHA256s)+len(ls[1].Nums)+len(ls[1].ReqWords)+len(ls[1].ReqNums)+len(ls[1].ReqVers) != 0 || ls[1].Ver != (version.Version{}) || len(ls[1].Dep.Relations) != 0 {
				return errf("the empty second of three list probes (%q) reads back non-empty: %+v", ltext, ls[1])
			}
			if !strSliceEq(ls[0].Words, c.Words) || !strSliceEq(ls[2].Words, c.Words) || !strSliceEq(ls[0].ReqWords, c.ReqWords) || !strSliceEq(ls[2].Commas, c.Commas) || len(ls[2].Archs) != len(c.Archs) || len(ls[0].MD5s) != len(c.MD5s) {
				return errf("three list probes written as %q read back with different lists", ltext)
			}
			// values decoded earlier stay what they were when later ones are filled in
			for i := range c.Words {
				if ls[0].Words[i] != c.Words[i] {
					return errf("element %d of the first value's Words changed to %q after the later values were decoded", i, ls[0].Words[i])
				}
			}
		} else {
			return errf("Marshal of a slice of list probes failed: %v", err)
		}
		// the same variable decoded into a second time: a list the document carries replaces the
		// member's previous content, it is not appended to it
		used := probeLists{Words: []string{"old1", "old2"}, ReqWords: []string{"old"}, ReqNums: []int{9, 9}, Archs: []dependency.Arch{{ABI: "gnu", OS: "linux", CPU: "old"}}}
		if err := control.Unmarshal(&used, strings.NewReader(text)); err != nil {
			return errf("Unmarshal of %q into a used variable failed: %v", text, err)
		}
		if !strSliceEq(used.ReqWords, c.ReqWords) || len(used.ReqNums) != len(c.ReqNums) || (len(c.Words) > 0 && !strSliceEq(used.Words, c.Words)) || (len(c.Archs) > 0 && len(used.Archs) != len(c.Archs)) {
			return errf("decoding %q into a variable that held lists before gives Words %q Req-Words %q Req-Nums %v Archs %v: old elements survive", text, used.Words, used.ReqWords, used.ReqNums, used.Archs)
		}
		if y.ReqVer != x.ReqVer || y.ReqArch != x.ReqArch {
			return errf("required custom-type members changed: wrote %+v / %#v as %q, read %+v / %#v", x.ReqVer, x.ReqArch, text, y.ReqVer, y.ReqArch)
		}
		if !strSliceEq(y.ReqWords, c.ReqWords) {
			return errf("required string list changed: wrote %q as %q, read %q", c.ReqWords, text, y.ReqWords)
		}
		if len(y.ReqNums) != len(c.ReqNums) || len(y.ReqVers) != len(x.ReqVers) {
			return errf("required lists changed: wrote %v %v as %q, read %v %v", c.ReqNums, c.ReqVers, text, y.ReqNums, y.ReqVers)
		}
		for i := range c.ReqNums {
			if y.ReqNums[i] != c.ReqNums[i] {
				return errf("required int list changed: wrote %v as %q, read %v", c.ReqNums, text, y.ReqNums)
			}
		}
		for i := range x.ReqVers {
			if y.ReqVers[i] != x.ReqVers[i] {
				return errf("required version list changed: wrote %v as %q, read %v", x.ReqVers, text, y.ReqVers)
			}
		}
		if len(y.Nums) != len(c.Nums) {
			return errf("int list changed: wrote %v as %q, read %v", c.Nums, text, y.Nums)
		}
		for i := range c.Nums {
			if y.Nums[i] != c.Nums[i] {
				return errf("int list changed: wrote %v as %q, read %v", c.Nums, text, y.Nums)
			}
		}
		if y.Ver != x.Ver {
			return errf("version changed: wrote %+v as %q, read %+v", x.Ver, text, y.Ver)
		}
		if err := depStructEq(&x.Dep, &y.Dep); err != nil {
			return errf("dependency changed through %q: %v", text, err)
		}
		if c.Arch != "" && y.Arch != x.Arch {
			return errf("architecture changed: wrote %#v as %q, read %#v", x.Arch, text, y.Arch)
		}
		if len(y.Archs) != len(x.Archs) {
			return errf("architecture list changed: wrote %d as %q, read %d", len(x.Archs), text, len(y.Archs))
		}
		for i := range x.Archs {
			if y.Archs[i] != x.Archs[i] {
				return errf("architecture list entry %d changed: wrote %#v as %q, read %#v", i, x.Archs[i], text, y.Archs[i])
			}
		}
		if len(y.MD5s) != len(x.MD5s) || len(y.SHA256s) != len(x.SHA256s) {
			return errf("hash lists changed length through %q", text)
		}
		for i := range x.MD5s {
			g, w := y.MD5s[i].FileHash, x.MD5s[i].FileHash
			if g.Algorithm != "md5" || g.Hash != w.Hash || g.Size != w.Size || g.Filename != w.Filename {
				return errf("Files entry %d changed through %q: %+v vs %+v", i, text, g, w)
			}
		}
		for i := range x.SHA256s {
			g, w := y.SHA256s[i].FileHash, x.SHA256s[i].FileHash
			if g.Algorithm != "sha256" || g.Hash != w.Hash || g.Size != w.Size || g.Filename != w.Filename {
				return errf("Checksums-Sha256 entry %d changed through %q: %+v vs %+v", i, text, g, w)
			}
		}
		return nil
	},
})

func TestC09_Lists(t *testing.T) {
	specC09Lists.Run(t, genListsCase, 12000, 80000)
}

// ------------------------------------------------------------------ never panics

type PanicCase struct {
	Kind   string `json:"kind"`
	SetStr bool   `json:"setStr"`
	SetInt bool   `json:"setInt"`
	SetVer bool   `json:"setVer"`
	SetB   bool   `json:"setB"`
	Str    string `json:"str"`
}

var specC09NoPanic = Register(&Spec[PanicCase]{
	Prop: "C09", Name: "nopanic",
	Rule: "Marshal / ConvertToParagraph of zero values, nil slices, typed nil pointers, structs with unexported members (scalar, struct-kind, sync.Mutex; zero and set) and structs with pointer fields (each nil or set, all 16 combinations) for every probe type, by value and by pointer. Oracle: returns (possibly an error) without panicking; when it succeeds, set pointer fields show their pointee's rendering and nil ones are absent. Non-trivial: at least one pointer field is nil; distinct by combination.",
	Check: func(c PanicCase, r *Recorder) error {
		nilAny := !(c.SetStr && c.SetInt && c.SetVer && c.SetB)
		r.Case(jsonKey(c), nilAny, "kind:"+c.Kind)
		if nilAny {
			r.Sample(c)
		}
		switch c.Kind {
		case "zero-scalars":
			_, err := marshalToText(probeScalars{})
			_ = err
			_, err = marshalToText(&probeScalars{})
			_ = err
		case "zero-lists":
			_, _ = marshalToText(probeLists{})
			_, _ = marshalToText(&probeLists{})
			_, _ = marshalToText([]probeLists{{}, {}})
			_, _ = marshalToText([]probeLists(nil))
		case "unsupported-kinds":
			// kinds the encoder does not know must come back as an error, not a panic
			type inner struct{ A string }
			type odd struct {
				F   float64
				M   map[string]string
				C   chan int
				Fn  func()
				I   interface{}
				In  inner
				Ar  [2]string
				PP  **string
				U8  uint8
				I64 int64
			}
			s := "x"
			ps := &s
			for _, v := range []interface{}{odd{}, &odd{}, odd{F: 1.5, M: map[string]string{"a": "b"}, I: 3, In: inner{"q"}, Ar: [2]string{"a", "b"}, PP: &ps, U8: 7, I64: -9},
				[]odd{{}, {F: 2}}, 42, "str", nil, &s, []string{"a"}, map[string]string{}} {
				_, _ = marshalToText(v)
			}
			// typed nil pointers, structs with unexported members (set and unset)
			type priv struct {
				Name   string
				hidden string
				cached version.Version
				in     inner
				mu     sync.Mutex
				Pub    version.Version
			}
			var np *priv
			var npl *probeLists
			for _, v := range []interface{}{np, npl, priv{Name: "x"}, &priv{Name: "x", hidden: "h", cached: version.Version{Version: "1"}, in: inner{"q"}, Pub: version.Version{Version: "2"}}, []priv{{hidden: "h", cached: version.Version{Version: "1"}}}} {
				_, _ = marshalToText(v)
				_, _ = control.ConvertToParagraph(v)
			}
			var q priv
			_ = control.Unmarshal(&q, strings.NewReader("Name: x\nhidden: h\ncached: 1.0\nin: x\nA: q\nmu: 1\nPub: 2.0\n"))
			if q.hidden != "" || q.cached != (version.Version{}) || q.in != (inner{}) {
				return errf("Unmarshal wrote unexported members: %+v", q)
			}
			var qs []priv
			_ = control.Unmarshal(&qs, strings.NewReader("Name: x\nhidden: h\n\nName: y\n"))
			var y odd
			_ = control.Unmarshal(&y, strings.NewReader("F: 1.5\nM: x\nC: 1\nFn: x\nI: 3\nA: q\nAr: a b\nPP: x\nU8: 7\nI64: -9\n"))
			var z int
			_ = control.Unmarshal(&z, strings.NewReader("A: b\n"))
			_ = control.Unmarshal(y, strings.NewReader("A: b\n"))
		case "zero-pointers":
			_, _ = marshalToText(probePointers{})
			_, _ = control.ConvertToParagraph(&probePointers{})
		default:
			p := probePointers{Name: "n"}
			if c.SetStr {
				s := c.Str
				p.PStr = &s
			}
			if c.SetInt {
				i := 42
				p.PInt = &i
			}
			if c.SetVer {
				v := version.Version{Epoch: 1, Version: "2.0", Revision: "3"}
				p.PVer = &v
			}
			if c.SetB {
				b := true
				p.PBool = &b
			}
			text, err := marshalToText(&p)
			if err != nil {
				return nil // an error is an acceptable outcome
			}
			para, err := paraOfText(text)
			if err != nil {
				return errf("Marshal(%+v) wrote %q: %v", c, text, err)
			}
			want := map[string]string{"Name": "n"}
			if c.SetStr && c.Str != "" {
				want["PStr"] = c.Str
			}
			if c.SetInt {
				want["PInt"] = "42"
			}
			if c.SetVer {
				want["PVer"] = "1:2.0-3"
			}
			if c.SetB {
				want["PBool"] = "yes"
			}
			for k, v := range want {
				if para.Values[k] != v {
					return errf("pointer probe %+v: field %q = %q, want %q (text %q)", c, k, para.Values[k], v, text)
				}
			}
			for k := range para.Values {
				if _, ok := want[k]; !ok {
					return errf("pointer probe %+v: unexpected field %q in %q", c, k, text)
				}
			}
		}
		return nil
	},
})

func TestC09_NoPanicExh(t *testing.T) {
	specC09NoPanic.Enumerate(t, true, func(_ *Recorder, yield func(PanicCase) bool) {
		for _, k := range []string{"zero-scalars", "zero-lists", "zero-pointers", "unsupported-kinds"} {
			if !yield(PanicCase{Kind: k}) {
				return
			}
		}
		for m := 0; m < 16; m++ {
			for _, s := range []string{"hello", ""} {
				if !yield(PanicCase{Kind: "pointers", SetStr: m&1 != 0, SetInt: m&2 != 0, SetVer: m&4 != 0, SetB: m&8 != 0, Str: s}) {
					return
				}
			}
		}
	})
}

// ------------------------------------------------------------------ pass-through of unknown fields

// the same members with the raw paragraph embedded last: where it sits in the declaration is
// not supposed to matter
type probePassLate struct {
	Package string
	Version version.Version
	Depends dependency.Dependency
	Tags    []string `control:"Tag" delim:", "`
	Size    int      `control:"Installed-Size"`
	Notes   string
	control.Paragraph
}

// PassExtra: an embedded plain struct with nothing in it that goes to or comes from the text. Its
// TYPE name is a Go name, not a field name: a document may well carry a field called "PassExtra".
type PassExtra struct {
	Cache int `control:"-"`
}

type probePass struct {
	control.Paragraph
	PassExtra
	Package string
	Version version.Version
	Depends dependency.Dependency
	Tags    []string `control:"Tag" delim:", "`
	Size    int      `control:"Installed-Size"`
	Notes   string
}

type PassField struct {
	Name    string `json:"name"`
	Value   string `json:"value"` // as the reader would return it
	Unknown bool   `json:"unknown"`
}

type PassCase struct {
	Fields []PassField       `json:"fields"` // input document, in order
	Set    map[string]string `json:"set"`    // known field -> new text ("" clears it); absent = untouched
}

var passKnown = []string{"Package", "Version", "Depends", "Tag", "Installed-Size", "Notes"}

func genKnownValue(t *rapid.T, label, name string) string {
	switch name {
	case "Package":
		return genPkgName(t, label)
	case "Version":
		return genWellFormedCore(t, label).canonical()
	case "Depends":
		return renderDep(genDepAST(t, label, 2, 2, true), canonicalSpacer)
	case "Tag":
		ws := genWords(t, label, 3)
		if len(ws) == 0 {
			ws = []string{"role::program"}
		}
		for i := range ws {
			ws[i] = strings.ReplaceAll(ws[i], ",", "")
			if ws[i] == "" {
				ws[i] = "t"
			}
		}
		return strings.Join(ws, ", ")
	case "Installed-Size":
		return strconv.Itoa(rapid.IntRange(1, 1000000).Draw(t, label))
	default:
		return genSingleLine(t, label, false)
	}
}

func genPassCase(t *rapid.T) PassCase {
	c := PassCase{Set: map[string]string{}}
	present := map[string]bool{}
	usedUnknown := map[string]bool{}
	n := rapid.IntRange(1, 8).Draw(t, "n")
	for i := 0; i < n; i++ {
		if rapid.Bool().Draw(t, "unknown") {
			name := "X-" + genFromAlphabet(t, "xn", "ABCabc019-", 1, 6)
			if rapid.IntRange(0, 5).Draw(t, "goName") == 0 {
				// ordinary field names that coincide with Go member names of library types
				name = rapid.SampledFrom([]string{"Epoch", "Revision", "Values", "Order", "Relations", "ABI", "OS", "CPU", "Paragraph", "Filename", "Hash", "Algorithm", "PassExtra", "PassExtra", "Cache"}).Draw(t, "goNameV")
			}
			if usedUnknown[name] {
				continue
			}
			usedUnknown[name] = true
			var v string
			if rapid.IntRange(0, 2).Draw(t, "xmulti") == 0 {
				v = genMultiLineText(t, "xv")
				if strings.Contains(strings.TrimSuffix(v, "\n"), "\n") || strings.HasSuffix(v, "\n") {
					v = strings.TrimSuffix(v, "\n") + "\n" // reader convention
				}
			} else {
				v = genSingleLine(t, "xs", true)
			}
			c.Fields = append(c.Fields, PassField{Name: name, Value: v, Unknown: true})
		} else {
			name := rapid.SampledFrom(passKnown).Draw(t, "kn")
			if present[name] {
				continue
			}
			present[name] = true
			c.Fields = append(c.Fields, PassField{Name: name, Value: genKnownValue(t, "kv", name)})
		}
	}
	for _, k := range passKnown {
		switch rapid.IntRange(0, 3).Draw(t, "mut"+k) {
		case 0:
			c.Set[k] = genKnownValue(t, "nv"+k, k)
		case 1:
			if k != "Installed-Size" { // an int renders "0", never empty
				c.Set[k] = ""
			}
		}
	}
	return c
}

func renderPassDoc(fs []PassField) string {
	p := control.Paragraph{Values: map[string]string{}}
	for _, f := range fs {
		p.Order = append(p.Order, f.Name)
		p.Values[f.Name] = f.Value
	}
	w, _ := writePara(p)
	return w
}

var specC09Pass = Register(&Spec[PassCase]{
	Prop: "C09", Name: "passthrough",
	Rule: "documents interleaving known fields (Package, Version, Depends, Tag list, Installed-Size int, Notes) and unique unknown X-* fields (single- and multi-line values; one in six named like a Go member of a library type - Epoch, Relations, CPU ... - or like the TYPE of a plain struct the destination embeds, PassExtra) are unmarshalled into a struct embedding control.Paragraph and a plain struct; a generated subset of the known fields is then set to new values, cleared, or set from absent; the struct is marshalled. Oracle: unknown fields appear as the same subsequence with identical logical lines; every known field shows the struct's CURRENT rendering (absent when that is empty - an int is never empty); fields present on input keep their relative position; newly set fields come after them. Non-trivial: >= 2 unknown fields and >= 1 changed known field; distinct by (document, changes).",
	Check: func(c PassCase, r *Recorder) error {
		unknown, changed := 0, 0
		inputHas := map[string]string{}
		for _, f := range c.Fields {
			if f.Unknown {
				unknown++
			} else {
				inputHas[f.Name] = f.Value
			}
		}
		for k, v := range c.Set {
			if inputHas[k] != v {
				changed++
			}
		}
		cl := []string{}
		for k, v := range c.Set {
			_, was := inputHas[k]
			switch {
			case v == "" && was:
				cl = append(cl, "cleared")
			case v != "" && !was:
				cl = append(cl, "newly-set")
			case v != "" && was:
				cl = append(cl, "changed")
			}
		}
		nt := unknown >= 2 && changed >= 1
		r.Case(jsonKey(c), nt, cl...)
		if nt {
			r.Sample(c)
		}
		doc := renderPassDoc(c.Fields)
		var x probePass
		if err := control.Unmarshal(&x, strings.NewReader(doc)); err != nil {
			return errf("Unmarshal(%q) failed: %v", doc, err)
		}
		// apply changes
		cur := map[string]string{}
		for k, v := range inputHas {
			cur[k] = v
		}
		for k, v := range c.Set {
			cur[k] = v
			switch k {
			case "Package":
				x.Package = v
			case "Version":
				x.Version = version.Version{}
				if v != "" {
					pv, err := version.Parse(v)
					if err != nil {
						return nil
					}
					x.Version = pv
				}
			case "Depends":
				x.Depends = dependency.Dependency{}
				if v != "" {
					d, err := dependency.Parse(v)
					if err != nil {
						return nil
					}
					x.Depends = *d
				}
			case "Tag":
				x.Tags = nil
				if v != "" {
					x.Tags = strings.Split(v, ", ")
				}
			case "Installed-Size":
				n, _ := strconv.Atoi(v)
				x.Size = n
			case "Notes":
				x.Notes = v
			}
		}
		if _, ok := cur["Installed-Size"]; !ok {
			cur["Installed-Size"] = "0" // an int field is always rendered
		}
		orderBefore := append([]string{}, x.Paragraph.Order...)
		text, err := marshalToText(&x)
		if err != nil {
			return errf("Marshal after changes failed: %v (document %q)", err, doc)
		}
		// marshalling is a read-only operation: the same struct gives the same text again, and the
		// embedded Paragraph it carries is left as it was
		text2, err := marshalToText(&x)
		if err != nil || text2 != text {
			return errf("marshalling the same struct twice gives different text: %q then %q (err %v)", text, text2, err)
		}
		if !strSliceEq(x.Paragraph.Order, orderBefore) {
			return errf("Marshal modified the struct's embedded Paragraph: Order %q became %q", orderBefore, x.Paragraph.Order)
		}
		late := probePassLate{Package: x.Package, Version: x.Version, Depends: x.Depends, Tags: x.Tags, Size: x.Size, Notes: x.Notes, Paragraph: x.Paragraph}
		if textLate, err := marshalToText(&late); err != nil || textLate != text {
			return errf("the same values marshal differently when the struct declares its embedded Paragraph after the known members: %q (err %v) instead of %q (document %q, changes %v)", textLate, err, text, doc, c.Set)
		}
		var lateIn probePassLate
		if err := control.Unmarshal(&lateIn, strings.NewReader(doc)); err != nil || lateIn.Package != inputHas["Package"] || !strSliceEq(lateIn.Paragraph.Order, orderBefore) {
			return errf("Unmarshal(%q) into the struct with the Paragraph declared last: err %v, Package %q, Order %q", doc, err, lateIn.Package, lateIn.Paragraph.Order)
		}
		out, err := paraOfText(text)
		if err != nil {
			return errf("marshalled text %q does not read back: %v", text, err)
		}
		// 1. unknown fields: same subsequence, same logical lines
		var wantUnknown, gotUnknown []string
		for _, f := range c.Fields {
			if f.Unknown {
				wantUnknown = append(wantUnknown, f.Name)
			}
		}
		known := map[string]bool{}
		for _, k := range passKnown {
			known[k] = true
		}
		for _, k := range out.Order {
			if !known[k] {
				gotUnknown = append(gotUnknown, k)
			}
		}
		if !strSliceEq(gotUnknown, wantUnknown) {
			return errf("unknown fields %q came out as %q (document %q, output %q)", wantUnknown, gotUnknown, doc, text)
		}
		for _, f := range c.Fields {
			if f.Unknown && !sameUpToTrailingNewline(out.Values[f.Name], f.Value) {
				return errf("unknown field %q changed from %q to %q (output %q)", f.Name, f.Value, out.Values[f.Name], text)
			}
		}
		// 2. known fields reflect current values
		for _, k := range passKnown {
			want, present := cur[k]
			got, has := out.Values[k]
			if !present || want == "" {
				if has {
					return errf("known field %q should be absent (current value empty) but output has %q (document %q, changes %v, output %q)", k, got, doc, c.Set, text)
				}
				continue
			}
			if !has {
				return errf("known field %q = %q missing from output %q", k, want, text)
			}
			same := got == want
			switch k { // custom types are compared by value, not by spelling
			case "Version":
				gv, e1 := version.Parse(got)
				wv, e2 := version.Parse(want)
				same = e1 == nil && e2 == nil && gv == wv
			case "Depends":
				gd, e1 := dependency.Parse(got)
				wd, e2 := dependency.Parse(want)
				same = e1 == nil && e2 == nil && depStructEq(gd, wd) == nil
			}
			if !same {
				return errf("known field %q shows %q, struct holds %q (document %q, output %q)", k, got, want, doc, text)
			}
		}
		// 3. positions: surviving input fields keep their relative order, new ones follow
		var wantOrder []string
		for _, f := range c.Fields {
			if f.Unknown || cur[f.Name] != "" {
				wantOrder = append(wantOrder, f.Name)
			}
		}
		gotPrefix := out.Order
		if len(gotPrefix) < len(wantOrder) {
			return errf("output fields %q shorter than the surviving input fields %q", out.Order, wantOrder)
		}
		if !strSliceEq(gotPrefix[:len(wantOrder)], wantOrder) {
			return errf("fields present on input moved: input order %q, output order %q", wantOrder, out.Order)
		}
		return nil
	},
})

func TestC09_PassThrough(t *testing.T) {
	specC09Pass.Run(t, genPassCase, 20000, 100000)
}

var _ = reflect.DeepEqual
