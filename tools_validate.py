#!/opt/veriftools/pyvenv/bin/python
"""Validate MANIFEST.json and evidence/*.json against the schemas in /root/.vp."""
import json, sys, glob, jsonschema
ok = True
m = json.load(open('/verif/MANIFEST.json')) if len(sys.argv) < 2 or sys.argv[1] != 'evidence-only' else None
if m is not None:
    try:
        jsonschema.validate(m, json.load(open('/root/.vp/MANIFEST.schema.json'))); print('MANIFEST valid', len(m['checks']), 'checks')
    except Exception as e:
        ok = False; print('MANIFEST INVALID', e)
sch = json.load(open('/root/.vp/EVIDENCE.schema.json'))
for f in sorted(glob.glob('/verif/evidence/*.json')):
    ev = json.load(open(f))
    try:
        jsonschema.validate(ev, sch)
        c = ev['coverage']
        print(f.split('/')[-1], 'valid', ev['tier'], 'evals', c['evaluations'], 'nt', c['distinct_nontrivial'], 'wall', ev['wall_s'], 'viol', ev.get('violations'))
    except Exception as e:
        ok = False; print(f, 'INVALID', str(e)[:300])
sys.exit(0 if ok else 1)
