package props

import (
	"bytes"
	"crypto"
	"encoding/hex"
	"fmt"
	"io"
	"os"
	"path/filepath"
	"reflect"
	"strings"
	"sync"
	"testing"

	"golang.org/x/crypto/openpgp"
	"golang.org/x/crypto/openpgp/armor"
	"golang.org/x/crypto/openpgp/packet"
	"pault.ag/go/debian/deb"
	"pgregory.net/rapid"
)

var (
	pgpOnce sync.Once
	pgpPool []*openpgp.Entity
)

func pgpConfig() *packet.Config {
	return &packet.Config{RSABits: 1024, DefaultHash: crypto.SHA256}
}

// pgpEntities returns a per-process pool of freshly generated OpenPGP
// entities (key material comes from crypto/rand and does not influence any
// verdict; cases carry the serialised public keys they need).
func pgpEntities() []*openpgp.Entity {
	pgpOnce.Do(func() {
		for i := 0; i < 3; i++ {
			e, err := openpgp.NewEntity(fmt.Sprintf("Signer %d", i), "verif", fmt.Sprintf("s%d@example.org", i), pgpConfig())
			if err != nil {
				panic("HARNESS: cannot generate OpenPGP key: " + err.Error())
			}
			// self-signatures are needed for the serialised form to be usable
			for _, id := range e.Identities {
				if err := id.SelfSignature.SignUserId(id.UserId.Id, e.PrimaryKey, e.PrivateKey, pgpConfig()); err != nil {
					panic("HARNESS: " + err.Error())
				}
			}
			pgpPool = append(pgpPool, e)
		}
		plantAmbientKeyrings(pgpPool)
	})
	return pgpPool
}

// plantAmbientKeyrings: in the ambient pass every place a program might look for "the keyrings of
// this machine" - the directories named in VERIF_AMBIENT_KEYDIRS (bind-mounted over
// /usr/share/keyrings and /etc/apt/trusted.gpg.d in a private mount namespace, and ~/.gnupg) -
// holds every key of the pool under every usual file name.  The properties judge a signature
// against the keyring the caller passed, so none of this may change a verdict.
func plantAmbientKeyrings(pool []*openpgp.Entity) {
	dirs := os.Getenv("VERIF_AMBIENT_KEYDIRS")
	if dirs == "" {
		return
	}
	bin := serializePublic(pool...)
	var asc bytes.Buffer
	w, err := armor.Encode(&asc, openpgp.PublicKeyType, nil)
	if err != nil {
		panic("HARNESS: " + err.Error())
	}
	w.Write(bin)
	w.Close()
	names := []string{"debian-keyring.gpg", "debian-maintainers.gpg", "debian-nonupload.gpg", "debian-archive-keyring.gpg",
		"debian-keyring.pgp", "debian-maintainers.pgp", "debian-nonupload.pgp", "debian-role-keys.gpg", "debian-emeritus-keyring.gpg",
		"ubuntu-archive-keyring.gpg", "trusted.gpg", "trustedkeys.gpg", "pubring.gpg", "keyring.gpg", "debsig.gpg"}
	names = append(names, strings.Fields(os.Getenv("VERIF_AMBIENT_KEYNAMES"))...)
	for _, d := range filepath.SplitList(dirs) {
		for _, n := range names {
			content := bin
			if strings.HasSuffix(n, ".asc") {
				content = asc.Bytes()
			} else {
				_ = os.WriteFile(filepath.Join(d, strings.TrimSuffix(n, filepath.Ext(n))+".asc"), asc.Bytes(), 0o644)
			}
			if err := os.WriteFile(filepath.Join(d, n), content, 0o644); err != nil {
				panic("HARNESS: cannot plant " + n + ": " + err.Error())
			}
		}
	}
}

func serializePublic(es ...*openpgp.Entity) []byte {
	var b bytes.Buffer
	for _, e := range es {
		if err := e.Serialize(&b); err != nil {
			panic("HARNESS: " + err.Error())
		}
	}
	return b.Bytes()
}

func fingerprint(e *openpgp.Entity) string {
	if e == nil || e.PrimaryKey == nil {
		return ""
	}
	return hex.EncodeToString(e.PrimaryKey.Fingerprint[:])
}

// SigCase is one (possibly tampered) signed package plus what must happen.
// SigCase.Then: after the first CheckDebsig on a handle, a second call with this keyring
// ("unrelated" / "empty") is made on the SAME handle and must fail.
type SigCase struct {
	Then        string `json:"then,omitempty"`
	ThenKeyring []byte `json:"thenKeyring,omitempty"`
	Raw         []byte `json:"raw"`
	Keyring     []byte `json:"keyring"` // serialised public keys handed to CheckDebsig
	Role        string `json:"role"`    // role asked for
	SignerFP    string `json:"signerFp"`
	Exp         Exp    `json:"exp"`    // control model of the SIGNED package
	Expect      string `json:"expect"` // accept | reject | sigfault
	Fault       string `json:"fault"`
	Reps        int    `json:"reps"`
	// Files, when set (untampered packages), is the payload of the signed package: after a
	// successful check the handle must still deliver it, and a repeated check must agree
	Files []TarFile `json:"files,omitempty"`
	// Sibling, when set: another signed package (same layout and codecs, different payload) that is
	// loaded before and after this one and stays open: what the handles deliver must not mix
	Sibling []byte `json:"sibling,omitempty"`
	// Genuine, when set: Raw (altered, same member sizes) is loaded from a FILE whose handle is
	// closed before the check, while the untampered package Genuine is what the path given to the
	// loader leads to at that moment.  The check is about the members that were loaded.
	Genuine []byte `json:"genuine,omitempty"`
}

// checkClosedHandle: two histories in which the bytes loaded and the bytes at Deb.Path differ.
func checkClosedHandle(c SigCase, keyring openpgp.EntityList) error {
	dir, err := os.MkdirTemp(workDir(), "c16-")
	if err != nil {
		return errf("HARNESS: %v", err)
	}
	defer os.RemoveAll(dir)
	good, bad := filepath.Join(dir, "pkg_1_all.deb"), filepath.Join(dir, "altered.deb")
	if err := os.WriteFile(good, c.Genuine, 0o644); err != nil {
		return errf("HARNESS: %v", err)
	}
	if err := os.WriteFile(bad, c.Raw, 0o644); err != nil {
		return errf("HARNESS: %v", err)
	}
	// (1) Load from an open file, told the name of the genuine copy; the file is closed before the check
	fd, err := os.Open(bad)
	if err != nil {
		return errf("HARNESS: %v", err)
	}
	d, lerr := deb.Load(fd, good)
	fd.Close()
	if lerr == nil {
		if signer, verr := d.CheckDebsig(keyring, c.Role); verr == nil {
			return errf("fault %q: the altered package was loaded from a file (closed since) under the path of the genuine one, and CheckDebsig succeeds (signer %s): it did not judge the members that were loaded", c.Fault, fingerprint(signer))
		}
		d.Close()
	}
	// (2) LoadFile, close, the genuine package is moved to that name, check
	d2, closer, lerr := deb.LoadFile(bad)
	if lerr == nil {
		closer()
		if err := os.Rename(good, bad); err != nil {
			return errf("HARNESS: %v", err)
		}
		if signer, verr := d2.CheckDebsig(keyring, c.Role); verr == nil {
			return errf("fault %q: the altered package was loaded with LoadFile and closed, the genuine one then moved to its name, and CheckDebsig succeeds (signer %s): it did not judge the members that were loaded", c.Fault, fingerprint(signer))
		}
	}
	return nil
}

func checkSigCase(c SigCase, r *Recorder) error {
	nt := c.Expect != "accept"
	r.Case(string(c.Raw)+"|"+c.Role+"|"+string(c.Keyring), nt, "expect:"+c.Expect, "fault:"+faultClass(c.Fault))
	if nt && r != nil {
		r.Sample(map[string]interface{}{"fault": c.Fault, "expect": c.Expect, "role": c.Role, "bytes": len(c.Raw)})
	}
	keyring, err := openpgp.ReadKeyRing(bytes.NewReader(c.Keyring))
	if err != nil && len(c.Keyring) > 0 {
		return errf("HARNESS: keyring unreadable: %v", err)
	}
	if len(keyring) == 0 {
		// "no keys" has two spellings in Go - a nil slice and an empty one: both are empty keyrings
		if len(c.Raw)%2 == 0 {
			keyring = nil
		} else {
			keyring = openpgp.EntityList{}
		}
	}
	if c.Genuine != nil {
		return checkClosedHandle(c, keyring)
	}
	reps := c.Reps
	if reps < 1 {
		reps = 1
	}
	for k := 0; k < reps; k++ {
		var sib1 *deb.Deb
		if c.Sibling != nil {
			sib1, _ = deb.Load(bytes.NewReader(c.Sibling), "sibling.deb")
		}
		d, lerr := deb.Load(bytes.NewReader(c.Raw), "signed.deb")
		if c.Sibling != nil {
			if sib2, err := deb.Load(bytes.NewReader(c.Sibling), "sibling.deb"); err == nil {
				defer sib2.Close()
			}
			if sib1 != nil {
				defer sib1.Close()
			}
		}
		var signer *openpgp.Entity
		var verr error
		if lerr == nil {
			signer, verr = d.CheckDebsig(keyring, c.Role)
			if verr == nil && c.Files != nil && c.Then == "" {
				// verify, then unpack: the payload exposed after the check is the verified one
				got := []TarFile{}
				for {
					h, err := d.Data.Next()
					if err == io.EOF {
						break
					}
					if err != nil {
						d.Close()
						return errf("after a successful CheckDebsig the data tar cannot be read: %v", err)
					}
					tf := TarFile{Name: h.Name, Type: tarTypeName(h.Typeflag), Link: h.Linkname}
					if tf.Type == "reg" {
						tf.Content, _ = io.ReadAll(d.Data)
					}
					got = append(got, tf)
					if len(got) > len(c.Files)+5 {
						break
					}
				}
				if len(got) != len(c.Files) {
					d.Close()
					return errf("after a successful CheckDebsig the data tar lists %d entries, the signed package holds %d", len(got), len(c.Files))
				}
				for i, w := range c.Files {
					if got[i].Name != w.Name || got[i].Type != w.Type || !bytes.Equal(got[i].Content, w.Content) {
						d.Close()
						return errf("after a successful CheckDebsig data tar entry %d is (%s, %d bytes), the signed package holds (%s, %d bytes)", i, got[i].Name, len(got[i].Content), w.Name, len(w.Content))
					}
				}
				// and the same question asked again gets the same answer
				if s2, err2 := d.CheckDebsig(keyring, c.Role); err2 != nil || fingerprint(s2) != fingerprint(signer) {
					d.Close()
					return errf("a second CheckDebsig on the same handle, same keyring, gives (%s, %v) after the first gave (%s, nil)", fingerprint(s2), err2, fingerprint(signer))
				}
			}
			if c.Then != "" {
				// a verdict must not outlive the call: asking the same handle again with a keyring
				// that does not hold the signer has to fail, whatever happened before
				kr2, _ := openpgp.ReadKeyRing(bytes.NewReader(c.ThenKeyring))
				if s2, err2 := d.CheckDebsig(kr2, c.Role); err2 == nil {
					d.Close()
					return errf("after a first CheckDebsig (error: %v) a second call on the same handle with an %s keyring succeeded (signer %s)", verr, c.Then, fingerprint(s2))
				}
				// ... and neither may a fresh handle on the same bytes, asked with the SAME keyring slice
				// after its contents were replaced in place
				if len(keyring) > 0 {
					inplace := keyring // same backing array
					saved := append(openpgp.EntityList{}, keyring...)
					for i := range inplace {
						if len(kr2) > 0 {
							inplace[i] = kr2[0]
						}
					}
					if len(kr2) == 0 {
						inplace = inplace[:0]
					}
					if d3, err3 := deb.Load(bytes.NewReader(c.Raw), "signed.deb"); err3 == nil {
						s3, verr3 := d3.CheckDebsig(inplace, c.Role)
						d3.Close()
						if verr3 == nil {
							return errf("a fresh load of the same bytes verified against the keyring slice after its contents were replaced in place by an %s keyring (signer %s)", c.Then, fingerprint(s3))
						}
					}
					copy(keyring[:len(saved)], saved)
				}
			}
			d.Close()
		}
		both := lerr == nil && verr == nil
		if both {
			// what was verified must be what was loaded
			if err := compareStruct(reflect.ValueOf(d.Control), c.Exp, "Deb.Control"); err != nil {
				return errf("fault %q (repetition %d): load and signature check both succeed but the control data exposed is not the signed one: %v", c.Fault, k, err)
			}
			if fingerprint(signer) != c.SignerFP {
				return errf("fault %q: verification succeeded with signer %s, the package was signed by %s", c.Fault, fingerprint(signer), c.SignerFP)
			}
		} else if verr != nil && signer != nil {
			return errf("fault %q: CheckDebsig returned an error AND a signer", c.Fault)
		}
		if both && strings.HasPrefix(c.Fault, "sig+") && strings.Contains(c.Fault, "foreign-signature") {
			r.Count("accepted-next-to-somebody-elses-signatures", 1)
		}
		switch c.Expect {
		case "accept":
			if !both {
				return errf("untampered signed package rejected: load error %v, verification error %v", lerr, verr)
			}
		case "reject":
			if both {
				return errf("fault %q (repetition %d): load and signature check both succeed", c.Fault, k)
			}
		}
		r.Evals(1)
	}
	return nil
}

// foreignPackets: well-formed OpenPGP packets that are not signatures (new-format headers).
var foreignPackets = map[string][]byte{
	"user-id-packet":      append([]byte{0xCD, 10}, []byte("x <x@y.zz>")...),
	"literal-data-packet": append([]byte{0xCB, 9}, []byte{'b', 0, 0, 0, 0, 0, 'd', 'a', 't'}...),
	// ... and signature packets with nothing in them: a header that says "signature, 0 bytes" in
	// the old and the new format, and one of indeterminate length
	"empty-signature-packet-old-format":        {0x88, 0x00},
	"empty-signature-packet-new-format":        {0xC2, 0x00},
	"signature-header-of-indeterminate-length": {0x8B},
	"signature-packet-of-one-byte":             {0xC2, 0x01, 0x04},
}

// pgpHeaderLen: the length of the packet header the signature starts with (0 = not understood).
func pgpHeaderLen(p []byte) int {
	if len(p) < 3 || p[0]&0x80 == 0 {
		return 0
	}
	if p[0]&0x40 != 0 { // new format
		switch l := p[1]; {
		case l < 192:
			return 2
		case l < 224:
			return 3
		case l == 255:
			return 6
		}
		return 0
	}
	switch p[0] & 3 {
	case 0:
		return 2
	case 1:
		return 3
	case 2:
		return 5
	}
	return 0
}

// foreignSigOfSize builds a version-4 RSA signature packet of exactly `total` bytes (297 .. 65000)
// by a key nobody knows (issuer 0x0102030405060708): creation time plus one private-use subpacket
// (type 100, not critical) of the length that makes up the size. A reader of a signature block
// takes it for somebody else's signature.
func foreignSigOfSize(total int) []byte {
	d := total - 296
	if d < 0 || d > 65000 {
		return nil
	}
	hashed := []byte{5, 2, 0x65, 0x53, 0xF1, 0x00} // creation time
	hashed = append(hashed, 0xFF, byte((1+d)>>24), byte((1+d)>>16), byte((1+d)>>8), byte(1+d), 100)
	hashed = append(hashed, bytes.Repeat([]byte{'n'}, d)...)
	body := []byte{4, 0, 1, 8, byte(len(hashed) >> 8), byte(len(hashed))}
	body = append(body, hashed...)
	body = append(body, 0, 10, 9, 16, 1, 2, 3, 4, 5, 6, 7, 8) // unhashed: issuer
	body = append(body, 0xAB, 0xCD)                           // left 16 bits of the hash
	body = append(body, 0x08, 0x00)                           // MPI of 2048 bits
	mpi := bytes.Repeat([]byte{0x5A}, 256)
	mpi[0] = 0x9A
	body = append(body, mpi...)
	n := len(body)
	return append([]byte{0xC2, 0xFF, byte(n >> 24), byte(n >> 16), byte(n >> 8), byte(n)}, body...)
}

// pgpFillTo returns the signature p followed by foreign signatures so that together they are
// exactly `total` bytes long (nil when total is too small).
func pgpFillTo(p []byte, total int) []byte {
	rest := total - len(p)
	if rest < 297 {
		return nil
	}
	out := append([]byte{}, p...)
	for rest > 0 {
		chunk := rest
		if chunk > 60000 {
			chunk = 60000
			if rest-chunk < 297 {
				chunk = rest - 297
			}
		}
		f := foreignSigOfSize(chunk)
		if f == nil || len(f) != chunk {
			return nil
		}
		out = append(out, f...)
		rest -= chunk
	}
	return out
}

func faultClass(f string) string {
	for i := 0; i < len(f); i++ {
		if f[i] == '@' || f[i] == ':' {
			return f[:i]
		}
	}
	return f
}

// buildSigned builds a signed package and returns its bytes, member list and
// the offset of every member's data.
func buildSigned(m DebModel, signer *openpgp.Entity, role string) ([]byte, []ArMember, error) {
	m.Extra, m.Slash, m.Omit = nil, false, ""
	_, members, err := buildDeb(m)
	if err != nil {
		return nil, nil, err
	}
	var msg bytes.Buffer
	for _, mem := range members {
		msg.Write(mem.Data)
	}
	var sig bytes.Buffer
	if err := openpgp.DetachSign(&sig, signer, &msg, pgpConfig()); err != nil {
		return nil, nil, err
	}
	members = append(members, ArMember{Name: "_gpg" + role, MTime: 1700000000, Mode: "100644", Data: sig.Bytes()})
	return renderAr(members), members, nil
}

type SignedBase struct {
	M    DebModel `json:"m"`
	Role string   `json:"role"`
	Key  int      `json:"key"`
}

func genSignedBase(t *rapid.T) SignedBase {
	m := genSmallDebModel(t)
	m.CtlCodec = rapid.SampledFrom([]string{"", "gz", "zst"}).Draw(t, "cc")
	m.DataCodec = rapid.SampledFrom([]string{"", "gz", "zst"}).Draw(t, "dc")
	if len(m.DataFiles) > 3 {
		m.DataFiles = m.DataFiles[:3]
	}
	for i := range m.DataFiles {
		if len(m.DataFiles[i].Content) > 600 {
			m.DataFiles[i].Content = m.DataFiles[i].Content[:600]
		}
	}
	return SignedBase{M: m, Role: rapid.SampledFrom([]string{"origin", "maint", "archive"}).Draw(t, "role"), Key: rapid.IntRange(0, 2).Draw(t, "key")}
}

var specC16 = Register(&Spec[SigCase]{
	Prop: "C16", Name: "debsig",
	Rule:  "fault enumeration over generated debsig-signed packages (C14 models with stored/gzip/zstd members, role in {origin, maint, archive}, RSA signer from a per-process pool, detached binary signature over debian-binary|control|data in '_gpg<role>'): the untampered package with the signer in the keyring (accept - and after the check the handle still delivers the signed payload, and a repeated check agrees; the same with another signed package of the same layout loaded before and after it and left open); EVERY single-byte XOR 0x01 inside the three signed members (reject); a decoy control.*/data.* member with a different extension (a stored tar carrying 'Package: evil', or a copy) a same-name duplicate with changed content, and EMPTY ones (a bare 60-byte header, also with a blank size column) inserted at EVERY member position - the end of the file included -, each loaded 64 times (reject); a decoy behind a run of 60 .. 128 NUL / newline bytes that follows the genuine members (reject); a decoy named the GNU way - a '//' name table plus a member '/0' - at every position (must fail or expose the signed content); a role that is not present (another role, another case, or the signature member named for the role plus a tab, NULs, a CR, a dot), an unrelated keyring, an empty keyring - nil slice or empty slice - (reject); data and control swapped in the file with a signature made over the file-order concatenation (reject) or the genuine one (must fail or expose the signed content); a second CheckDebsig on the same handle with an unrelated or empty keyring after a successful first one (the second must fail); EVERY single-byte XOR inside the signature member (must fail or still verify the unmodified content); per signed member one altered byte in a package loaded from a FILE that is closed before the check while its path (or the path told to Load) leads to the genuine package (reject); the signature member followed by junk, a NUL byte, a newline, CR LF, a blank or 0xff, a truncated or a damaged second signature, followed by the first k bytes of a second copy for EVERY k; the good signature in front of or behind a signature of a key nobody knows, and followed by such signatures (sized by a private-use subpacket) that fill the member to exactly 4 KiB, 64 KiB or 1 MiB (accepted - then the payload handed out after the check is the signed one - or refused for a reason of its own) and then by junk, a damaged copy of the good one or a user-ID packet (reject); with a well-formed user-ID or literal-data packet or an empty / one-byte / indeterminate-length signature packet in front of or behind it, and a second copy whose version, public-key-algorithm or hash-algorithm byte lost a bit (five masks) in front of or behind the good one (reject); the signature member replaced by its ASCII-armored form, alone (either outcome), with a foreign/empty keyring and with flipped bytes in each signed member (reject). Oracle: reject => Load or CheckDebsig fails on every repetition; always: if both succeed, the control data exposed equals the signed package's model and the signer is the signing entity. Non-trivial: every faulted case; distinct by (bytes, role, keyring).",
	Check: checkSigCase,
})

func enumerateSigFaults(b SignedBase, yield func(SigCase) bool) bool {
	pool := pgpEntities()
	signer := pool[b.Key%len(pool)]
	other := pool[(b.Key+1)%len(pool)]
	raw, members, err := buildSigned(b.M, signer, b.Role)
	if err != nil {
		panic("HARNESS: " + err.Error())
	}
	base := SigCase{Keyring: serializePublic(signer), Role: b.Role, SignerFP: fingerprint(signer), Exp: b.M.Exp}
	mk := func(raw []byte, expect, fault string, reps int) SigCase {
		c := base
		c.Raw, c.Expect, c.Fault, c.Reps = raw, expect, fault, reps
		return c
	}
	acc := mk(raw, "accept", "none", 2)
	acc.Files = append([]TarFile{}, b.M.DataFiles...)
	if !yield(acc) {
		return false
	}
	// the same with a sibling package open on either side
	sibM := b.M
	sibM.DataFiles = nil
	for _, f := range b.M.DataFiles {
		g := f
		if g.Type == "reg" {
			g.Content = append([]byte("SIBLING PAYLOAD "), g.Content...)
		}
		g.Name = strings.Replace(g.Name, "./", "./sib-", 1)
		sibM.DataFiles = append(sibM.DataFiles, g)
	}
	sibM.DataFiles = append(sibM.DataFiles, TarFile{Name: "./sibling-only", Type: "reg", Content: []byte("x")})
	if sibRaw, _, err := buildSigned(sibM, other, b.Role); err == nil {
		acc2 := mk(raw, "accept", "none-with-sibling-open", 1)
		acc2.Files = append([]TarFile{}, b.M.DataFiles...)
		acc2.Sibling = sibRaw
		if !yield(acc2) {
			return false
		}
	}
	// signer among others
	c := mk(raw, "accept", "none-signer-among-others", 1)
	c.Keyring = serializePublic(other, signer)
	if !yield(c) {
		return false
	}
	// two calls on one handle
	c = mk(raw, "accept", "then:unrelated-keyring", 1)
	c.Then, c.ThenKeyring = "unrelated", serializePublic(other)
	if !yield(c) {
		return false
	}
	c = mk(raw, "accept", "then:empty-keyring", 1)
	c.Then = "empty"
	if !yield(c) {
		return false
	}
	// keyrings / roles
	c = mk(raw, "reject", "keyring:unrelated", 1)
	c.Keyring = serializePublic(other)
	if !yield(c) {
		return false
	}
	c = mk(raw, "reject", "keyring:empty", 1)
	c.Keyring = nil
	if !yield(c) {
		return false
	}
	for _, role := range []string{"origin", "maint", "archive", "", "Origin", "builder"} {
		if role != b.Role {
			c = mk(raw, "reject", "role:"+role, 1)
			c.Role = role
			if !yield(c) {
				return false
			}
		}
	}
	// ... and a member that is ALMOST named for the role - the name with a tab, NULs, a blank and a
	// tab, a CR or a dot behind it, or in another case - is not the role's signature either
	for _, suffix := range []string{"\t", "\x00\x00", " \t", "\r", ".", "\v", "_"} {
		if len("_gpg"+b.Role+suffix) > 16 {
			continue
		}
		rm := append([]ArMember{}, members...)
		rm[len(rm)-1].Name = "_gpg" + b.Role + suffix
		if !yield(mk(renderAr(rm), "reject", "role:near-name", 1)) {
			return false
		}
	}
	// byte faults
	offs := memberOffsets(members)
	for i, mem := range members {
		start := offs[i] + 60
		for k := 0; k < len(mem.Data); k++ {
			mut := append([]byte{}, raw...)
			mut[start+k] ^= 0x01
			expect, fault := "reject", fmt.Sprintf("flip:%s@%d", mem.Name, k)
			if i == len(members)-1 {
				expect, fault = "sigfault", fmt.Sprintf("sigflip:%s@%d", mem.Name, k)
			}
			if !yield(mk(mut, expect, fault, 1)) {
				return false
			}
		}
	}
	// the signature is over debian-binary, control, data in THAT order, wherever the members stand
	// in the archive: with control and data swapped in the file, a signature over the file-order
	// concatenation is not a signature of the package (and the genuine one may still verify)
	if len(members) == 4 {
		swapped := []ArMember{members[0], members[2], members[1]}
		var msg bytes.Buffer
		for _, mem := range swapped {
			msg.Write(mem.Data)
		}
		var sig bytes.Buffer
		if err := openpgp.DetachSign(&sig, signer, &msg, pgpConfig()); err == nil {
			sm := append(append([]ArMember{}, swapped...), ArMember{Name: members[3].Name, MTime: 1700000000, Mode: "100644", Data: sig.Bytes()})
			if !yield(mk(renderAr(sm), "reject", "members-swapped+signature-over-file-order", 1)) {
				return false
			}
			// the genuine signature with the members swapped in the file: either outcome, but what is
			// exposed must be the signed content
			gm := append(append([]ArMember{}, swapped...), members[3])
			if !yield(mk(renderAr(gm), "sigfault", "members-swapped+genuine-signature", 1)) {
				return false
			}
		}
	}
	// the check is about the members that were loaded, not about what a path leads to later: one
	// altered byte per signed member, loaded from a file that is closed (and replaced) before the check
	for i := 0; i < len(members)-1; i++ {
		if len(members[i].Data) == 0 {
			continue
		}
		mut := append([]byte{}, raw...)
		mut[offs[i]+60+len(members[i].Data)/2] ^= 0x01
		c := mk(mut, "reject", fmt.Sprintf("closed-handle-flip:%s", members[i].Name), 1)
		c.Genuine = raw
		if !yield(c) {
			return false
		}
	}
	// the signature member is "a valid detached signature" - not one followed by something else
	{
		sig := members[len(members)-1].Data
		flipped := append([]byte{}, sig...)
		flipped[len(flipped)-3] ^= 1
		for name, tail := range map[string][]byte{"junk": []byte("JUNK"), "nul": {0}, "newline": {'\n'}, "crlf": {'\r', '\n'}, "blank": {' '}, "0xff": {0xff}, "truncated-second": sig[:len(sig)/2], "damaged-second": flipped} {
			sm := append([]ArMember{}, members...)
			sm[len(sm)-1].Data = append(append([]byte{}, sig...), tail...)
			if !yield(mk(renderAr(sm), "reject", "sig+"+name, 2)) {
				return false
			}
		}
	}
	// ... however long the member is: signatures by keys nobody knows (somebody else's signatures,
	// sized by a private-use subpacket) behind the good one fill it to exactly 4 KiB, 64 KiB or
	// 1 MiB (a packet boundary on the mark), and the junk, the damaged copy or the packet that is no
	// signature comes behind that
	{
		sig := members[len(members)-1].Data
		flipped := append([]byte{}, sig...)
		flipped[len(flipped)-3] ^= 1
		for order, two := range [][]byte{append(append([]byte{}, sig...), foreignSigOfSize(400)...), append(append([]byte{}, foreignSigOfSize(400)...), sig...)} {
			sm := append([]ArMember{}, members...)
			sm[len(sm)-1].Data = two
			fc := mk(renderAr(sm), "sigfault", fmt.Sprintf("sig+one-foreign-signature/%d", order), 2)
			fc.Files = append([]TarFile{}, b.M.DataFiles...)
			if !yield(fc) {
				return false
			}
		}
		for _, total := range []int{4096, 65536, 1 << 20} {
			fill := pgpFillTo(sig, total)
			if fill == nil {
				continue
			}
			sm := append([]ArMember{}, members...)
			sm[len(sm)-1].Data = fill
			fc := mk(renderAr(sm), "sigfault", fmt.Sprintf("sig+foreign-signatures-filling:%d", total), 1)
			fc.Files = append([]TarFile{}, b.M.DataFiles...) // if it verifies, the payload handed out afterwards is the signed one
			if !yield(fc) {
				return false
			}
			for name, tail := range map[string][]byte{"junk": []byte("JUNK"), "damaged-copy": flipped, "user-id-packet": foreignPackets["user-id-packet"]} {
				if tail == nil {
					continue
				}
				sm := append([]ArMember{}, members...)
				sm[len(sm)-1].Data = append(append([]byte{}, fill...), tail...)
				if !yield(mk(renderAr(sm), "reject", fmt.Sprintf("sig+foreign-signatures-filling+%s:%d", name, total), 1)) {
					return false
				}
			}
		}
	}
	// ... nor one followed by the beginning of a second copy, cut at any length
	{
		sig := members[len(members)-1].Data
		for k := 1; k < len(sig); k++ {
			sm := append([]ArMember{}, members...)
			sm[len(sm)-1].Data = append(append([]byte{}, sig...), sig[:k]...)
			if !yield(mk(renderAr(sm), "reject", fmt.Sprintf("sig+second-cut@%d", k), 1)) {
				return false
			}
		}
	}
	// ... nor one with well-formed packets of another kind next to it
	{
		sig := members[len(members)-1].Data
		for name, pkt := range foreignPackets {
			for order, two := range [][]byte{append(append([]byte{}, sig...), pkt...), append(append([]byte{}, pkt...), sig...)} {
				sm := append([]ArMember{}, members...)
				sm[len(sm)-1].Data = two
				if !yield(mk(renderAr(sm), "reject", fmt.Sprintf("sig+foreign-packet:%s/%d", name, order), 1)) {
					return false
				}
			}
		}
	}
	// ... nor one next to a signature whose header lost a bit: the version, public-key-algorithm
	// and hash-algorithm bytes of a second copy (a reader that cannot make sense of a packet has
	// not verified it), in front of and behind the good one
	{
		sig := members[len(members)-1].Data
		if hdr := pgpHeaderLen(sig); hdr > 0 && hdr+4 < len(sig) {
			for _, off := range []int{0, 2, 3} {
				for _, mask := range []byte{0x01, 0x02, 0x10, 0x40, 0x80} {
					bad := append([]byte{}, sig...)
					bad[hdr+off] ^= mask
					for order, two := range [][]byte{append(append([]byte{}, sig...), bad...), append(append([]byte{}, bad...), sig...)} {
						sm := append([]ArMember{}, members...)
						sm[len(sm)-1].Data = two
						if !yield(mk(renderAr(sm), "reject", fmt.Sprintf("sig+header-damaged-second:%d^%02x/%d", off, mask, order), 1)) {
							return false
						}
					}
				}
			}
		}
	}
	// the same signature in ASCII armor (what `gpg -a -b` writes): whether or not that form is
	// understood, it must never make a tampered package or a foreign keyring acceptable
	{
		var arm bytes.Buffer
		if w, err := armor.Encode(&arm, "PGP SIGNATURE", nil); err == nil {
			w.Write(members[len(members)-1].Data)
			w.Close()
			am := append([]ArMember{}, members...)
			am[len(am)-1].Data = append(arm.Bytes(), '\n')
			araw := renderAr(am)
			aoffs := memberOffsets(am)
			if !yield(mk(araw, "sigfault", "armored-sig", 1)) {
				return false
			}
			c := mk(araw, "reject", "armored-sig+keyring:unrelated", 1)
			c.Keyring = serializePublic(other)
			if !yield(c) {
				return false
			}
			c = mk(araw, "reject", "armored-sig+keyring:empty", 1)
			c.Keyring = nil
			if !yield(c) {
				return false
			}
			for i := 0; i < len(am)-1; i++ {
				for _, k := range []int{0, len(am[i].Data) / 2, len(am[i].Data) - 1} {
					if k < 0 || k >= len(am[i].Data) {
						continue
					}
					mut := append([]byte{}, araw...)
					mut[aoffs[i]+60+k] ^= 0x01
					if !yield(mk(mut, "reject", fmt.Sprintf("armored-sig+flip:%s@%d", am[i].Name, k), 1)) {
						return false
					}
				}
			}
		}
	}
	// decoys at every position
	evilTar, _ := buildTar([]TarFile{{Name: "./control", Type: "reg", Content: []byte("Package: evil\nVersion: 6.6.6\nArchitecture: all\nMaintainer: Mallory <m@example.org>\nDescription: evil\n")}})
	evilGz, _ := compress("gz", evilTar)
	var decoys []ArMember
	ctlName, dataName := members[1].Name, members[2].Name
	if ctlName == "control.tar" {
		decoys = append(decoys, ArMember{Name: "control.tar.gz", Mode: "100644", Data: evilGz})
	} else {
		decoys = append(decoys, ArMember{Name: "control.tar", Mode: "100644", Data: evilTar})
	}
	decoys = append(decoys, ArMember{Name: ctlName, Mode: "100644", Data: map[bool][]byte{true: evilTar, false: evilGz}[ctlName == "control.tar"]}) // same-name duplicate, other content
	emptyTar, _ := buildTar(nil)
	emptyGz, _ := compress("gz", emptyTar)
	if dataName == "data.tar" {
		decoys = append(decoys, ArMember{Name: "data.tar.gz", Mode: "100644", Data: emptyGz})
	} else {
		decoys = append(decoys, ArMember{Name: "data.tar", Mode: "100644", Data: emptyTar})
	}
	decoys = append(decoys, ArMember{Name: dataName, Mode: "100644", Data: map[bool][]byte{true: emptyTar, false: emptyGz}[dataName == "data.tar"]})
	// members that merely carry the prefix (no tarball name) are second control/data members too
	decoys = append(decoys, ArMember{Name: "data.orig", Mode: "100644", Data: emptyTar}, ArMember{Name: "control.orig", Mode: "100644", Data: evilTar},
		ArMember{Name: "data.", Mode: "100644", Data: []byte("x")}, ArMember{Name: "control.tar.Z", Mode: "100644", Data: evilTar},
		// tarball names with something between the prefix and ".tar"
		ArMember{Name: "control.old.tar", Mode: "100644", Data: evilTar}, ArMember{Name: "control.1.tar.gz", Mode: "100644", Data: evilGz}, ArMember{Name: "data.bak.tar", Mode: "100644", Data: emptyTar})
	// ... and so are empty ones: a bare header, also as the very last thing in the file
	decoys = append(decoys, ArMember{Name: "control.tar.xz", Mode: "100644", Data: []byte{}}, ArMember{Name: "data.tar.xz", Mode: "100644", Data: []byte{}},
		ArMember{Name: "control.tar.bz2", Mode: "100644", Data: []byte{}, BlankSize: true}, ArMember{Name: "data.sig", Mode: "100644", Data: []byte{}})
	// swap: the signed member keeps its bytes under a non-tarball name and a substitute takes its place
	for _, which := range []int{1, 2} {
		ms := append([]ArMember{}, members...)
		orig := ms[which]
		subst := orig
		if which == 1 {
			subst.Data = map[bool][]byte{true: evilTar, false: evilGz}[orig.Name == "control.tar"]
			orig.Name = "control.orig"
		} else {
			subst.Data = map[bool][]byte{true: emptyTar, false: emptyGz}[orig.Name == "data.tar"]
			orig.Name = "data.orig"
		}
		for _, order := range [][2]ArMember{{orig, subst}, {subst, orig}} {
			swapped := append(append(append([]ArMember{}, ms[:which]...), order[0], order[1]), ms[which+1:]...)
			if !yield(mk(renderAr(swapped), "reject", fmt.Sprintf("decoy:swap-%s", orig.Name), 64)) {
				return false
			}
		}
	}
	// a decoy that only a GNU-ar reader would call control.tar.gz / data.tar: its name column says
	// "/0" and the name stands in a "//" table member. To this reader those are two members of no
	// interest - whatever it makes of them, what it exposes has to be what it verified
	for _, ln := range []struct {
		table string
		data  []byte
	}{{"control.tar.gz/\n", evilGz}, {"control.tar/\n", evilTar}, {"data.tar/\n", emptyTar}} {
		for pos := 1; pos <= len(members); pos++ {
			ms := append(append(append([]ArMember{}, members[:pos]...), ArMember{Name: "//", Mode: "", BlankMode: true, BlankM: true, BlankU: true, BlankG: true, Data: []byte(ln.table)}, ArMember{Name: "/0", Mode: "100644", Data: ln.data}), members[pos:]...)
			if !yield(mk(renderAr(ms), "sigfault", fmt.Sprintf("decoy:gnu-longname-%s@%d", strings.TrimSpace(ln.table), pos), 64)) {
				return false
			}
		}
	}
	for _, dcy := range decoys {
		for pos := 0; pos <= len(members); pos++ {
			ms := append(append(append([]ArMember{}, members[:pos]...), dcy), members[pos:]...)
			if !yield(mk(renderAr(ms), "reject", fmt.Sprintf("decoy:%s@%d", dcy.Name, pos), 64)) {
				return false
			}
		}
	}
	// a decoy behind what a tolerant reader takes for the end of the archive: a run of 60 bytes or
	// more of NUL or newline padding behind the genuine members, then the decoy member
	for di, dcy := range decoys {
		if di > 2 {
			break
		}
		for _, pad := range [][]byte{bytes.Repeat([]byte{0}, 60), bytes.Repeat([]byte{'\n'}, 60), bytes.Repeat([]byte{0}, 128), bytes.Repeat([]byte{'\n', 0}, 61)} {
			rawPad := append(append(append([]byte{}, raw...), pad...), renderAr([]ArMember{dcy})[len(arMagic):]...)
			if !yield(mk(rawPad, "reject", fmt.Sprintf("decoy-behind-padding:%s/%d", dcy.Name, len(pad)), 2)) {
				return false
			}
		}
	}
	return true
}

func TestC16_DebsigExh(t *testing.T) {
	n := pickN(6, 40)
	var bases []SignedBase
	sink := &Spec[SignedBase]{Check: func(b SignedBase, r *Recorder) error { bases = append(bases, b); return nil }}
	rapidCollect(t, sink, genSignedBase, n)
	specC16.Enumerate(t, true, func(_ *Recorder, yield func(SigCase) bool) {
		for _, b := range bases {
			if !enumerateSigFaults(b, yield) {
				return
			}
		}
	})
}
