package props

import (
	"bytes"
	"fmt"
	"golang.org/x/crypto/openpgp/armor"
	"io"
	"strings"
	"testing"

	"golang.org/x/crypto/openpgp"
	"golang.org/x/crypto/openpgp/clearsign"
	"pault.ag/go/debian/control"
	"pgregory.net/rapid"
)

type ClearsignCase struct {
	Input       []byte     `json:"input"`
	Keyring     []byte     `json:"keyring"` // serialised public keys (may be empty)
	SignerFP    string     `json:"signerFp"`
	SignerInKR  bool       `json:"signerInKeyring"`
	Want        []ParaWant `json:"want"` // paragraphs of the signed text
	Fault       string     `json:"fault"`
	MustSucceed bool       `json:"mustSucceed"` // untampered + signer in keyring
	// MustFail: the signature armor itself is damaged beyond doubt (a character of its CRC-24
	// line replaced by another base64 character): reading has to fail
	MustFail bool `json:"mustFail,omitempty"`
	// ThenKeyring: after the first read, the SAME keyring variable is changed in place to these
	// keys (which do not include the signer; may be none) and the same bytes are read again - that
	// second read must fail.
	Then        string `json:"then,omitempty"`
	ThenKeyring []byte `json:"thenKeyring,omitempty"`
}

const pgpPrefix = "-----BEGIN PGP "

// armoredSignatureBytes decodes the signature armor of a clearsigned document with the armor
// package itself (nil when there is none or it does not decode).
func armoredSignatureBytes(doc []byte) []byte {
	i := bytes.Index(doc, []byte("-----BEGIN PGP SIGNATURE-----"))
	if i < 0 {
		return nil
	}
	blk, err := armor.Decode(bytes.NewReader(doc[i:]))
	if err != nil {
		return nil
	}
	b, err := io.ReadAll(blk.Body)
	if err != nil {
		return nil
	}
	return b
}

func signDoc(text string, signer *openpgp.Entity) ([]byte, error) {
	var buf bytes.Buffer
	w, err := clearsign.Encode(&buf, signer.PrivateKey, pgpConfig())
	if err != nil {
		return nil, err
	}
	if _, err := w.Write([]byte(text)); err != nil {
		return nil, err
	}
	if err := w.Close(); err != nil {
		return nil, err
	}
	buf.WriteByte('\n')
	return buf.Bytes(), nil
}

func checkClearsign(c ClearsignCase, r *Recorder) error {
	r.Case(string(c.Input)+"|"+string(c.Keyring), c.Fault != "none", "fault:"+faultClass(c.Fault))
	if c.Fault != "none" {
		r.Sample(map[string]interface{}{"fault": c.Fault, "bytes": len(c.Input), "signerInKeyring": c.SignerInKR})
	}
	kr, err := openpgp.ReadKeyRing(bytes.NewReader(c.Keyring))
	if err != nil && len(c.Keyring) > 0 {
		return errf("HARNESS: keyring unreadable: %v", err)
	}
	armored := bytes.HasPrefix(c.Input, []byte(pgpPrefix))
	if len(kr) == 0 {
		// an empty keyring has two spellings in Go - a nil slice (var kr openpgp.EntityList, or
		// appending zero keys) and an empty non-nil one; both are "a keyring with no keys in it"
		var nilSlice openpgp.EntityList
		if err := checkClearsignWith(c, nilSlice, armored, "nil-slice keyring"); err != nil {
			return err
		}
		kr = openpgp.EntityList{}
	}
	if err := checkClearsignWith(c, kr, armored, ""); err != nil {
		return err
	}
	if c.Then != "" {
		shared := append(openpgp.EntityList{}, kr...)
		ptr := &shared
		for round := 0; round < 2; round++ { // warm any state keyed by this very object
			if pr, err := control.NewParagraphReader(bytes.NewReader(c.Input), ptr); err == nil {
				_, _ = pr.All()
			}
			if dec, err := control.NewDecoder(bytes.NewReader(c.Input), ptr); err == nil {
				var hs []paraHolder
				_ = dec.Decode(&hs)
			}
		}
		kr2, _ := openpgp.ReadKeyRing(bytes.NewReader(c.ThenKeyring))
		shared = shared[:0]
		shared = append(shared, kr2...)
		if pr, err := control.NewParagraphReader(bytes.NewReader(c.Input), ptr); err == nil {
			if ps, err := pr.All(); err == nil {
				return errf("after the keyring object was changed in place to an %s keyring, the same clearsigned bytes were accepted again (%d paragraphs, signer %s)", c.Then, len(ps), fingerprint(pr.Signer()))
			}
		}
		if dec, err := control.NewDecoder(bytes.NewReader(c.Input), ptr); err == nil {
			var hs []paraHolder
			if err := dec.Decode(&hs); err == nil {
				return errf("after the keyring object was changed in place to an %s keyring, Decoder accepted the same clearsigned bytes again (signer %s)", c.Then, fingerprint(dec.Signer()))
			}
		}
	}
	return nil
}

func checkClearsignWith(c ClearsignCase, kr openpgp.EntityList, armored bool, krNote string) error {

	judge := func(how string, paras []control.Paragraph, signer *openpgp.Entity, rerr error) error {
		if krNote != "" {
			how += " (" + krNote + ")"
		}
		if rerr == nil && c.MustFail {
			return errf("%s: a clearsigned document whose signature armor is damaged (fault %s: the checksum line is altered, or bytes follow the signature inside the armor) was accepted, signer %s", how, c.Fault, fingerprint(signer))
		}
		if rerr != nil {
			if c.MustSucceed {
				return errf("%s: correctly signed document with the signer in the keyring was rejected: %v", how, rerr)
			}
			return nil
		}
		if !armored {
			if signer != nil {
				return errf("%s: a signer is reported for input that is not a clearsigned document (fault %s)", how, c.Fault)
			}
			return nil
		}
		// armored input accepted: needs a verified signer from the keyring over exactly the signed text
		if signer == nil {
			return errf("%s: clearsigned input (fault %s) was accepted without any verified signer although a keyring was supplied", how, c.Fault)
		}
		if !c.SignerInKR {
			return errf("%s: input accepted with signer %s although the signing key is not in the keyring (fault %s)", how, fingerprint(signer), c.Fault)
		}
		if fingerprint(signer) != c.SignerFP {
			return errf("%s: reported signer %s is not the signing entity %s", how, fingerprint(signer), c.SignerFP)
		}
		if err := parasMatch(paras, c.Want, how); err != nil {
			return errf("fault %s: accepted with a valid signer but the paragraphs are not those of the signed text: %v", c.Fault, err)
		}
		return nil
	}

	pr, err := control.NewParagraphReader(bytes.NewReader(c.Input), &kr)
	var paras []control.Paragraph
	var signer *openpgp.Entity
	if err == nil {
		paras, err = pr.All()
		signer = pr.Signer()
	}
	if e := judge("ParagraphReader", paras, signer, err); e != nil {
		return e
	}
	dec, err := control.NewDecoder(bytes.NewReader(c.Input), &kr)
	paras, signer = nil, nil
	if err == nil {
		var hs []paraHolder
		err = dec.Decode(&hs)
		for _, h := range hs {
			paras = append(paras, h.Paragraph)
		}
		signer = dec.Signer()
	}
	if e := judge("Decoder", paras, signer, err); e != nil {
		return e
	}
	// a typed slice variable that was filled from UNSIGNED text before: after the signed document
	// was decoded into it, every member says what the signed paragraph says - nothing of the earlier
	// text sits in a member the signed paragraph does not mention
	var ts []c11Typed
	if err := control.Unmarshal(&ts, strings.NewReader("X-Unsigned-Note: evil 1\nPackage: evil\n\nX-Unsigned-Note: evil 2\nPackage: evil\n\nX-Unsigned-Note: evil 3\n\nX-Unsigned-Note: evil 4\n")); err != nil || len(ts) != 4 {
		return errf("HARNESS: %v", err)
	}
	if dec3, err := control.NewDecoder(bytes.NewReader(c.Input), &kr); err == nil && armored {
		if err := dec3.Decode(&ts); err == nil && dec3.Signer() != nil {
			for i, e := range ts {
				if e.Note != e.Values["X-Unsigned-Note"] || e.Pkg != e.Values["Package"] {
					return errf("a typed slice that held unsigned text before, decoded into with a verified signer (%s): element %d has X-Unsigned-Note=%q Package=%q, the signed paragraph says %q / %q", fingerprint(dec3.Signer()), i, e.Note, e.Pkg, e.Values["X-Unsigned-Note"], e.Values["Package"])
				}
			}
		}
	}
	return nil
}

type c11Typed struct {
	control.Paragraph
	Note string `control:"X-Unsigned-Note"`
	Pkg  string `control:"Package"`
}

var specC11 = Register(&Spec[ClearsignCase]{
	Prop: "C11", Name: "clearsign",
	Rule:  "fault enumeration over clearsigned documents: C07 documents (1..3 paragraphs, LF; a third with a field of Latin-1 / non-UTF-8 bytes) signed with clearsign.Encode by an RSA entity from a per-process pool; keyring = signer only / signer among others / others only / empty for the unmutated document and for signed documents with an empty or blank body; the same keyring OBJECT changed in place (to other keys, to no keys) between two reads of the same bytes - the second read must fail; then with the signer in the keyring EVERY single-byte substitution (XOR 0x01, XOR 0x20, 'A'; at line ends also CR, LF, blank, tab, NUL, VT, FF, 0x85), EVERY single-byte deletion, EVERY single-byte insertion ('A', blank, newline), EVERY truncation length, splices of a foreign paragraph before the armor, inside the signed text, between text and signature, inside the signature armor and after it, replacement of the signature by that of another key or of another text, and removal of the signature block; a second complete clearsigned document appended (same signer, other signer, a replay of the first); the binary signature truncated at 8 lengths or with one byte flipped (every byte in the thorough tier, every 7th in quick) and armored afresh with a correct checksum, alone and under an altered text; a good signature followed by junk, a NUL byte, a newline, CR LF, a blank, two newlines or 0xff, a truncated or a damaged second signature (one byte flipped near its end; each of its first 12 bytes - packet header, version, type, public-key and hash algorithm, subpacket length - set to four other values), or with a well-formed user-ID or literal-data packet or an empty / one-byte / indeterminate-length signature packet in front of or behind it, inside a fresh armor; and for EVERY generated edit: if the armor then delivers the original signature plus further bytes, reading must fail; each character of the armor's CRC-24 line replaced by other printable characters, also with an armor-END look-alike or a whole second signed document behind the damaged block, or an armor-END look-alike line between the base64 data and a well-formed checksum line that is not the signature's (must fail: the signature is damaged, as gpgv says too). Oracle: reading (ParagraphReader.All and Decoder.Decode; also Decode into a typed slice variable that held four elements of unsigned text before - no member may keep any of it) ends in an error, or succeeds with Signer() == signing entity in the keyring and paragraphs == those of the signed text; success with a nil signer is allowed only when the input no longer starts with the armor header; the unmutated document with the signer in the keyring must be accepted. Non-trivial: every faulted case; distinct by (bytes, keyring).",
	Check: checkClearsign,
})

type SignBase struct {
	Doc DocCase `json:"doc"`
	Key int     `json:"key"`
}

func genSignBase(t *rapid.T) SignBase {
	d := genDocCase(t, 3)
	for len(d.Want) == 0 {
		d = genDocCase(t, 3)
	}
	d.Text = strings.ReplaceAll(d.Text, "\r\n", "\n")
	if rapid.IntRange(0, 2).Draw(t, "latin1") == 0 {
		// the signed text is bytes, not UTF-8: a Latin-1 name in a field (old changelogs and
		// control files are full of them) is signed, verified and handed out as it is
		if _, clash := d.Want[0].Values["X-Latin1"]; !clash {
			v := rapid.SampledFrom([]string{"caf\xe9 \xfcber", "\xff\xfe", "J\xf6rg M\xfcller <j@m.de>", "a\x80b", "\xc3", "\xe9"}).Draw(t, "latin1v")
			d.Text = "X-Latin1: " + v + "\n" + strings.TrimLeft(d.Text, "\n")
			d.Want[0].Order = append([]string{"X-Latin1"}, d.Want[0].Order...)
			d.Want[0].Values["X-Latin1"] = v
		}
	}
	return SignBase{Doc: d, Key: rapid.IntRange(0, 2).Draw(t, "key")}
}

func enumerateClearsignFaults(b SignBase, thorough bool, yield func(ClearsignCase) bool) bool {
	pool := pgpEntities()
	signer, other := pool[b.Key%len(pool)], pool[(b.Key+1)%len(pool)]
	signed, err := signDoc(b.Doc.Text, signer)
	if err != nil {
		panic("HARNESS: " + err.Error())
	}
	base := ClearsignCase{Keyring: serializePublic(signer), SignerFP: fingerprint(signer), SignerInKR: true, Want: b.Doc.Want}
	origSig := armoredSignatureBytes(signed)
	mk := func(in []byte, fault string) ClearsignCase {
		c := base
		c.Input, c.Fault = in, fault
		// whatever the edit was: if the armor now delivers the signature that was made PLUS further
		// bytes, the signature block is damaged (it is not "a signature" any more) and reading has to fail
		if got := armoredSignatureBytes(in); origSig != nil && len(got) > len(origSig) && bytes.HasPrefix(got, origSig) {
			c.MustFail = true
		}
		return c
	}
	c := mk(signed, "none")
	c.MustSucceed = true
	if !yield(c) {
		return false
	}
	c = mk(signed, "none")
	c.Keyring, c.MustSucceed = serializePublic(other, signer), true
	if !yield(c) {
		return false
	}
	c = mk(signed, "then:keyring-changed-to-others")
	c.MustSucceed, c.Then, c.ThenKeyring = true, "unrelated", serializePublic(other)
	if !yield(c) {
		return false
	}
	c = mk(signed, "then:keyring-emptied")
	c.MustSucceed, c.Then = true, "empty"
	if !yield(c) {
		return false
	}
	c = mk(signed, "keyring:others-only")
	c.Keyring, c.SignerInKR = serializePublic(other), false
	if !yield(c) {
		return false
	}
	c = mk(signed, "keyring:empty")
	c.Keyring, c.SignerInKR = nil, false
	if !yield(c) {
		return false
	}
	// a signed document with nothing in it is a signed document: the signature is checked before
	// anyone looks at how much text there is
	for bi, body := range []string{"", "\n", "\n\n \n"} {
		if empty, err := signDoc(body, signer); err == nil {
			ec := base
			ec.Input, ec.Want = empty, nil
			for _, kc := range []struct {
				name string
				kr   []byte
				in   bool
			}{{"signer", serializePublic(signer), true}, {"others-only", serializePublic(other), false}, {"empty", nil, false}} {
				c := ec
				c.Fault, c.Keyring, c.SignerInKR = fmt.Sprintf("empty-body-%d+keyring:%s", bi, kc.name), kc.kr, kc.in
				if !yield(c) {
					return false
				}
			}
		}
	}
	n := len(signed)
	mut := func(f func(out []byte) []byte) []byte { return f(append([]byte{}, signed...)) }
	// the armor checksum: the line "=XXXX" before the END line of the signature
	crcAt := -1
	if k := bytes.LastIndex(signed, []byte("\n=")); k >= 0 && k+6 < len(signed) && signed[k+6] == '\n' {
		crcAt = k + 2
	}
	for i := 0; crcAt >= 0 && i < 4; i++ {
		for _, repl := range []byte{'A', 'b', '7', '/', '=', '+', '-', '!', '_'} {
			if signed[crcAt+i] == repl {
				continue
			}
			p := crcAt + i
			c := mk(mut(func(o []byte) []byte { o[p] = repl; return o }), fmt.Sprintf("armor-crc-%c@%d", repl, i))
			c.MustFail = true
			if !yield(c) {
				return false
			}
		}
	}
	// a damaged checksum line stays damaged whatever follows the signature armor: loose text that
	// looks like an armor END line, or a whole second signed document with a good checksum of its own
	if crcAt >= 0 {
		p := crcAt + 3
		bad := mut(func(o []byte) []byte { o[p] = '='; return o })
		if signed[crcAt+3] != 'A' {
			bad2 := mut(func(o []byte) []byte { o[p] = 'A'; return o })
			c := mk(append(append([]byte{}, bad2...), []byte("\nTrailing: text\n-----END PGP SIGNATURE-----\n")...), "armor-crc-A+trailing-end-line")
			c.MustFail = true
			if !yield(c) {
				return false
			}
		}
		for name, tail := range map[string][]byte{"trailing-end-line": []byte("\nTrailing: text\n=AAAA\n-----END PGP SIGNATURE-----\n"), "second-document": signed} {
			c := mk(append(append([]byte{}, bad...), tail...), "armor-crc-=+"+name)
			c.MustFail = true
			if !yield(c) {
				return false
			}
		}
	}
	// ... and whatever stands IN FRONT of it: a line that looks like the end of some armor between the
	// base64 data and a checksum line that is well-formed but not this signature's (the END line of
	// a signature armor itself would end the armor, the rest being loose text behind it: not this)
	if crcAt >= 0 {
		for li, look := range []string{"-----END PGP MESSAGE-----\n", "-----END PGP PUBLIC KEY BLOCK-----\n", "-----END X-----\n", "-----END \n"} {
			for ci, wrong := range []string{"AAAA", "////", string(signed[crcAt+1:crcAt+4]) + string(signed[crcAt])} {
				if wrong == string(signed[crcAt:crcAt+4]) {
					continue
				}
				in := append([]byte{}, signed[:crcAt-1]...)
				in = append(in, look...)
				in = append(in, '=')
				in = append(in, wrong...)
				in = append(in, signed[crcAt+4:]...)
				c := mk(in, fmt.Sprintf("armor-end-lookalike-%d-before-wrong-crc-%d", li, ci))
				c.MustFail = true
				if !yield(c) {
					return false
				}
			}
		}
	}
	for i := 0; i < n; i++ {
		for _, x := range []byte{0x01, 0x20} {
			if !yield(mk(mut(func(o []byte) []byte { o[i] ^= x; return o }), fmt.Sprintf("subst-xor%02x@%d", x, i))) {
				return false
			}
		}
		if signed[i] != 'A' {
			if !yield(mk(mut(func(o []byte) []byte { o[i] = 'A'; return o }), fmt.Sprintf("subst-A@%d", i))) {
				return false
			}
		}
		// line ends are where text-mode signatures are lenient: the other line-end byte, a blank, a
		// tab, a NUL in the place of a line feed (and of a carriage return)
		if signed[i] == '\n' || signed[i] == '\r' {
			for _, nl := range []byte{'\r', '\n', ' ', '\t', 0, '\v', '\f', 0x85} {
				if nl != signed[i] {
					if !yield(mk(mut(func(o []byte) []byte { o[i] = nl; return o }), fmt.Sprintf("subst-lineend-%02x@%d", nl, i))) {
						return false
					}
				}
			}
		}
		if !yield(mk(mut(func(o []byte) []byte { return append(o[:i], o[i+1:]...) }), fmt.Sprintf("delete@%d", i))) {
			return false
		}
		for _, ins := range []byte{'A', ' ', '\n'} {
			if !yield(mk(mut(func(o []byte) []byte { return append(o[:i], append([]byte{ins}, o[i:]...)...) }), fmt.Sprintf("insert%q@%d", ins, i))) {
				return false
			}
		}
		if !yield(mk(signed[:i], fmt.Sprintf("truncate@%d", i))) {
			return false
		}
	}
	// splices
	foreign := "Evil: yes\nPackage: evil\n\n"
	s := string(signed)
	sigStart := strings.Index(s, "-----BEGIN PGP SIGNATURE-----")
	sigEnd := strings.Index(s, "-----END PGP SIGNATURE-----")
	textStart := strings.Index(s, "\n\n") + 2
	splice := func(at int, what string) []byte { return []byte(s[:at] + what + s[at:]) }
	if sigStart > 0 && sigEnd > sigStart && textStart > 1 {
		cases := map[string][]byte{
			"splice:before-armor":         splice(0, foreign),
			"splice:inside-text-start":    splice(textStart, foreign),
			"splice:inside-text-end":      splice(sigStart, "\nEvil: yes\n"),
			"splice:between-text-and-sig": splice(sigStart, foreign),
			"splice:inside-sig-armor":     splice(sigStart+len("-----BEGIN PGP SIGNATURE-----\n"), "Evil: yes\n"),
			"splice:after-armor":          []byte(s + foreign),
			"splice:after-armor-noblank":  []byte(strings.TrimRight(s, "\n") + "\nEvil: yes\n"),
			"sig:removed":                 []byte(s[:sigStart]),
			"sig:removed-keep-end":        []byte(s[:sigStart] + s[sigEnd:]),
			"armor:lowercase-header":      []byte(strings.Replace(s, "-----BEGIN PGP SIGNED MESSAGE-----", "-----BEGIN PGP signed message-----", 1)),
			"armor:hash-header-changed":   []byte(strings.Replace(s, "Hash: SHA256", "Hash: SHA512", 1)),
			"armor:hash-header-removed":   []byte(strings.Replace(s, "Hash: SHA256\n", "", 1)),
			// the armor line made unparsable for the OpenPGP decoder but not for a deb822 reader, signature dropped:
			// nothing here is signed any more, so nothing of it may be accepted under the armor header
			"armor:header-junk+sig-removed":   []byte(strings.Replace(s[:sigStart], "-----BEGIN PGP SIGNED MESSAGE-----\n", "-----BEGIN PGP SIGNED MESSAGE-----: x\n", 1)),
			"armor:header-junk+sig-commented": []byte(strings.Replace(s[:sigStart], "-----BEGIN PGP SIGNED MESSAGE-----\n", "-----BEGIN PGP SIGNED MESSAGE-----: x\n", 1) + "#" + strings.Replace(s[sigStart:], "\n", "\n#", -1) + "\n"),
			"armor:header-junk+sig-as-field":  []byte(strings.Replace(s[:sigStart], "-----BEGIN PGP SIGNED MESSAGE-----\n", "-----BEGIN PGP SIGNED MESSAGE-----: x\n", 1) + "\nSig: x\n " + strings.Replace(strings.TrimRight(s[sigStart:], "\n"), "\n", "\n ", -1) + "\n"),
		}
		// signature swapped for one by another key / over another text
		if otherSigned, err := signDoc(b.Doc.Text, other); err == nil {
			os := string(otherSigned)
			cases["sig:by-other-key"] = []byte(s[:sigStart] + os[strings.Index(os, "-----BEGIN PGP SIGNATURE-----"):])
		}
		if otherText, err := signDoc(b.Doc.Text+"Evil: yes\n", signer); err == nil {
			os := string(otherText)
			cases["sig:over-other-text"] = []byte(s[:sigStart] + os[strings.Index(os, "-----BEGIN PGP SIGNATURE-----"):])
			// ... and the other way round: other text, this signature
			cases["text:other-text-this-sig"] = []byte(os[:strings.Index(os, "-----BEGIN PGP SIGNATURE-----")] + s[sigStart:])
		}
		// a second complete clearsigned document behind the first one (the same text signed again,
		// another text by the same key, a text by another key that is in the keyring too): only the
		// first block is "the signed text"; nothing after its signature may come back
		if second, err := signDoc("Evil: yes\nPackage: evil\n", signer); err == nil {
			cases["second-block:same-signer"] = []byte(s + string(second))
			cases["second-block:same-signer-after-junk"] = []byte(s + "Loose: text\n\n" + string(second))
		}
		if second, err := signDoc("Evil: yes\nPackage: evil\n", other); err == nil {
			cases["second-block:other-signer"] = []byte(s + string(second))
		}
		cases["second-block:replay"] = []byte(s + s)
		// damage UNDER a valid armor: the binary signature is cut short or has a byte flipped and is
		// then armored afresh (correct CRC-24), so only the OpenPGP layer can notice - alone, and
		// together with an altered signed text
		if blk, err := armor.Decode(strings.NewReader(s[sigStart:])); err == nil {
			if bin, err := io.ReadAll(blk.Body); err == nil && len(bin) > 8 {
				rearmor := func(b []byte) string {
					var out bytes.Buffer
					w, err := armor.Encode(&out, "PGP SIGNATURE", nil)
					if err != nil {
						return ""
					}
					w.Write(b)
					w.Close()
					return out.String() + "\n"
				}
				// a good signature followed by something else inside a fresh, well-formed armor
				for name, tail := range map[string][]byte{"junk": []byte("JUNK"), "one-byte": {0x00}, "newline": {'\n'}, "crlf": {'\r', '\n'}, "blank": {' '}, "two-newlines": {'\n', '\n'}, "0xff": {0xff}, "truncated-second-signature": bin[:len(bin)/2], "second-signature-flipped": func() []byte { f := append([]byte{}, bin...); f[len(f)-3] ^= 1; return f }()} {
					if a := rearmor(append(append([]byte{}, bin...), tail...)); a != "" {
						c := []byte(s[:sigStart] + a)
						cases["rearmored:good-signature+"+name] = c
					}
				}
				// ... followed by a second copy of itself with one byte of the packet header or of the
				// signature's own header (version, type, public-key algorithm, hash algorithm, subpacket
				// length) set to something else: a signature of the same key that is damaged where the
				// parser looks first - "unsupported" is not "somebody else's"
				for i := 0; i < 12 && i < len(bin); i++ {
					for _, v := range []byte{bin[i] ^ 0x01, 0xff, 0x63, 0x00, 0x05} {
						if v == bin[i] {
							continue
						}
						f := append([]byte{}, bin...)
						f[i] = v
						if a := rearmor(append(append([]byte{}, bin...), f...)); a != "" {
							cases[fmt.Sprintf("rearmored:good-signature+copy-with-byte-%02d-set-to-%02x", i, v)] = []byte(s[:sigStart] + a)
						}
					}
				}
				// ... or with well-formed packets that are not signatures next to it (a user ID, literal
				// data): a signature block is signatures
				for name, pkt := range foreignPackets {
					if a := rearmor(append(append([]byte{}, bin...), pkt...)); a != "" {
						cases["rearmored:good-signature+"+name] = []byte(s[:sigStart] + a)
					}
					if a := rearmor(append(append([]byte{}, pkt...), bin...)); a != "" {
						cases["rearmored:"+name+"+good-signature"] = []byte(s[:sigStart] + a)
					}
				}
				forgedText := strings.Replace(s[:sigStart], "\n\n", "\n\nEvil: yes\n", 1)
				for _, k := range []int{0, 1, 2, 3, 10, len(bin) / 2, len(bin) - 10, len(bin) - 1} {
					if k < 0 || k >= len(bin) {
						continue
					}
					if a := rearmor(bin[:k]); a != "" {
						cases[fmt.Sprintf("rearmored:truncated@%d", k)] = []byte(s[:sigStart] + a)
						cases[fmt.Sprintf("rearmored:truncated@%d+forged-text", k)] = []byte(forgedText + a)
					}
				}
				step := 1
				if !thorough {
					step = 7
				}
				for i := 0; i < len(bin); i += step {
					fl := append([]byte{}, bin...)
					fl[i] ^= 0x01
					if a := rearmor(fl); a != "" {
						cases[fmt.Sprintf("rearmored:flip@%03d", i)] = []byte(s[:sigStart] + a)
					}
				}
			}
		}
		names := []string{}
		for k := range cases {
			names = append(names, k)
		}
		sortStrings(names)
		for _, k := range names {
			c := mk(cases[k], k)
			if strings.HasPrefix(k, "second-block:") {
				c.Keyring = serializePublic(signer, other) // both signers are trusted: still only the first block counts
			}
			if !yield(c) {
				return false
			}
		}
	}
	return true
}

func TestC11_ClearsignExh(t *testing.T) {
	n := pickN(5, 120)
	var bases []SignBase
	sink := &Spec[SignBase]{Check: func(b SignBase, r *Recorder) error { bases = append(bases, b); return nil }}
	rapidCollect(t, sink, genSignBase, n)
	specC11.Enumerate(t, true, func(_ *Recorder, yield func(ClearsignCase) bool) {
		for _, b := range bases {
			if !enumerateClearsignFaults(b, tier() == "thorough", yield) {
				return
			}
		}
	})
}
