package props

import (
	"bufio"
	"bytes"
	"fmt"
	"os/exec"
	"strings"
	"testing"

	"pault.ag/go/debian/dependency"
	"pgregory.net/rapid"
)

type DepCase struct {
	AST    DepAST `json:"ast"`
	Text   string `json:"text"`
	Scheme string `json:"scheme"`
}

func checkDepCase(c DepCase, r *Recorder) error {
	alts, kinds, svr := astFeatures(c.AST)
	spaced := c.Scheme != "W0" && c.Scheme != "S0-canonical" && c.Scheme != "S1-minimal" && c.Scheme != "S2-double" && c.Scheme != "S9-inner-only"
	nt := alts >= 2 || kinds >= 2 || spaced || svr
	cl := []string{"scheme:" + c.Scheme}
	if kinds >= 2 {
		cl = append(cl, "multi-clause")
	}
	if svr {
		cl = append(cl, "substvar-next-to-restricted")
	}
	for _, rel := range c.AST.Rels {
		for _, a := range rel.Alts {
			if len(a.Order) >= 2 {
				cl = append(cl, "order:"+clauseOrderShape(a.Order))
			}
		}
	}
	r.Case(c.Text, nt, cl...)
	if nt {
		r.Sample(c.Text)
	}
	dep, err := dependency.Parse(c.Text)
	if err != nil {
		return errf("Parse(%q) rejected a well-formed field: %v", c.Text, err)
	}
	if err := compareDepToAST(dep, c.AST); err != nil {
		return errf("Parse(%q): %v", c.Text, err)
	}
	// results are the caller's: scribbling over one must not show up in a later parse of the same text
	scribbleDep(dep)
	again, err := dependency.Parse(c.Text)
	if err != nil {
		return errf("second Parse(%q) failed: %v", c.Text, err)
	}
	if err := compareDepToAST(again, c.AST); err != nil {
		return errf("Parse(%q) after the caller modified an earlier result for the same text: %v", c.Text, err)
	}
	var viaControl dependency.Dependency
	if err := viaControl.UnmarshalControl(c.Text); err != nil {
		return errf("UnmarshalControl(%q) rejected a well-formed field: %v", c.Text, err)
	}
	if err := compareDepToAST(&viaControl, c.AST); err != nil {
		return errf("UnmarshalControl(%q): %v", c.Text, err)
	}
	// one variable decoded into repeatedly: the new value replaces the old one completely, and a
	// copy kept of the earlier value is not rewritten by the later call
	keep := viaControl
	if err := viaControl.UnmarshalControl("zzz-other (>= 9) [sparc] <x> | ${other:Var}, zzz-two"); err != nil {
		return errf("UnmarshalControl of a second field into the same variable failed: %v", err)
	}
	if err := compareDepToAST(&keep, c.AST); err != nil {
		return errf("a copy kept of UnmarshalControl(%q) changed when the same variable was unmarshalled into again: %v", c.Text, err)
	}
	if err := viaControl.UnmarshalControl(c.Text); err != nil {
		return errf("UnmarshalControl(%q) into a used variable: %v", c.Text, err)
	}
	if err := compareDepToAST(&viaControl, c.AST); err != nil {
		return errf("UnmarshalControl(%q) into a variable that held another field before: %v", c.Text, err)
	}
	return nil
}

func clauseOrderShape(order []string) string {
	s := ""
	for _, c := range order {
		s += c[:1]
	}
	return s
}

// ------------------------------------------------------------------ C04/small (bounded-exhaustive)

var specC04Small = Register(&Spec[DepCase]{
	Prop: "C04", Name: "small",
	Rule:  "bounded-exhaustive: every single alternative over {substvar} + package x {no qualifier, ':any'} x {no version, '(>= 1.0-1)'} x {no list, [a b], [!a !b]} x {0,1,2 profile groups} in EVERY clause order, alone and combined as second alternative / second relation with 8 representative partners, each rendered under 10 fixed spacing schemes (canonical, minimal, double, folded, folded+newline, tabs, newlines, newline+indent, CRLF, inner-minimal). Oracle: Parse and UnmarshalControl return exactly the AST. Non-trivial: >=2 alternatives, >=2 clause kinds, non-space whitespace, or substvar next to a restricted alternative; distinct by text.",
	Check: checkDepCase,
})

func permutations(xs []string) [][]string {
	if len(xs) <= 1 {
		return [][]string{append([]string{}, xs...)}
	}
	out := [][]string{}
	for i := range xs {
		rest := append(append([]string{}, xs[:i]...), xs[i+1:]...)
		for _, p := range permutations(rest) {
			out = append(out, append([]string{xs[i]}, p...))
		}
	}
	return out
}

func smallAlts() []AltAST {
	out := []AltAST{{Substvar: true, Name: "misc:Depends"}}
	for _, qual := range []string{"", "any"} {
		for _, ver := range []bool{false, true} {
			for archMode := 0; archMode < 3; archMode++ {
				for np := 0; np <= 2; np++ {
					base := AltAST{Name: "foo", Qual: qual}
					clauses := []string{}
					if ver {
						base.HasVer, base.Op, base.Ver = true, ">=", "1.0-1"
						clauses = append(clauses, "v")
					}
					if archMode > 0 {
						base.Archs = []string{"amd64", "kfreebsd-any"}
						base.ArchNot = archMode == 2
						clauses = append(clauses, "a")
					}
					groups := [][]ProfTerm{{{Name: "stage1"}, {Not: true, Name: "nocheck"}}, {{Not: true, Name: "cross"}}}
					for g := 0; g < np; g++ {
						base.Profiles = append(base.Profiles, groups[g])
						clauses = append(clauses, fmt.Sprintf("p%d", g))
					}
					seen := map[string]bool{}
					for _, perm := range permutations(clauses) {
						// renumber profile groups in order of appearance
						k := 0
						ord := make([]string, len(perm))
						for i, c := range perm {
							if c[0] == 'p' {
								ord[i] = fmt.Sprintf("p%d", k)
								k++
							} else {
								ord[i] = c
							}
						}
						key := strings.Join(ord, ",")
						if seen[key] {
							continue
						}
						seen[key] = true
						a := base
						a.Order = ord
						out = append(out, a)
					}
				}
			}
		}
	}
	return out
}

func TestC04_SmallExh(t *testing.T) {
	alts := smallAlts()
	partners := []AltAST{
		{Substvar: true, Name: "shlibs:Depends"},
		{Name: "bar"},
		{Name: "bar", Qual: "native"},
		{Name: "bar", HasVer: true, Op: "<<", Ver: "2:3~rc1", Order: []string{"v"}},
		{Name: "bar", Archs: []string{"i386"}, Order: []string{"a"}},
		{Name: "bar", ArchNot: true, Archs: []string{"linux-any"}, Order: []string{"a"}},
		{Name: "bar", Profiles: [][]ProfTerm{{{Name: "nodoc"}}}, Order: []string{"p0"}},
		{Name: "bar", HasVer: true, Op: "=", Ver: "1", Archs: []string{"amd64"}, Profiles: [][]ProfTerm{{{Not: true, Name: "stage1"}}}, Order: []string{"a", "p0", "v"}},
	}
	schemes := []string{}
	for name := range fixedSchemes {
		schemes = append(schemes, name)
	}
	sortStrings(schemes)
	specC04Small.Enumerate(t, true, func(_ *Recorder, yield func(DepCase) bool) {
		emit := func(ast DepAST) bool {
			for _, sn := range schemes {
				if !yield(DepCase{AST: ast, Text: renderDep(ast, fixedSchemes[sn]), Scheme: sn}) {
					return false
				}
			}
			return true
		}
		for _, a := range alts {
			if !emit(DepAST{Rels: []RelAST{{Alts: []AltAST{a}}}}) {
				return
			}
			for _, p := range partners {
				if !emit(DepAST{Rels: []RelAST{{Alts: []AltAST{a, p}}}}) ||
					!emit(DepAST{Rels: []RelAST{{Alts: []AltAST{p, a}}}}) ||
					!emit(DepAST{Rels: []RelAST{{Alts: []AltAST{a}}, {Alts: []AltAST{p}}}}) ||
					!emit(DepAST{Rels: []RelAST{{Alts: []AltAST{p}}, {Alts: []AltAST{a}}}}) {
					return
				}
			}
		}
	})
}

func sortStrings(xs []string) {
	for i := 1; i < len(xs); i++ {
		for j := i; j > 0 && xs[j] < xs[j-1]; j-- {
			xs[j], xs[j-1] = xs[j-1], xs[j]
		}
	}
}

// ------------------------------------------------------------------ C04/random

func genDepCase(t *rapid.T) DepCase {
	ast := genDepAST(t, "d", 6, 4, true)
	class := rapid.SampledFrom([]string{"W0", "W1", "W2", "W2"}).Draw(t, "class")
	return DepCase{AST: ast, Text: renderDep(ast, rapidSpacer{t: t, class: class}), Scheme: class}
}

var specC04Random = Register(&Spec[DepCase]{
	Prop: "C04", Name: "random",
	Rule:  "random dependency ASTs (1..6 relations x 1..4 alternatives; substvars; package names incl. + . -; ':arch' qualifiers of 1/2/3 parts; one '(op version)' with the five operators and Policy-grammar versions; one [arch...] list of 1..4 names all negated or none; 0..3 <profile> groups of 1..3 terms with optional '!'; clauses in a generated order) rendered by an independent renderer with per-gap whitespace drawn from class W0 (spaces only), W1 (+ newline-space folding at ',' and '|') or W2 (spaces, tabs, newlines, CRLF anywhere whitespace is legal, trailing newline). Oracle and non-trivial rule as C04/small.",
	Check: checkDepCase,
})

func TestC04_Random(t *testing.T) {
	specC04Random.Run(t, genDepCase, 25000, 200000)
}

// ------------------------------------------------------------------ C04/malformed

type BadDep struct {
	Text  string `json:"text"`
	Class string `json:"class"`
}

func genBadDep(t *rapid.T) BadDep {
	// a valid prefix of other relations, in canonical spacing
	prefix := ""
	if rapid.Bool().Draw(t, "hasPrefix") {
		prefix = renderDep(genDepAST(t, "pre", 2, 2, true), canonicalSpacer) + ", "
	}
	name := genPkgName(t, "name")
	ver := genSimpleVersion(t, "ver")
	op := rapid.SampledFrom(operators).Draw(t, "op")
	a1, a2 := genArchName(t, "a1"), genArchName(t, "a2")
	p1, p2 := rapid.SampledFrom(profileNames).Draw(t, "p1"), rapid.SampledFrom(profileNames).Draw(t, "p2")
	class := rapid.SampledFrom([]string{"unterminated-bracket", "unterminated-paren", "unterminated-profile", "unterminated-substvar",
		"mixed-negation", "second-version", "second-arch-list", "unknown-operator-U1", "unknown-operator-U2", "two-names", "substvar-junk", "nul-byte", "dollar-without-brace", "unknown-operator-U3", "opener-inside-clause", "nameless-restriction", "unknown-operator-U0", "misplaced-negation", "empty-clause", "separator-inside-clause"}).Draw(t, "class")
	var tail string
	// a valid ", rel" or " | alt" may follow every corruption: no construct of
	// the grammar contains ',' or '|', so a closer further right belongs to a
	// later relation and never terminates this one
	suffixOK := true
	switch class {
	case "unterminated-bracket":
		tail = rapid.SampledFrom([]string{
			name + "[" + a1, name + "[!" + a1, name + "(" + op + ver + ")[" + a1,
			name + " [" + a1, name + " [" + a1 + " " + a2, name + " [!" + a1, name + " (" + op + " " + ver + ") [" + a1, name + " [", name + " [" + a1 + " ",
		}).Draw(t, "v")
	case "unterminated-paren":
		tail = rapid.SampledFrom([]string{
			name + " (" + op + " " + ver, name + " (" + op, name + " (", name + " (" + op + " ", name + " [" + a1 + "] (" + op + " " + ver,
			name + "(" + op + ver, name + "(" + op, name + "[" + a1 + "](" + op + ver,
		}).Draw(t, "v")
	case "unterminated-profile":
		tail = rapid.SampledFrom([]string{
			name + "<" + p1, name + "<!" + p1, name + "[" + a1 + "]<" + p1,
			name + " <" + p1, name + " <" + p1 + " " + p2, name + " <!" + p1, name + " <", name + " <" + p1 + "> <" + p2, name + " <" + p1 + " ",
		}).Draw(t, "v")
	case "unterminated-substvar":
		tail = rapid.SampledFrom([]string{"${" + "misc:Depends", "${", "${foo", name + " | ${shlibs:Depends"}).Draw(t, "v")
	case "mixed-negation":
		// 2..6 entries, all negated but one or none negated but one, at any position
		n := rapid.IntRange(2, 6).Draw(t, "mn")
		odd := rapid.IntRange(0, n-1).Draw(t, "modd")
		base := rapid.Bool().Draw(t, "mbase")
		items := []string{}
		for i := 0; i < n; i++ {
			neg := base
			if i == odd {
				neg = !base
			}
			it := genArchName(t, "ma")
			if neg {
				it = "!" + it
			}
			items = append(items, it)
		}
		tail = name + " [" + strings.Join(items, " ") + "]"
		suffixOK = true
	case "second-version":
		tail = rapid.SampledFrom([]string{
			name + " (" + op + " " + ver + ") (<< 9)", name + " (>= 1) [" + a1 + "] (" + op + " " + ver + ")", name + " (>= 1) <" + p1 + "> (<= 2)", name + "(>= 1)(<= 2)",
		}).Draw(t, "v")
		suffixOK = true
	case "second-arch-list":
		tail = rapid.SampledFrom([]string{
			name + " [" + a1 + "] [" + a2 + "]", name + " [!" + a1 + "] (" + op + " " + ver + ") [!" + a2 + "]", name + " [" + a1 + "] <" + p1 + "> [" + a2 + "]",
			name + " [] [" + a1 + "]", name + " [ ] [!" + a1 + " !" + a2 + "]", name + " [] (" + op + " " + ver + ") []", name + " [" + a1 + "] []",
		}).Draw(t, "v")
		suffixOK = true
	case "unknown-operator-U1":
		bad := rapid.SampledFrom([]string{"~=", "!=", "><", "<>", "~", "^", "~>", "eq", "ge", "<~", ">~"}).Draw(t, "bad")
		tail = name + " (" + bad + " " + ver + ")"
		suffixOK = true
	case "unknown-operator-U2":
		bad := rapid.SampledFrom([]string{"==", "=>", "=<"}).Draw(t, "bad")
		tail = name + " (" + bad + " " + ver + ")"
		suffixOK = true
	case "unknown-operator-U0":
		// half an operator: the single '<' and '>' of before Policy 3.5 (what deleting one byte of
		// '<<' '<=' '>=' '>>' leaves, or replacing it by a blank or a digit) are not among the five
		bad := rapid.SampledFrom([]string{"<", ">", "<", ">", "!", "~", "-", "+"}).Draw(t, "bad0")
		tail = name + rapid.SampledFrom([]string{" (", "("}).Draw(t, "b0p") + bad + rapid.SampledFrom([]string{" ", "", "\t", "  ", " \n "}).Draw(t, "b0s") + ver + rapid.SampledFrom([]string{")", " )"}).Draw(t, "b0c")
		if rapid.IntRange(0, 7).Draw(t, "b0bare") == 0 {
			tail = name + " (" + bad + ")"
		}
		suffixOK = true
	case "separator-inside-clause":
		// a ',' or '|' ends the relation / the alternative wherever it stands: inside an open
		// clause it leaves that clause unterminated (the closer further on belongs to nobody)
		sep := rapid.SampledFrom([]string{",", ", ", " , ", "|", " | ", "| "}).Draw(t, "sepIn")
		tail = rapid.SampledFrom([]string{
			name + " [" + a1 + sep + a2 + "]", name + " [!" + a1 + sep + "!" + a2 + "]", name + " <" + p1 + sep + p2 + ">", name + " (" + op + sep + ver + ")",
			name + " (" + op + " " + ver + sep + ver + ")", name + " [" + a1 + sep + "]", name + " <" + sep + p1 + ">", name + " [" + a1 + "] <" + p1 + sep + "!" + p2 + ">",
		}).Draw(t, "v")
		suffixOK = true
	case "misplaced-negation":
		// a '!' that is not the first character of its term negates nothing the grammar knows:
		// <nocheck!> is not <!nocheck>, [amd64!] is not [!amd64]
		tail = rapid.SampledFrom([]string{
			name + " <" + p1 + "!>", name + " <" + p1[:1] + "!" + p1[1:] + ">", name + " <" + p2 + " " + p1 + "!>", name + " <!" + p1 + "!>", name + " <" + p1 + "! " + p2 + ">",
			name + " [" + a1 + "!]", name + " [" + a1[:1] + "!" + a1[1:] + "]", name + " [!" + a1 + " " + a2 + "!]", name + " <" + p1 + "> <" + p2 + "!>",
		}).Draw(t, "v")
		suffixOK = true
	case "empty-clause":
		// clauses with nothing in them: an operator without a version, a qualifier without a name,
		// a negation of nothing
		tail = rapid.SampledFrom([]string{
			name + " (" + op + " )", name + " (" + op + ")", name + "(" + op + "  )", name + ":", name + ": (" + op + " " + ver + ")", name + " [!]", name + " [! ]", name + " <!>", name + " <" + p1 + " !>", name + " <! " + p1 + ">", name + ":  [" + a1 + "]",
		}).Draw(t, "v")
		suffixOK = true
	case "unknown-operator-U3":
		// a known operator with one more operator character glued on, written without a blank
		bad := rapid.SampledFrom([]string{">==", ">=>", ">=<", "<==", "<=>", ">>>", ">>=", "<<<", "<<=", "<=<"}).Draw(t, "bad3")
		tail = name + rapid.SampledFrom([]string{" (", "("}).Draw(t, "b3p") + bad + ver + ")"
	case "opener-inside-clause":
		// a clause that lost its closer and is followed by another clause of the same alternative:
		// the later clause's closer must not be borrowed, nor its opener become item text
		tail = rapid.SampledFrom([]string{
			name + " <" + p1 + " <" + p2 + ">", name + " [" + a1 + " [" + a2 + "]", name + " (" + op + " (" + ver + ")", name + " [" + a1 + " (" + op + " " + ver + ")]",
			name + " <" + p1 + " [" + a1 + "]>", name + " [(" + op + " " + ver + ") <" + p1 + "> [" + a1 + "]", name + " <[" + a1 + " " + a2 + "] <" + p1 + ">", name + " [" + a1 + "> [" + a2 + "]",
			// ... the opener glued to the item in front of it, or to the '!'
			name + " <" + p1 + "<" + p2 + ">", name + " [" + a1 + "[" + a2 + "]", name + " [![" + a1 + "]", name + " <!<" + p1 + ">", name + " <" + p1 + "[" + a1 + "]>",
			name + " [" + a1 + "(" + op + " " + ver + ")]", name + " [" + a1 + "<" + p1 + ">]", name + " <" + p1 + "(" + op + " " + ver + ")>", name + " [!" + a1 + "[!" + a2 + "]]", name + " <" + p1 + "<" + p2 + ">>",
		}).Draw(t, "v")
	case "nameless-restriction":
		// restrictions that restrict nothing: an alternative with clauses but no package name
		tail = rapid.SampledFrom([]string{
			name + ", (" + op + " " + ver + ")", name + " | [" + a1 + "]", name + ", :any (" + op + " " + ver + ")", "(" + op + " " + ver + ") [" + a1 + "] <" + p1 + ">", ":" + a1, name + " | <" + p1 + ">", "[" + a1 + "], " + name,
		}).Draw(t, "v")
	case "nul-byte":
		// a NUL is no end of input: whatever stands behind it is still part of the field
		tail = rapid.SampledFrom([]string{
			name + "\x00" + name, name + "\x00 (" + op + " " + ver, name + " (" + op + " " + ver + ")\x00(<< 9)", name + ":" + a1 + "\x00 ${x", "${" + name + "}\x00b",
			name + "\x00 [" + a1, name + "\x00, [", name + "\x00|(", "\x00",
		}).Draw(t, "v")
	case "dollar-without-brace":
		// "${" is the substvar marker, a "$" followed by something else is not
		tail = rapid.SampledFrom([]string{"$" + name + "}", "$x}", name + " | $ {" + name + "}", "$", "$$", "$(" + name + ")", "$ " + name}).Draw(t, "v")
	case "substvar-junk":
		// a substvar is a whole alternative: nothing but ',' '|' or the end may follow it
		other := genPkgName(t, "other")
		tail = rapid.SampledFrom([]string{
			"${" + name + "} " + other, "${" + name + "}${" + other + "}", "${" + name + "}" + other, "${" + name + "} ${" + other + "}",
			"${" + name + "} (" + op + " " + ver + ")", "${" + name + "} [" + a1 + "]", "${" + name + "} <" + p1 + ">", "${" + name + "}:" + a1,
			"${" + name + "}\n " + other,
		}).Draw(t, "v")
	default: // two-names
		other := genPkgName(t, "other")
		tail = rapid.SampledFrom([]string{
			name + " " + other, name + " " + other + " (" + op + " " + ver + ")", name + " (" + op + " " + ver + ") " + other, name + " [" + a1 + "] " + other, name + "  " + other,
		}).Draw(t, "v")
		suffixOK = true
	}
	text := prefix + tail
	if suffixOK && rapid.Bool().Draw(t, "hasSuffix") {
		// the relations that follow, in the customary or in the tightest spelling (no blank anywhere
		// one is optional): a closer further right must not be borrowed however close it stands
		sufSp := rapid.SampledFrom([]Spacer{canonicalSpacer, canonicalSpacer, fixedSchemes["S10-tight"], fixedSchemes["S1-minimal"]}).Draw(t, "sufSp")
		text += rapid.SampledFrom([]string{", ", ", ", ",", " | ", "|"}).Draw(t, "join") + renderDep(genDepAST(t, "suf", 2, 2, true), sufSp)
	}
	return BadDep{Text: text, Class: class}
}

var specC04Malformed = Register(&Spec[BadDep]{
	Prop: "C04", Name: "malformed",
	Rule: "one corruption of a valid canonical field, each its own class: closing ] ) > or } missing from a construct (at the end of input, or followed by further valid relations or alternatives whose own closers must not be borrowed); a NUL byte anywhere with more text behind it; a known operator with a third operator character glued on ('>==1'); an opener ( [ < inside an open clause of the same alternative (behind a blank, or glued to the item in front of it or to a '!'); clauses without a package name; a '$' that is not followed by '{'; a ${substvar} followed by anything but ',' '|' or the end (a name, a second substvar, a clause); mixed negation in an arch list; a second (version) clause; a second [arch] list; a ',' or '|' inside an open clause ('[amd64, i386]', '<a | b>', '(>= 1, 2)'); a '!' behind or inside a profile or architecture name (<nocheck!>, [amd64!]); a clause with nothing in it ('(>= )', a ':' without a qualifier, '[!]', '<!>', a '!' followed by a blank); half an operator (U0: a lone '<' '>' '!' '~' '-' '+' in front of the version); an unknown operator not starting with '=' (U1: ~= != >< <> ~ ^ ...) or starting with '=' (U2: == => =<); two names separated only by blanks - optionally preceded (and where sound followed) by valid relations. Oracle: Parse returns (nil, error) and UnmarshalControl returns an error and leaves no relations in a fresh receiver (a receiver that held a field before is empty afterwards or still holds exactly that field); a fixed valid field parsed right afterwards through either entry point comes out as written. Every case is non-trivial; distinct by text.",
	Check: func(c BadDep, r *Recorder) error {
		r.Case(c.Text, true, "malformed:"+c.Class)
		r.Sample(c)
		dep, err := dependency.Parse(c.Text)
		if err == nil {
			return errf("Parse(%q) accepted a %s field as %q", c.Text, c.Class, dep.String())
		}
		if dep != nil {
			return errf("Parse(%q) returned an error AND a result %+v", c.Text, dep)
		}
		var d dependency.Dependency
		if err := d.UnmarshalControl(c.Text); err == nil {
			return errf("UnmarshalControl(%q) accepted a %s field", c.Text, c.Class)
		}
		if len(d.Relations) != 0 {
			return errf("UnmarshalControl(%q) returned an error AND left %d relation(s) (%q) in the receiver", c.Text, len(d.Relations), d.String())
		}
		// a rejected field leaves nothing behind in the parser either: the next, valid field parses
		// to what it says (both entry points, right after the two failures above)
		const canary = "canary-pkg:any (>= 1.0~c) [amd64 !x] | ${can:ary}"
		if dep, err := dependency.Parse("canary-pkg (>= 1.0~c) [amd64] | ${can:ary}"); err != nil || len(dep.Relations) != 1 || len(dep.Relations[0].Possibilities) != 2 ||
			dep.Relations[0].Possibilities[0].Name != "canary-pkg" || dep.Relations[0].Possibilities[0].Version == nil || dep.Relations[0].Possibilities[0].Version.Number != "1.0~c" ||
			dep.Relations[0].Possibilities[0].Version.Operator != ">=" || len(dep.Relations[0].Possibilities[0].Architectures.Architectures) != 1 || dep.Relations[0].Possibilities[0].Architectures.Architectures[0].CPU != "amd64" ||
			dep.Relations[0].Possibilities[1].Name != "can:ary" || !dep.Relations[0].Possibilities[1].Substvar {
			got := "<nil>"
			if dep != nil {
				got = dep.String()
			}
			return errf("after rejecting %q, Parse of a valid field gives %q, err %v", c.Text, got, err)
		}
		var d2 dependency.Dependency
		_ = d2.UnmarshalControl(c.Text)
		if err := d2.UnmarshalControl("canary-pkg (>= 1.0~c)"); err != nil || d2.String() != "canary-pkg (>= 1.0~c)" {
			return errf("after rejecting %q, UnmarshalControl of a valid field gives %q, err %v", c.Text, d2.String(), err)
		}
		// ... and a receiver that held a field before the rejected one shows nothing of the rejected
		// field afterwards: it is empty, or (an implementation that touches the receiver only on
		// success) still exactly what it held
		if err := d2.UnmarshalControl(c.Text); err == nil {
			return errf("UnmarshalControl(%q) into a used receiver accepted a %s field", c.Text, c.Class)
		}
		if after := d2.String(); len(d2.Relations) != 0 && after != "canary-pkg (>= 1.0~c)" {
			return errf("UnmarshalControl(%q) into a receiver holding %q returned an error and left %q there", c.Text, "canary-pkg (>= 1.0~c)", after)
		}
		_ = canary
		return nil
	},
})

func TestC04_Malformed(t *testing.T) {
	specC04Malformed.Run(t, genBadDep, 30000, 150000)
}

// ------------------------------------------------------------------ C04/dpkgguard
//
// Generator-soundness guard + differential: fields without substvars are
// handed to Dpkg::Deps::deps_parse (the reference parser).  Whatever dpkg
// rejects is dropped from the asserted set and counted (guard_rejected - must
// be 0 for a sound generator); whatever dpkg accepts must parse to the AST.

func dpkgDepsAccepts(fields []string) ([]bool, error) {
	script := `use Dpkg::Deps; $/ = "\0"; $|=1; while (defined(my $f = <STDIN>)) { chomp $f; local $SIG{__WARN__} = sub {}; my $d = eval { deps_parse($f, reduce_arch => 0, reduce_profiles => 0, reduce_restrictions => 0, build_dep => 1, use_arch => 1, use_profiles => 1) }; print defined($d) ? "1\n" : "0\n"; }`
	cmd := exec.Command("perl", "-e", script)
	var in bytes.Buffer
	for _, f := range fields {
		in.WriteString(f)
		in.WriteByte(0)
	}
	cmd.Stdin = &in
	out, err := cmd.Output()
	if err != nil {
		return nil, err
	}
	res := []bool{}
	sc := bufio.NewScanner(bytes.NewReader(out))
	for sc.Scan() {
		res = append(res, strings.TrimSpace(sc.Text()) == "1")
	}
	if len(res) != len(fields) {
		return nil, fmt.Errorf("perl answered %d of %d", len(res), len(fields))
	}
	return res, nil
}

// dpkgClauseOrder is the one clause order dpkg's own parser knows:
// (version) [architectures] <profiles>...
func dpkgClauseOrder(a AltAST) []string {
	ord := []string{}
	if a.HasVer {
		ord = append(ord, "v")
	}
	if len(a.Archs) > 0 {
		ord = append(ord, "a")
	}
	for g := range a.Profiles {
		ord = append(ord, fmt.Sprintf("p%d", g))
	}
	return ord
}

var specC04Guard = Register(&Spec[DepCase]{
	Prop: "C04", Name: "dpkgguard",
	Rule:  "C04/random fields without substvars and with the clauses in dpkg's order (version, architectures, profiles), first shown to Dpkg::Deps::deps_parse (dpkg's reference parser, build_dep mode): fields dpkg rejects are dropped and counted as guard_rejected; fields dpkg accepts must parse to exactly the AST (same oracle as C04/random). The dpkg verdict is only a filter, so replay needs no dpkg.",
	Check: checkDepCase,
})

func TestC04_DpkgGuardExt(t *testing.T) {
	if exec.Command("perl", "-MDpkg::Deps", "-e", "1").Run() != nil {
		t.Skip("Dpkg::Deps not available")
	}
	n := pickN(3000, 60000)
	var cases []DepCase
	sink := &Spec[DepCase]{Check: func(c DepCase, r *Recorder) error { cases = append(cases, c); return nil }}
	rapidCollect(t, sink, func(t *rapid.T) DepCase {
		ast := genDepAST(t, "d", 5, 3, false)
		for i := range ast.Rels {
			for j := range ast.Rels[i].Alts {
				ast.Rels[i].Alts[j].Order = dpkgClauseOrder(ast.Rels[i].Alts[j])
			}
		}
		class := rapid.SampledFrom([]string{"W0", "W1", "W2"}).Draw(t, "class")
		return DepCase{AST: ast, Text: renderDep(ast, rapidSpacer{t: t, class: class}), Scheme: class}
	}, n)
	fields := make([]string, len(cases))
	for i, c := range cases {
		fields[i] = c.Text
	}
	ok, err := dpkgDepsAccepts(fields)
	if err != nil {
		t.Skipf("perl batch failed: %v", err)
	}
	rejected := 0
	specC04Guard.Enumerate(t, false, func(r *Recorder, yield func(DepCase) bool) {
		for i, c := range cases {
			if !ok[i] {
				rejected++
				r.Count("guard_rejected", 1)
				continue
			}
			if !yield(c) {
				return
			}
		}
	})
	if rejected > 0 {
		t.Logf("guard_rejected=%d of %d (generator produced fields dpkg rejects)", rejected, len(cases))
		for i, c := range cases {
			if !ok[i] {
				t.Logf("  rejected by dpkg: %q", c.Text)
				break
			}
		}
	}
}

// scribbleDep overwrites everything reachable from a parsed dependency.
func scribbleDep(d *dependency.Dependency) {
	for i := range d.Relations {
		ps := d.Relations[i].Possibilities
		for j := range ps {
			ps[j].Name = "scribbled"
			ps[j].Substvar = !ps[j].Substvar
			if ps[j].Version != nil {
				ps[j].Version.Number, ps[j].Version.Operator = "6.6.6", "<<"
			}
			if ps[j].Arch != nil {
				ps[j].Arch.CPU = "scribbled"
			}
			if ps[j].Architectures != nil {
				ps[j].Architectures.Not = !ps[j].Architectures.Not
				for k := range ps[j].Architectures.Architectures {
					ps[j].Architectures.Architectures[k].CPU = "scribbled"
				}
			}
			for g := range ps[j].StageSets {
				for k := range ps[j].StageSets[g].Stages {
					ps[j].StageSets[g].Stages[k].Name = "scribbled"
				}
			}
		}
		if len(ps) > 1 {
			d.Relations[i].Possibilities = ps[:1]
		}
	}
}
