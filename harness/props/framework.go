// Package props holds the executable statements of properties C01..C20 of
// paultag/go-debian, the generators that feed them and the reference models
// that decide them.  See /verif/DESIGN.md.
//
// Shape of every sub-check:  generator (rapid or enumeration) -> Case value
// (JSON-serialisable) -> Spec.Check(case) error.  Check is a pure function of
// the case; a non-nil error is a violation.  The same Check is used by the
// replay entry point, which bypasses rapid entirely.
package props

import (
	"encoding/binary"
	"encoding/json"
	"flag"
	"fmt"
	"hash/fnv"
	"os"
	"path/filepath"
	"runtime"
	"runtime/debug"
	"sort"
	"strconv"
	"strings"
	"sync"
	"testing"
	"time"

	"pgregory.net/rapid"
)

// ---------------------------------------------------------------- environment

func envOr(k, d string) string {
	if v := os.Getenv(k); v != "" {
		return v
	}
	return d
}

func verifRoot() string { return envOr("VERIF_ROOT", "/verif") }
func outDir() string    { return envOr("VERIF_OUT", filepath.Join(verifRoot(), "out", "adhoc")) }
func tier() string      { return envOr("VERIF_TIER", "quick") }
func shard() int        { n, _ := strconv.Atoi(envOr("VERIF_SHARD", "0")); return n }

// workDir is where the harness puts the files and directories of its cases ("" = the system's
// temporary directory).  It is NOT derived from TMPDIR: in the ambient pass (DESIGN.md section 0)
// TMPDIR points at another file system, which is part of what that pass is about.
func workDir() string { return os.Getenv("VERIF_WORK") }

// ambient reports whether this process runs in the second ambient environment.
func ambient() bool { return os.Getenv("VERIF_AMBIENT") != "" }

// seed returns the rapid seed for this process: a pure function of VERIF_SEED
// and the shard number; 0 (rapid: "random") is never produced.
func seed() uint64 {
	s, err := strconv.ParseUint(envOr("VERIF_SEED", "1"), 10, 64)
	if err != nil {
		s = 1
	}
	v := s*1000 + uint64(shard()) + 1
	if v == 0 {
		v = 1
	}
	return v
}

// scale multiplies case counts (VERIF_SCALE, default 1) - used by the driver
// to deepen the thorough tier without touching the tests.
func scale() float64 {
	f, err := strconv.ParseFloat(envOr("VERIF_SCALE", "1"), 64)
	if err != nil || f <= 0 {
		return 1
	}
	return f
}

// ---------------------------------------------------------------- known findings

type finding struct {
	ID       string `json:"id"`
	Property string `json:"property"`
	Status   string `json:"status"` // "known" | "fixed"
	What     string `json:"what"`
	Class    string `json:"class"`
	Witness  string `json:"witness"`
	Commit   string `json:"commit,omitempty"`
}

var (
	findingsOnce sync.Once
	findings     map[string]finding
)

func loadFindings() {
	findings = map[string]finding{}
	raw, err := os.ReadFile(filepath.Join(verifRoot(), "known_findings.json"))
	if err != nil {
		return
	}
	var doc struct {
		Findings []finding `json:"findings"`
	}
	if json.Unmarshal(raw, &doc) != nil {
		return
	}
	for _, f := range doc.Findings {
		findings[f.ID] = f
	}
}

// knownOpen reports whether finding id is recorded with status "known" - only
// then is its class excluded from generation (and counted).  "fixed" entries
// suppress nothing.
func knownOpen(id string) bool {
	findingsOnce.Do(loadFindings)
	f, ok := findings[id]
	return ok && f.Status == "known"
}

// ---------------------------------------------------------------- recorder

// Recorder accumulates what a run actually covered.
type Recorder struct {
	mu        sync.Mutex
	prefix    string
	evals     int64
	nt        map[uint64]struct{}
	classes   map[string]int64
	counters  map[string]int64
	samples   []interface{}
	sampleCap int
	ntSeen    int64
}

func newRecorder(prefix string) *Recorder {
	return &Recorder{prefix: prefix, nt: map[uint64]struct{}{}, classes: map[string]int64{},
		counters: map[string]int64{}, sampleCap: 6}
}

func hash64(parts ...string) uint64 {
	h := fnv.New64a()
	for _, p := range parts {
		h.Write([]byte(p))
		h.Write([]byte{0})
	}
	return h.Sum64()
}

// Case records one oracle evaluation.  key identifies the case (canonical
// encoding); nontrivial is the property's stated rule applied to it.
func (r *Recorder) Case(key string, nontrivial bool, classes ...string) {
	if r == nil {
		return
	}
	r.mu.Lock()
	defer r.mu.Unlock()
	r.evals++
	for _, c := range classes {
		if c != "" {
			r.classes[c]++
		}
	}
	if nontrivial {
		r.nt[hash64(r.prefix, key)] = struct{}{}
		r.ntSeen++
	}
}

// Evals adds n oracle evaluations that are not counted as cases of their own
// (e.g. repetitions of one case).
func (r *Recorder) Evals(n int64) {
	if r == nil {
		return
	}
	r.mu.Lock()
	r.evals += n
	r.mu.Unlock()
}

func (r *Recorder) Count(name string, n int64) {
	if r == nil {
		return
	}
	r.mu.Lock()
	r.counters[name] += n
	r.mu.Unlock()
}

// Excluded counts a case dropped by construction because it lies in the class
// of recorded known finding id.
func (r *Recorder) Excluded(id string) { r.Count("excluded_known:"+id, 1) }

// Sample keeps up to sampleCap cases, spread over the run (1st, 2nd, 4th, 8th ... seen).
func (r *Recorder) Sample(v interface{}) {
	if r == nil {
		return
	}
	r.mu.Lock()
	defer r.mu.Unlock()
	r.counters["_sample_seen"]++
	n := r.counters["_sample_seen"]
	if n&(n-1) != 0 && n > 3 { // keep powers of two beyond the first three
		return
	}
	if len(r.samples) >= r.sampleCap {
		// replace round-robin so late samples are represented too
		r.samples[int(n)%r.sampleCap] = v
		return
	}
	r.samples = append(r.samples, v)
}

type fragment struct {
	Property    string           `json:"property"`
	Sub         string           `json:"sub"`
	Shard       int              `json:"shard"`
	Tier        string           `json:"tier"`
	Seed        uint64           `json:"seed"`
	Rule        string           `json:"rule"`
	Evaluations int64            `json:"evaluations"`
	NTCount     int              `json:"distinct_nontrivial"`
	Classes     map[string]int64 `json:"classes"`
	Counters    map[string]int64 `json:"counters"`
	Samples     []interface{}    `json:"samples"`
	Exhaustive  bool             `json:"exhaustive"`
	WallS       float64          `json:"wall_s"`
	HashFile    string           `json:"hash_file"`
}

func (r *Recorder) flush(prop, sub, rule string, exhaustive bool, start time.Time) {
	r.mu.Lock()
	defer r.mu.Unlock()
	dir := filepath.Join(outDir(), "evid")
	_ = os.MkdirAll(dir, 0o755)
	base := fmt.Sprintf("%s.%s.%d", prop, sub, shard())
	hashes := make([]uint64, 0, len(r.nt))
	for h := range r.nt {
		hashes = append(hashes, h)
	}
	sort.Slice(hashes, func(i, j int) bool { return hashes[i] < hashes[j] })
	buf := make([]byte, 8*len(hashes))
	for i, h := range hashes {
		binary.LittleEndian.PutUint64(buf[8*i:], h)
	}
	hf := filepath.Join(dir, base+".hashes")
	_ = os.WriteFile(hf, buf, 0o644)
	delete(r.counters, "_sample_seen")
	fr := fragment{Property: prop, Sub: sub, Shard: shard(), Tier: tier(), Seed: seed(), Rule: rule,
		Evaluations: r.evals, NTCount: len(hashes), Classes: r.classes, Counters: r.counters,
		Samples: r.samples, Exhaustive: exhaustive, WallS: time.Since(start).Seconds(), HashFile: hf}
	raw, err := json.MarshalIndent(fr, "", " ")
	if err != nil {
		// a sample that cannot be marshalled must not lose the whole fragment
		fr.Samples = []interface{}{fmt.Sprintf("%v", r.samples)}
		raw, _ = json.MarshalIndent(fr, "", " ")
	}
	_ = os.WriteFile(filepath.Join(dir, base+".json"), raw, 0o644)
}

// ---------------------------------------------------------------- specs

// Spec is one executable sub-check of a property.
type Spec[T any] struct {
	Prop string // "C03"
	Name string // "roundtrip"
	Rule string // how cases are generated and what makes one non-trivial
	// Check decides one case. A non-nil error is a violation of the property.
	// It must be a pure function of c.  r may be used to label the case.
	Check func(c T, r *Recorder) error
	// Exclude names the recorded known finding (if any) whose class the case
	// falls in.  Consulted only while generating - never on replay - and only
	// while that finding has status "known": the case is then skipped and
	// counted, so the search continues past a recorded defect.
	Exclude func(c T) string
	// NoShrink: the cases of this spec are judged against what the PROCESS has seen before (long
	// histories).  Shrinking would judge candidates in a process that earlier candidates have
	// already marked, and report a small case that does not fail on its own: the first failing
	// case is saved as it is and the process ends.
	NoShrink bool

	inflight *os.File
	testName string
}

type replayFile struct {
	Property string          `json:"property"`
	Sub      string          `json:"sub"`
	Error    string          `json:"error,omitempty"`
	Note     string          `json:"note,omitempty"`
	Case     json.RawMessage `json:"case"`
}

var (
	replayMu  sync.Mutex
	replayers = map[string]func(json.RawMessage) error{}
)

// Register makes the spec reachable from replay files.
func Register[T any](s *Spec[T]) *Spec[T] {
	replayMu.Lock()
	defer replayMu.Unlock()
	key := s.Prop + "/" + s.Name
	if _, dup := replayers[key]; dup {
		panic("duplicate spec " + key)
	}
	replayers[key] = func(raw json.RawMessage) error {
		var c T
		if err := json.Unmarshal(raw, &c); err != nil {
			return fmt.Errorf("HARNESS: cannot decode case: %v", err)
		}
		return s.safeCheck(c, nil)
	}
	return s
}

type hangError struct{ msg string }

func (h hangError) Error() string { return h.msg }

// safeCheck runs Check, turning a panic of the code under test into a
// violation error (every property implies "does not panic" for its inputs).
func (s *Spec[T]) safeCheck(c T, r *Recorder) (err error) {
	defer func() {
		if p := recover(); p != nil {
			err = fmt.Errorf("panic: %v\n%s", p, trimStack(debug.Stack()))
		}
	}()
	if s.inflight != nil {
		s.markInflight(c)
		defer s.clearInflight()
	}
	return s.Check(c, r)
}

// exitOnHang: a call that does not come back cannot be shrunk (every further attempt leaks
// another spinning goroutine, and one that allocates as it spins gets the process killed before
// it can report): the case is saved, the verdict printed and the process ends at once.
func (s *Spec[T]) exitOnHang(err error, saved string, r *Recorder, start time.Time) {
	if !s.NoShrink && !strings.Contains(err.Error(), "(hang)") {
		return
	}
	fmt.Printf("%s/%s violated: %v (case saved to %s)\n", s.Prop, s.Name, err, saved)
	r.flush(s.Prop, s.Name, s.Rule, false, start)
	s.closeInflight()
	os.Exit(1)
}

// In-flight record: what recover() cannot catch - os.Exit / log.Fatal inside
// the library, a stack overflow, "concurrent map writes" - ends the process in
// the middle of a case.  The case being checked is therefore kept in a file
// while Check runs; the driver turns a dead process with a non-empty in-flight
// file into a violation with that file as the replay.
func (s *Spec[T]) openInflight(t *testing.T) {
	s.testName = t.Name()
	dir := filepath.Join(outDir(), "inflight")
	_ = os.MkdirAll(dir, 0o755)
	f, err := os.OpenFile(filepath.Join(dir, fmt.Sprintf("%s.%s.%d.json", s.Prop, s.Name, shard())), os.O_RDWR|os.O_CREATE|os.O_TRUNC, 0o644)
	if err == nil {
		s.inflight = f
	}
}

func (s *Spec[T]) markInflight(c T) {
	raw, err := json.Marshal(c)
	if err != nil {
		return
	}
	doc, _ := json.Marshal(struct {
		replayFile
		Test string `json:"test"`
	}{replayFile{Property: s.Prop, Sub: s.Name, Error: "the test process was terminated while this case was being checked", Case: raw}, s.testName})
	_ = s.inflight.Truncate(0)
	_, _ = s.inflight.WriteAt(doc, 0)
}

func (s *Spec[T]) clearInflight() { _ = s.inflight.Truncate(0) }

func (s *Spec[T]) closeInflight() {
	if s.inflight != nil {
		name := s.inflight.Name()
		_ = s.inflight.Close()
		_ = os.Remove(name)
		s.inflight = nil
	}
}

func trimStack(b []byte) string {
	lines := strings.Split(string(b), "\n")
	if len(lines) > 40 {
		lines = lines[:40]
	}
	return strings.Join(lines, "\n")
}

// violation persists the current case; because rapid re-runs the minimal
// failing case last, the file left behind is the shrunk counterexample.
func (s *Spec[T]) violation(c T, err error) string {
	dir := filepath.Join(outDir(), "viol")
	_ = os.MkdirAll(dir, 0o755)
	raw, merr := json.Marshal(c)
	if merr != nil {
		raw, _ = json.Marshal(fmt.Sprintf("%#v", c))
	}
	doc, _ := json.MarshalIndent(replayFile{Property: s.Prop, Sub: s.Name, Error: err.Error(), Case: raw}, "", " ")
	p := filepath.Join(dir, fmt.Sprintf("%s.%s.%d.json", s.Prop, s.Name, shard()))
	_ = os.WriteFile(p, doc, 0o644)
	return p
}

func pickN(quickN, thoroughN int) int {
	n := quickN
	if tier() == "thorough" {
		n = thoroughN
	}
	n = int(float64(n) * scale())
	if n < 1 {
		n = 1
	}
	return n
}

// Run drives the spec with a rapid generator for quickN / thoroughN cases.
// One test function == one OS process in the driver, so setting the rapid
// flags here is race free.
func (s *Spec[T]) Run(t *testing.T, gen func(*rapid.T) T, quickN, thoroughN int) {
	t.Helper()
	n := pickN(quickN, thoroughN)
	_ = flag.Set("rapid.checks", strconv.Itoa(n))
	_ = flag.Set("rapid.seed", strconv.FormatUint(seed(), 10))
	_ = flag.Set("rapid.nofailfile", "true")
	if flag.Lookup("rapid.shrinktime") != nil && os.Getenv("VERIF_SHRINKTIME") != "" {
		_ = flag.Set("rapid.shrinktime", os.Getenv("VERIF_SHRINKTIME"))
	}
	r := newRecorder(s.Prop + "/" + s.Name)
	start := time.Now()
	defer func() { r.flush(s.Prop, s.Name, s.Rule, false, start) }()
	s.openInflight(t)
	defer s.closeInflight()
	rapid.Check(t, func(rt *rapid.T) {
		c := gen(rt)
		if s.Exclude != nil {
			if id := s.Exclude(c); id != "" && knownOpen(id) {
				r.Excluded(id)
				return
			}
		}
		if err := s.safeCheck(c, r); err != nil {
			p := s.violation(c, err)
			s.exitOnHang(err, p, r, start)
			rt.Fatalf("%s/%s violated: %v (case saved to %s)", s.Prop, s.Name, err, p)
		}
	})
}

// Enumerate drives the spec over a finite space, completely.  next is called
// with a yield function; all violations' first instance is persisted.
func (s *Spec[T]) Enumerate(t *testing.T, exhaustive bool, each func(r *Recorder, yield func(T) bool)) {
	t.Helper()
	r := newRecorder(s.Prop + "/" + s.Name)
	start := time.Now()
	defer func() { r.flush(s.Prop, s.Name, s.Rule, exhaustive, start) }()
	s.openInflight(t)
	defer s.closeInflight()
	failed := false
	each(r, func(c T) bool {
		if s.Exclude != nil {
			if id := s.Exclude(c); id != "" && knownOpen(id) {
				r.Excluded(id)
				return true
			}
		}
		if err := s.safeCheck(c, r); err != nil {
			p := s.violation(c, err)
			s.exitOnHang(err, p, r, start)
			t.Errorf("%s/%s violated: %v (case saved to %s)", s.Prop, s.Name, err, p)
			failed = true
			return false
		}
		return true
	})
	_ = failed
}

// ---------------------------------------------------------------- small helpers

func jsonKey(v interface{}) string {
	b, err := json.Marshal(v)
	if err != nil {
		return fmt.Sprintf("%#v", v)
	}
	return string(b)
}

func errf(format string, a ...interface{}) error { return fmt.Errorf(format, a...) }

// withTimeout runs f in a goroutine and reports a hang as an error instead of
// blocking the run (the goroutine is leaked; the process ends soon after).
func withTimeout(d time.Duration, what string, f func() error) error {
	ch := make(chan error, 1)
	go func() {
		defer func() {
			if p := recover(); p != nil {
				ch <- fmt.Errorf("panic: %v\n%s", p, trimStack(debug.Stack()))
			}
		}()
		ch <- f()
	}()
	deadline := time.After(d)
	tick := time.NewTicker(250 * time.Millisecond)
	defer tick.Stop()
	for {
		select {
		case err := <-ch:
			return err
		case <-deadline:
			return hangError{fmt.Sprintf("%s did not return within %v (hang)", what, d)}
		case <-tick.C:
			// a call that spins while allocating would take the whole process down before the
			// deadline: 3 GiB of live heap is taken for the same verdict
			var ms runtime.MemStats
			runtime.ReadMemStats(&ms)
			if ms.HeapAlloc > 3<<30 {
				return hangError{fmt.Sprintf("%s has not returned and the heap has grown to %d MiB (hang)", what, ms.HeapAlloc>>20)}
			}
		}
	}
}

// rapidCollect draws n values from gen through rapid (deterministic in the
// seed) and hands each to sink.Check; nothing is recorded or judged.
func rapidCollect[T any](t *testing.T, sink *Spec[T], gen func(*rapid.T) T, n int) {
	t.Helper()
	_ = flag.Set("rapid.checks", strconv.Itoa(n))
	_ = flag.Set("rapid.seed", strconv.FormatUint(seed(), 10))
	_ = flag.Set("rapid.nofailfile", "true")
	rapid.Check(t, func(rt *rapid.T) {
		_ = sink.Check(gen(rt), nil)
	})
}

// FuzzWith turns the spec into a native coverage-guided fuzz target: the
// fuzzer's bytes are the random tape of the rapid generator (rapid.MakeFuzz),
// so coverage feedback steers the *structured* generator.  Thorough tier only.
func (s *Spec[T]) FuzzWith(f *testing.F, gen func(*rapid.T) T) {
	x := uint64(88172645463325252)
	for i := 0; i < 12; i++ {
		b := make([]byte, 512<<uint(i%4))
		for j := range b {
			x ^= x << 13
			x ^= x >> 7
			x ^= x << 17
			b[j] = byte(x >> 32)
		}
		f.Add(b)
	}
	f.Fuzz(rapid.MakeFuzz(func(rt *rapid.T) {
		c := gen(rt)
		if s.Exclude != nil {
			if id := s.Exclude(c); id != "" && knownOpen(id) {
				return
			}
		}
		if err := s.safeCheck(c, nil); err != nil {
			p := s.violation(c, err)
			rt.Fatalf("%s/%s violated: %v (case saved to %s)", s.Prop, s.Name, err, p)
		}
	}))
}
