package props

import (
	"fmt"
	"reflect"
	"strings"

	"pault.ag/go/debian/dependency"
	"pault.ag/go/debian/version"
	"pgregory.net/rapid"
)

// ---------------------------------------------------------------- expectation model

type HashExp struct {
	Algo     string `json:"algo"`
	Hash     string `json:"hash"`
	Size     int64  `json:"size"`
	Name     string `json:"name"`
	Section  string `json:"section,omitempty"`
	Priority string `json:"priority,omitempty"`
}

// Exp says what the typed struct must contain, keyed by Go field name.
type Exp struct {
	Scalars  map[string]string    `json:"scalars,omitempty"`
	Ints     map[string]int       `json:"ints,omitempty"`
	Bools    map[string]bool      `json:"bools,omitempty"`
	Lists    map[string][]string  `json:"lists,omitempty"`
	Versions map[string]VerParts  `json:"versions,omitempty"`
	Archs    map[string][]string  `json:"archs,omitempty"`
	Deps     map[string]DepAST    `json:"deps,omitempty"`
	Hashes   map[string][]HashExp `json:"hashes,omitempty"`
	Unknown  map[string]string    `json:"unknown,omitempty"` // X- fields expected in Paragraph.Values
}

func newExp() Exp {
	return Exp{Scalars: map[string]string{}, Ints: map[string]int{}, Bools: map[string]bool{}, Lists: map[string][]string{},
		Versions: map[string]VerParts{}, Archs: map[string][]string{}, Deps: map[string]DepAST{}, Hashes: map[string][]HashExp{}, Unknown: map[string]string{}}
}

func fullArchEq(a dependency.Arch, name string) bool {
	m, _ := archModel(name)
	if strings.HasPrefix(m.ABI, "?") {
		// concrete two-part name: some definite ABI, whichever the default is
		return a.ABI != "any" && a.ABI != "all" && a.ABI != "" && a.OS == m.OS && a.CPU == m.CPU
	}
	return a.ABI == m.ABI && a.OS == m.OS && a.CPU == m.CPU
}

// compareStruct checks every expectation against the struct value sv.
func compareStruct(sv reflect.Value, e Exp, what string) error {
	field := func(name string) (reflect.Value, error) {
		f := sv.FieldByName(name)
		if !f.IsValid() {
			return f, errf("HARNESS: %s has no field %s", what, name)
		}
		return f, nil
	}
	for name, want := range e.Scalars {
		f, err := field(name)
		if err != nil {
			return err
		}
		if f.String() != want {
			return errf("%s.%s = %q, want %q", what, name, f.String(), want)
		}
	}
	for name, want := range e.Ints {
		f, err := field(name)
		if err != nil {
			return err
		}
		if int(f.Int()) != want {
			return errf("%s.%s = %d, want %d", what, name, f.Int(), want)
		}
	}
	for name, want := range e.Bools {
		f, err := field(name)
		if err != nil {
			return err
		}
		if f.Bool() != want {
			return errf("%s.%s = %v, want %v", what, name, f.Bool(), want)
		}
	}
	for name, want := range e.Lists {
		f, err := field(name)
		if err != nil {
			return err
		}
		got := []string{}
		for i := 0; i < f.Len(); i++ {
			got = append(got, f.Index(i).String())
		}
		if !strSliceEq(got, want) {
			return errf("%s.%s = %q, want %q", what, name, got, want)
		}
	}
	for name, want := range e.Versions {
		f, err := field(name)
		if err != nil {
			return err
		}
		got := f.Interface().(version.Version)
		if got != want.ver() {
			return errf("%s.%s = %#v, want %#v", what, name, got, want.ver())
		}
	}
	for name, want := range e.Archs {
		f, err := field(name)
		if err != nil {
			return err
		}
		var got []dependency.Arch
		if f.Kind() == reflect.Slice {
			for i := 0; i < f.Len(); i++ {
				got = append(got, f.Index(i).Interface().(dependency.Arch))
			}
		} else {
			got = []dependency.Arch{f.Interface().(dependency.Arch)}
		}
		if len(got) != len(want) {
			return errf("%s.%s has %d architectures %#v, want %q", what, name, len(got), got, want)
		}
		for i := range want {
			if !fullArchEq(got[i], want[i]) {
				return errf("%s.%s[%d] = %#v, want the triple of %q", what, name, i, got[i], want[i])
			}
		}
	}
	for name, want := range e.Deps {
		f, err := field(name)
		if err != nil {
			return err
		}
		got := f.Interface().(dependency.Dependency)
		if err := compareDepToAST(&got, want); err != nil {
			return errf("%s.%s: %v", what, name, err)
		}
	}
	for name, want := range e.Hashes {
		f, err := field(name)
		if err != nil {
			return err
		}
		if f.Len() != len(want) {
			return errf("%s.%s has %d entries, want %d", what, name, f.Len(), len(want))
		}
		for i, w := range want {
			el := f.Index(i)
			fh := el.FieldByName("FileHash")
			algo, hash, size, fn := fh.FieldByName("Algorithm").String(), fh.FieldByName("Hash").String(), fh.FieldByName("Size").Int(), fh.FieldByName("Filename").String()
			if algo != w.Algo || hash != w.Hash || size != w.Size || fn != w.Name {
				return errf("%s.%s[%d] = (%s, %s, %d, %s), want (%s, %s, %d, %s)", what, name, i, algo, hash, size, fn, w.Algo, w.Hash, w.Size, w.Name)
			}
			if w.Section != "" || w.Priority != "" {
				sec, pri := el.FieldByName("Component").String(), el.FieldByName("Priority").String()
				if sec != w.Section || pri != w.Priority {
					return errf("%s.%s[%d] section/priority = (%s, %s), want (%s, %s)", what, name, i, sec, pri, w.Section, w.Priority)
				}
			}
		}
	}
	if len(e.Unknown) > 0 {
		p := sv.FieldByName("Paragraph")
		if !p.IsValid() {
			return errf("HARNESS: %s has no embedded Paragraph", what)
		}
		vals := p.FieldByName("Values")
		for k, want := range e.Unknown {
			got := vals.MapIndex(reflect.ValueOf(k))
			if !got.IsValid() || got.String() != want {
				return errf("%s: unknown field %q = %v, want %q", what, k, got, want)
			}
		}
	}
	return nil
}

// ---------------------------------------------------------------- document builder

type docBuilder struct {
	sb    strings.Builder
	feats map[string]bool
	// blankStyle: how a hand-written blank-separated list is laid out (0: one blank between
	// elements; 1 two blanks; 2 a tab; 3 folded with the continuation aligned under the first
	// element; 4 folded behind a tab; 5 two blanks and a fold indented by two)
	blankStyle int
	// substVersions: version clauses of relationship fields may hold substitution variables
	substVersions bool
}

func newDocBuilder() *docBuilder { return &docBuilder{feats: map[string]bool{}} }

func (b *docBuilder) line(s string) { b.sb.WriteString(s + "\n") }

func (b *docBuilder) scalar(name, val string) { b.line(name + ": " + val) }

// commaList renders "a, b, c" or folded "a, b,\n c"; foldMask bit i folds after item i.
func (b *docBuilder) commaList(name string, items []string, foldMask int) {
	var sb strings.Builder
	for i, it := range items {
		if i > 0 {
			if foldMask&(1<<uint(i-1)) != 0 {
				sb.WriteString(",\n ")
				b.feats["folded"] = true
			} else {
				sb.WriteString(", ")
			}
		}
		sb.WriteString(it)
	}
	b.line(name + ": " + sb.String())
}

// commaListTrailing: as commaList, with a comma after the last item as well.
func (b *docBuilder) commaListTrailing(name string, items []string, foldMask int) {
	var sb strings.Builder
	for i, it := range items {
		if i > 0 {
			if foldMask&(1<<uint(i-1)) != 0 {
				sb.WriteString(",\n ")
				b.feats["folded"] = true
			} else {
				sb.WriteString(", ")
			}
		}
		sb.WriteString(it)
	}
	b.feats["trailing-comma"] = true
	b.line(name + ": " + sb.String() + ",")
}

func (b *docBuilder) spaceList(name string, items []string) {
	if b.blankStyle == 0 || len(items) < 2 {
		b.line(name + ": " + strings.Join(items, " "))
		return
	}
	seps := [][]string{{" "}, {"  "}, {"\t"}, {" ", "\n" + strings.Repeat(" ", len(name)+2)}, {" ", "\n\t"}, {"  ", "\n  "}}[b.blankStyle%6]
	var sb strings.Builder
	for i, it := range items {
		if i > 0 {
			sb.WriteString(seps[(i-1)%len(seps)])
		}
		sb.WriteString(it)
	}
	b.feats["space-list-wide-separators"] = true
	if strings.Contains(sb.String(), "\n") {
		b.feats["folded-space-list"] = true
	}
	b.line(name + ": " + sb.String())
}

// spaceListFolded renders "a b c" or folded "a b\n c" (what dpkg-genchanges does to a
// long Binary field); foldMask bit i folds after item i.
func (b *docBuilder) spaceListFolded(name string, items []string, foldMask int) {
	var sb strings.Builder
	for i, it := range items {
		if i > 0 {
			if foldMask&(1<<uint(i-1)) != 0 {
				sb.WriteString("\n ")
				b.feats["folded-space-list"] = true
			} else {
				sb.WriteString(" ")
			}
		}
		sb.WriteString(it)
	}
	b.line(name + ": " + sb.String())
}

// multi renders "Name: first" + continuation lines (empty ones as " .").
func (b *docBuilder) multi(name, first string, rest []string) string {
	b.line(strings.TrimRight(name+": "+first, " "))
	for _, l := range rest {
		if l == "" {
			b.line(" .")
		} else {
			b.line(" " + l)
		}
	}
	b.feats["multiline"] = true
	ls := []string{}
	if first != "" {
		ls = append(ls, first)
	}
	ls = append(ls, rest...)
	if len(rest) == 0 {
		return first
	}
	return strings.Join(ls, "\n") + "\n"
}

// dep renders a dependency field in one of the layouts the Debian tools emit.
func (b *docBuilder) dep(t *rapid.T, name string, ast DepAST) {
	style := rapid.SampledFrom([]string{"single", "single", "folded", "wrapsort", "wrapsort-trailing-comma"}).Draw(t, "depstyle")
	switch style {
	case "single":
		b.line(name + ": " + renderDep(ast, canonicalSpacer))
	case "folded":
		b.line(name + ": " + renderDep(ast, fixedSchemes["S3-folded"]))
		if len(ast.Rels) > 1 {
			b.feats["folded"] = true
		}
	default:
		b.line(name + ":")
		for i, rel := range ast.Rels {
			l := renderDep(DepAST{Rels: []RelAST{rel}}, canonicalSpacer)
			if i < len(ast.Rels)-1 || style == "wrapsort-trailing-comma" {
				l += ","
			}
			b.line(" " + l)
		}
		b.feats["folded"] = true
	}
}

func (b *docBuilder) hashList(name string, hs []HashExp, fiveCol bool) {
	b.line(name + ":")
	for _, h := range hs {
		if fiveCol {
			b.line(fmt.Sprintf(" %s %d %s %s %s", h.Hash, h.Size, h.Section, h.Priority, h.Name))
		} else {
			b.line(fmt.Sprintf(" %s %d %s", h.Hash, h.Size, h.Name))
		}
	}
}

func (b *docBuilder) blank() { b.sb.WriteString("\n") }

func (b *docBuilder) featList() []string {
	fl := []string{}
	for k := range b.feats {
		fl = append(fl, k)
	}
	sortStrings(fl)
	return fl
}

// ---------------------------------------------------------------- value generators

var personNames = []string{"Paul Tagliamonte <paultag@debian.org>", "John Doe <jdoe@example.com>", "Foo Bar <fnord@baz.fnord>", "Ünï Cödé <u@example.org>",
	"Debian QA Group <packages@qa.debian.org>", "A B C <abc@x.y>", "dput-ng Maintainers <dput-ng-maint@lists.alioth.debian.org>", "O'Neil <o@n.ie>"}

func genPeople(t *rapid.T, label string, max int) []string {
	n := rapid.IntRange(0, max).Draw(t, label+"n")
	out := []string{}
	for i := 0; i < n; i++ {
		out = append(out, rapid.SampledFrom(personNames).Draw(t, label))
	}
	return out
}

func genBinaryNames(t *rapid.T, label string, min, max int) []string {
	n := rapid.IntRange(min, max).Draw(t, label+"n")
	out := []string{}
	seen := map[string]bool{}
	for len(out) < n {
		b := genPkgName(t, label)
		if !seen[b] {
			seen[b] = true
			out = append(out, b)
		}
	}
	return out
}

func genFoldMask(t *rapid.T, label string) int {
	if rapid.IntRange(0, 2).Draw(t, label+"fold") == 0 {
		return 0
	}
	return rapid.IntRange(1, 31).Draw(t, label+"mask")
}

func genArchList(t *rapid.T, label string, max int) []string {
	n := rapid.IntRange(1, max).Draw(t, label+"n")
	out := []string{}
	for i := 0; i < n; i++ {
		out = append(out, genArchName(t, label))
	}
	return out
}

func genFiles(t *rapid.T, label, source, ver string, min, max int) []string {
	n := rapid.IntRange(min, max).Draw(t, label+"n")
	pool := []string{source + "_" + ver + ".dsc", source + "_" + ver + ".orig.tar.gz", source + "_" + ver + ".debian.tar.xz", source + "_" + ver + ".diff.gz",
		source + "_" + ver + "_amd64.deb", source + "_" + ver + "_all.deb", source + "_" + ver + "_amd64.buildinfo", source + "_" + ver + ".tar.xz"}
	perm := rapid.Permutation(pool).Draw(t, label+"perm")
	if n > len(perm) {
		n = len(perm)
	}
	return perm[:n]
}

func hashesFor(t *rapid.T, label, algo string, hexLen int, names []string, sizes []int64, fiveCol bool) []HashExp {
	out := []HashExp{}
	for i, n := range names {
		h := HashExp{Algo: algo, Hash: genHex(t, label+"hex", hexLen), Size: sizes[i], Name: n}
		if fiveCol {
			h.Section = rapid.SampledFrom([]string{"devel", "misc", "non-free/libs", "python", "-"}).Draw(t, label+"sec")
			h.Priority = rapid.SampledFrom([]string{"optional", "extra", "required", "-"}).Draw(t, label+"pri")
		}
		out = append(out, h)
	}
	return out
}

func genSizes(t *rapid.T, label string, n int) []int64 {
	out := make([]int64, n)
	for i := range out {
		out[i] = rapid.Int64Range(0, 1<<36).Draw(t, label)
	}
	return out
}

func genUnknownFields(t *rapid.T, b *docBuilder, e *Exp, label string) {
	n := rapid.SampledFrom([]int{0, 0, 1, 2}).Draw(t, label+"n")
	for i := 0; i < n; i++ {
		name := fmt.Sprintf("X-%s-%d", genFromAlphabet(t, label+"name", "ABCabc", 1, 5), i)
		if i == 0 && rapid.IntRange(0, 3).Draw(t, label+"goName") == 0 {
			name = rapid.SampledFrom([]string{"Epoch", "Revision", "Values", "Order", "Relations", "ABI", "OS", "CPU", "Hash", "Algorithm", "ByHash"}).Draw(t, label+"goNameV")
		}
		val := genLineText(t, label+"val", false)
		b.scalar(name, val)
		e.Unknown[name] = val
	}
}

func depOrNil(t *rapid.T, label string, prob int) *DepAST {
	if rapid.IntRange(0, prob).Draw(t, label+"has") != 0 {
		return nil
	}
	d := genDepAST(t, label, 4, 3, true)
	return &d
}
