Package: foo
Description:  lead nbsp and trail　
 cont ends nbsp 
  
 last
