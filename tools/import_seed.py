#!/usr/bin/env python3
"""tools/import_seed.py <outdir under /tmp/seed-out> <seed-id> <property> '<needs>'  - copy an agent's deliverables into seeded/<seed-id>/"""
import json, os, re, shutil, sys
src, sid, prop, needs = sys.argv[1:5]
root = os.path.dirname(os.path.dirname(os.path.abspath(__file__)))
dst = os.path.join(root, "seeded", sid)
os.makedirs(dst, exist_ok=True)
shutil.copy(os.path.join(src, "patch.diff"), os.path.join(dst, "patch.diff"))
demo = [f for f in os.listdir(src) if f.endswith("_test.go")][0]
shutil.copy(os.path.join(src, demo), os.path.join(dst, demo))
if os.path.exists(os.path.join(src, "notes.md")):
    shutil.copy(os.path.join(src, "notes.md"), os.path.join(dst, "notes.md"))
txt = open(os.path.join(dst, demo)).read()
m = re.search(r"^package (\w+)", txt, re.M)
pkg = m.group(1).replace("_test", "")
pkgdir = {"control": "control", "deb": "deb", "dependency": "dependency", "version": "version", "changelog": "changelog", "hashio": "hashio", "internal": "internal"}[pkg]
tests = re.findall(r"^func (Test\w+)\(", txt, re.M)
meta = {"property": prop, "needs_to_manifest": needs, "demo_file": demo, "demo_pkg_dir": pkgdir, "demo_run": "^(" + "|".join(tests) + ")$",
        "origin": "written by an independent sub-agent that saw only the property text and a scratch worktree of /repo",
        "confirmed_by": "tools/seeded.py (scratch copies of /repo): builds, repository suite passes with the change, demo fails with it and passes without"}
json.dump(meta, open(os.path.join(dst, "meta.json"), "w"), indent=1)
print(dst, pkgdir, tests)
