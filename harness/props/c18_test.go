package props

import (
	"bufio"
	"bytes"
	"fmt"
	"os"
	"path/filepath"
	"reflect"
	"regexp"
	"strings"
	"sync"
	"testing"
	"time"

	"pault.ag/go/debian/changelog"
	"pault.ag/go/debian/control"
	"pault.ag/go/debian/deb"
	"pault.ag/go/debian/dependency"
	"pault.ag/go/debian/version"
	"pgregory.net/rapid"
)

// callResult is what one parser call produced, in comparable form.
type callResult struct {
	Val      interface{}
	Err      bool
	ErrText  string // the error's text: part of the outcome, and as much a function of the input as the value
	ValWithE string // non-empty: an error came together with a usable (non-nil, non-empty) value
}

func nonEmpty(v interface{}) bool {
	rv := reflect.ValueOf(v)
	if !rv.IsValid() {
		return false
	}
	switch rv.Kind() {
	case reflect.Ptr, reflect.Interface:
		return !rv.IsNil()
	case reflect.Slice, reflect.Map:
		return rv.Len() > 0
	}
	return false
}

func mkResult(name string, v interface{}, err error) callResult {
	r := callResult{Val: v, Err: err != nil}
	if err != nil {
		r.ErrText = err.Error()
	}
	if err != nil && nonEmpty(v) {
		r.ValWithE = fmt.Sprintf("%s returned the error %q together with a usable value of type %T", name, err.Error(), v)
	}
	if err != nil {
		r.Val = nil // error-ness and the error's text are compared between runs
	}
	return r
}

func br(b []byte) *bufio.Reader { return bufio.NewReader(bytes.NewReader(b)) }

var entryPoints = map[string]func(b []byte) callResult{
	"version.Parse": func(b []byte) callResult {
		v, err := version.Parse(string(b))
		if err != nil {
			r := callResult{Err: true, ErrText: err.Error()}
			if v != (version.Version{}) {
				r.ValWithE = fmt.Sprintf("version.Parse returned the error %q together with the usable value %#v (it prints as %q)", err.Error(), v, v.String())
			}
			return r
		}
		return callResult{Val: v}
	},
	"dependency.Parse": func(b []byte) callResult {
		d, err := dependency.Parse(string(b))
		return mkResult("dependency.Parse", d, err)
	},
	"dependency.ParseArch": func(b []byte) callResult {
		a, err := dependency.ParseArch(string(b))
		return mkResult("dependency.ParseArch", a, err)
	},
	"dependency.ParseArchitectures": func(b []byte) callResult {
		a, err := dependency.ParseArchitectures(string(b))
		return mkResult("dependency.ParseArchitectures", a, err)
	},
	"ParagraphReader.All": func(b []byte) callResult {
		pr, err := control.NewParagraphReader(bytes.NewReader(b), nil)
		if err != nil {
			return mkResult("NewParagraphReader", pr, err)
		}
		ps, err := pr.All()
		return mkResult("ParagraphReader.All", ps, err)
	},
	"control.ParseDsc": func(b []byte) callResult {
		d, err := control.ParseDsc(br(b), "x.dsc")
		return mkResult("control.ParseDsc", d, err)
	},
	"control.ParseChanges": func(b []byte) callResult {
		c, err := control.ParseChanges(br(b), "x.changes")
		return mkResult("control.ParseChanges", c, err)
	},
	"control.ParseControl": func(b []byte) callResult {
		c, err := control.ParseControl(br(b), "debian/control")
		return mkResult("control.ParseControl", c, err)
	},
	"control.ParseBinaryIndex": func(b []byte) callResult {
		ps, err := control.ParseBinaryIndex(br(b))
		return mkResult("control.ParseBinaryIndex", ps, err)
	},
	"control.ParseSourceIndex": func(b []byte) callResult {
		ss, err := control.ParseSourceIndex(br(b))
		return mkResult("control.ParseSourceIndex", ss, err)
	},
	"control.Unmarshal(deb.Control)": func(b []byte) callResult {
		var c deb.Control
		err := control.Unmarshal(&c, bytes.NewReader(b))
		if err != nil {
			return callResult{Err: true, ErrText: err.Error()}
		}
		return callResult{Val: c}
	},
	// the same decoder with a destination that is not fresh: a slice variable that already holds
	// two elements from an earlier document. What comes out is a matter of the input alone.
	"control.Unmarshal(used []deb.Control)": func(b []byte) callResult {
		var used []deb.Control
		if err := control.Unmarshal(&used, strings.NewReader("Package: stale1\nVersion: 9\nArchitecture: all\nDepends: stale-dep\n\nPackage: stale2\nVersion: 9\nArchitecture: all\n")); err != nil || len(used) != 2 {
			return callResult{ValWithE: fmt.Sprintf("HARNESS: cannot fill the destination: %v", err)}
		}
		var fresh []deb.Control
		ferr := control.Unmarshal(&fresh, bytes.NewReader(b))
		uerr := control.Unmarshal(&used, bytes.NewReader(b))
		if (ferr == nil) != (uerr == nil) {
			return callResult{ValWithE: fmt.Sprintf("control.Unmarshal into a fresh []deb.Control returned %v, into a slice that held two elements before %v", ferr, uerr)}
		}
		if ferr != nil {
			return callResult{Err: true, ErrText: ferr.Error()}
		}
		if len(fresh) != len(used) || (len(fresh) > 0 && !reflect.DeepEqual(fresh, used)) {
			names := func(cs []deb.Control) []string {
				out := []string{}
				for _, c := range cs {
					out = append(out, c.Package)
				}
				return out
			}
			return callResult{ValWithE: fmt.Sprintf("control.Unmarshal of the same bytes gives %d elements %q in a fresh []deb.Control and %d elements %q in a slice that held two elements before", len(fresh), names(fresh), len(used), names(used))}
		}
		if len(fresh) == 0 {
			return callResult{Val: 0}
		}
		return callResult{Val: fresh}
	},
	"changelog.Parse": func(b []byte) callResult {
		es, err := changelog.Parse(bytes.NewReader(b))
		return mkResult("changelog.Parse", es, err)
	},
	"changelog.ParseOne": func(b []byte) callResult {
		e, err := changelog.ParseOne(br(b))
		return mkResult("changelog.ParseOne", e, err)
	},
}

var entryPointNames = func() []string {
	ns := []string{}
	for n := range entryPoints {
		ns = append(ns, n)
	}
	sortStrings(ns)
	return ns
}()

type ParserInput struct {
	EP    string `json:"ep"`
	Input []byte `json:"input"`
	Src   string `json:"src"` // valid | mutated | raw | big
	// Between is fed to the same entry point between the two calls on Input:
	// the second answer must not depend on what was parsed in between.
	Between [][]byte `json:"between,omitempty"`
}

func callGuarded(ep string, in []byte) (res callResult, err error) {
	f := entryPoints[ep]
	if f == nil {
		return res, errf("HARNESS: unknown entry point %q", ep)
	}
	err = withTimeout(60*time.Second, ep, func() error {
		res = f(in)
		return nil
	})
	return res, err
}

func checkParserInput(c ParserInput, r *Recorder) error {
	nt := c.Src != "raw"
	r.Case(c.EP+"|"+string(c.Input), nt, "ep:"+c.EP, "src:"+c.Src)
	if nt && len(c.Input) < 400 {
		r.Sample(map[string]string{"ep": c.EP, "src": c.Src, "input": string(c.Input)})
	}
	r1, err := callGuarded(c.EP, c.Input)
	if err != nil {
		return errf("%v (input %q)", err, clip(c.Input))
	}
	if r1.ValWithE != "" {
		return errf("%s (input %q)", r1.ValWithE, clip(c.Input))
	}
	for _, b := range c.Between {
		if _, err := callGuarded(c.EP, b); err != nil {
			return errf("%v (input %q)", err, clip(b))
		}
	}
	r2, err := callGuarded(c.EP, c.Input)
	if err != nil {
		return errf("second call: %v (input %q)", err, clip(c.Input))
	}
	if r1.Err != r2.Err || !reflect.DeepEqual(r1.Val, r2.Val) {
		return errf("%s is not deterministic on %q (with %d other inputs parsed in between): %+v / err=%v vs %+v / err=%v", c.EP, clip(c.Input), len(c.Between), r1.Val, r1.Err, r2.Val, r2.Err)
	}
	if r1.ErrText != r2.ErrText {
		return errf("%s reports different errors for the same input %q (with %d other inputs parsed in between): %q, then %q", c.EP, clip(c.Input), len(c.Between), r1.ErrText, r2.ErrText)
	}
	if c.Src == "big" {
		// large inputs are where work gets split up: a few more rounds
		for k := 0; k < 4; k++ {
			rk, err := callGuarded(c.EP, c.Input)
			if err != nil {
				return errf("call %d: %v (input %q)", k+3, err, clip(c.Input))
			}
			if r1.Err != rk.Err || r1.ErrText != rk.ErrText || !reflect.DeepEqual(r1.Val, rk.Val) {
				return errf("%s is not deterministic on %q (%d bytes; call %d): err=%v %q vs err=%v %q", c.EP, clip(c.Input), len(c.Input), k+3, r1.Err, r1.ErrText, rk.Err, rk.ErrText)
			}
		}
	}
	return nil
}

func clip(b []byte) string {
	if len(b) > 300 {
		return string(b[:300]) + fmt.Sprintf("...(%d bytes)", len(b))
	}
	return string(b)
}

func genValidFor(t *rapid.T, ep string) string {
	switch ep {
	case "version.Parse":
		return genAcceptedCandidate(t).S
	case "dependency.Parse":
		return genDepCase(t).Text
	case "dependency.ParseArch":
		return genArchNameAny(t).N
	case "dependency.ParseArchitectures":
		return strings.Join(genArchList(t, "al", 5), rapid.SampledFrom([]string{" ", "  ", "\t", "\n "}).Draw(t, "alsep"))
	case "ParagraphReader.All":
		return genDocCase(t, 3).Text
	case "control.ParseDsc":
		return genDscDoc(t).Text
	case "control.ParseChanges":
		return genChangesDoc(t).Text
	case "control.ParseControl":
		return genControlDoc(t).Text
	case "control.ParseBinaryIndex":
		return genPackagesDoc(t).Text
	case "control.ParseSourceIndex":
		return genSourcesDoc(t).Text
	case "control.Unmarshal(deb.Control)":
		return genDebControlDoc(t).Text
	case "control.Unmarshal(used []deb.Control)":
		switch rapid.IntRange(0, 5).Draw(t, "usedDoc") {
		case 0:
			return rapid.SampledFrom([]string{"", "\n", "\n\n", "# nothing here\n", " \n", "#\n\n#\n"}).Draw(t, "usedEmpty")
		case 1:
			return genDebControlDoc(t).Text + "\n" + genDebControlDoc(t).Text
		}
		return genDebControlDoc(t).Text
	default:
		return renderClDoc(genClDoc(t))
	}
}

var soupTokens = []string{"(", ")", "[", "]", "<", ">", "{", "}", "${", "=", "==", ">=", "<<", ",", ";", ":", "|", "!", "-", "--", "~", "+", ".", "  ", " ", "\t", "#", "*", "0", "1:", "-1", "a", "any", "all", "urgency", "\n ", "\n", "/", "%", "\"", ":-)", "(x", "x)"}

// slotSoup replaces one or two WORDS of a valid input (maximal runs between the delimiters of the
// formats) by a short soup of the formats' own tokens, or glues such a soup to the word's front or
// back: damage at the joints of the grammar - the value of an option, a name in a list, the text
// in front of a closing bracket - rather than at a random byte.
func slotSoup(t *rapid.T, v string) string {
	const delims = " \t\r\n,;:|()[]<>{}=$!"
	type span struct{ a, b int }
	var words []span
	for i := 0; i < len(v); {
		if strings.IndexByte(delims, v[i]) >= 0 {
			i++
			continue
		}
		j := i
		for j < len(v) && strings.IndexByte(delims, v[j]) < 0 {
			j++
		}
		words = append(words, span{i, j})
		i = j
	}
	soup := func() string {
		var sb strings.Builder
		for k := rapid.IntRange(1, 3).Draw(t, "soupN"); k > 0; k-- {
			sb.WriteString(rapid.SampledFrom(soupTokens).Draw(t, "soupTok"))
		}
		return sb.String()
	}
	if len(words) == 0 {
		return v + soup()
	}
	for k := rapid.IntRange(1, 2).Draw(t, "slots"); k > 0; k-- {
		wi := rapid.IntRange(0, len(words)-1).Draw(t, "slot")
		w := words[wi]
		if w.b > len(v) || w.a > w.b {
			break
		}
		var repl string
		switch rapid.IntRange(0, 3).Draw(t, "slotHow") {
		case 0:
			repl = soup()
		case 1:
			repl = soup() + v[w.a:w.b]
		case 2:
			repl = v[w.a:w.b] + soup()
		default:
			repl = soup() + v[w.a:w.b] + soup()
		}
		v = v[:w.a] + repl + v[w.b:]
		// later words have moved: only earlier ones stay addressable
		words = words[:wi]
		if len(words) == 0 {
			break
		}
	}
	return v
}

// minimalUnit: the smallest complete unit of the formats that come in long sequences.
var minimalUnit = map[string]string{
	"control.ParseBinaryIndex":      "Package: a\nVersion: 1\nInstalled-Size: 1\nSize: 2\n\n",
	"control.ParseSourceIndex":      "Package: a\nVersion: 1\nBinary: a\n\n",
	"ParagraphReader.All":           "A: 1\nB: 2\n\n",
	"control.ParseControl":          "Package: a\nArchitecture: any\nDepends: b (>= 1)\n\n",
	"dependency.Parse":              "a (>= 1) [amd64] <x>, ",
	"changelog.Parse":               "a (1) u; urgency=low\n\n  * x\n\n -- A <a@b.c>  Thu, 01 Jan 1970 00:00:00 +0000\n\n",
	"dependency.ParseArchitectures": "amd64 ",
}

func genParserInput(t *rapid.T, ep string) ParserInput {
	switch rapid.IntRange(0, 22).Draw(t, "src") {
	case 21, 22:
		if rapid.IntRange(0, 3).Draw(t, "framed") == 0 {
			// a clearsign frame around the input, in the shapes (and half-shapes) such frames come in:
			// the readers of control data look for one whether or not a keyring was given
			head := rapid.SampledFrom([]string{"-----BEGIN PGP SIGNED MESSAGE-----\nHash: SHA256\n\n", "-----BEGIN PGP SIGNED MESSAGE-----\n\n", "-----BEGIN PGP SIGNED MESSAGE-----\n", "-----BEGIN PGP SIGNED MESSAGE-----\nHash: SHA256\n", "-----BEGIN PGP SIGNED MESSAGE-----\nHash:\n\n", "-----BEGIN PGP SIGNED MESSAGE-----", "-----BEGIN PGP SIGNED MESSAGE-----\r\nHash: SHA512\r\n\r\n", ""}).Draw(t, "frameHead")
			tail := rapid.SampledFrom([]string{"-----BEGIN PGP SIGNATURE-----\n\niQEzBAEBCAAdFiEE\n=abcd\n-----END PGP SIGNATURE-----\n", "-----BEGIN PGP SIGNATURE-----\niQEzBAEBCAAdFiEE\n-----END PGP SIGNATURE-----\n", "-----BEGIN PGP SIGNATURE-----\n", "-----BEGIN PGP SIGNATURE-----", "", "-----END PGP SIGNATURE-----\n-----BEGIN PGP SIGNATURE-----\n\n-----END PGP SIGNATURE-----\n", "\n-----BEGIN PGP SIGNATURE-----\n\n-----END PGP SIGNATURE-----"}).Draw(t, "frameTail")
			body := genValidFor(t, ep)
			switch rapid.IntRange(0, 3).Draw(t, "frameBody") {
			case 0:
				body = ""
			case 1:
				body = strings.TrimRight(body, "\n")
			}
			return ParserInput{EP: ep, Input: []byte(head + body + tail), Src: "mutated"}
		}
		return ParserInput{EP: ep, Input: []byte(slotSoup(t, genValidFor(t, ep))), Src: "mutated"}
	case 20:
		// sizes locked to the 4096-byte I/O buffer: the whole input, or its last line, is exactly
		// 4096*k (-1, +0, +1) bytes long, with and without a final newline
		v := strings.TrimRight(genValidFor(t, ep), "\r\n")
		k := rapid.IntRange(1, 3).Draw(t, "edgek")*4096 + rapid.IntRange(-1, 1).Draw(t, "edged")
		filler := rapid.SampledFrom([]string{"x", "1", "a ", ", b", " "}).Draw(t, "edgefill")
		if rapid.Bool().Draw(t, "edgeLastLine") {
			last := v
			if i := strings.LastIndex(v, "\n"); i >= 0 {
				last = v[i+1:]
			}
			if len(last) < k {
				add := strings.Repeat(filler, (k-len(last))/len(filler)+1)[:k-len(last)]
				v += add
			} else {
				v = v[:len(v)-(len(last)-k)]
			}
		} else {
			if len(v) < k {
				v += strings.Repeat(filler, (k-len(v))/len(filler)+1)
			}
			v = v[:k]
		}
		if rapid.Bool().Draw(t, "edgeNL") {
			v += "\n"
		}
		return ParserInput{EP: ep, Input: []byte(v), Src: "edge"}
	case 0, 1, 2, 3:
		return ParserInput{EP: ep, Input: []byte(genValidFor(t, ep)), Src: "valid"}
	case 4:
		if rapid.Bool().Draw(t, "lineShape") {
			// the shapes line-oriented formats give a meaning to, at the places a scanner looks for them:
			// comment / armor / continuation / keyword starts in the first column, with and without a
			// line end behind them, in front of, inside and behind a valid input
			v := genValidFor(t, ep)
			mark := rapid.SampledFrom([]string{"#", "# c", "#\n#", "-", "-----BEGIN PGP ", " ", "\t", ".", " .", "/*", "/* c */", "*/", "/* c", "$Id$", "$Id: x $", "$", "$ ", "$$", "$:$", "$Id", ":", "::", ";", "--", " -- ", "\x00", "\r"}).Draw(t, "mark")
			switch rapid.IntRange(0, 4).Draw(t, "markAt") {
			case 0:
				v = mark + v
			case 1:
				v = v + "\n" + mark
			case 2:
				v = strings.TrimSuffix(v, "\n") + "\n" + mark + "\n"
			case 3:
				if i := strings.Index(v, "\n"); i >= 0 {
					v = v[:i+1] + mark + rapid.SampledFrom([]string{"", "\n"}).Draw(t, "markNL") + v[i+1:]
				} else {
					v = mark
				}
			default:
				v = mark
			}
			return ParserInput{EP: ep, Input: []byte(v), Src: "mutated"}
		}
		return ParserInput{EP: ep, Input: rapid.SliceOfN(rapid.Byte(), 0, 64).Draw(t, "raw"), Src: "raw"}
	case 5:
		// up to 64 KiB: a valid input repeated
		v := genValidFor(t, ep)
		if len(v) == 0 {
			v = "x"
		}
		sep := rapid.SampledFrom([]string{"", "\n", "\n\n", ", ", " "}).Draw(t, "bigsep")
		hi := 1 + 65536/(len(v)+len(sep))
		if hi < 2 {
			hi = 2 // one valid input can be 64 KiB long by itself (a control file with a very long description)
		}
		n := rapid.IntRange(2, hi).Draw(t, "bign")
		if n > 4000 {
			n = 4000
		}
		if unit, ok := minimalUnit[ep]; ok && rapid.Bool().Draw(t, "bigMinimal") {
			// thousands of small units rather than dozens of large ones
			v, sep = unit, ""
			n = rapid.IntRange(min(1000, 65536/len(v)), 65536/len(v)).Draw(t, "bignMin")
		}
		big := []byte(strings.Repeat(v+sep, n))
		if rapid.Bool().Draw(t, "bigDamaged") {
			// two to four units damaged in different ways, far apart: which complaint comes first
			// is a matter of the input
			unit := len(v) + len(sep)
			for k, d := rapid.IntRange(2, 4).Draw(t, "bigd"), 0; d < k; d++ {
				at := rapid.IntRange(0, n-1).Draw(t, "bigAt") * unit
				span := big[at : at+len(v)]
				switch rapid.IntRange(0, 3).Draw(t, "bigHow") {
				case 0: // a digit becomes a letter
					for i := len(span) - 1; i >= 0; i-- {
						if span[i] >= '0' && span[i] <= '9' {
							span[i] = "x!_~("[d%5]
							break
						}
					}
				case 1: // the first digit does
					for i := 0; i < len(span); i++ {
						if span[i] >= '0' && span[i] <= '9' {
							span[i] = "?)$[>"[d%5]
							break
						}
					}
				case 2:
					if i := bytes.IndexByte(span, ':'); i >= 0 {
						span[i] = ';'
					}
				default:
					span[rapid.IntRange(0, len(span)-1).Draw(t, "bigPos")] = "(<[$,|"[d%6]
				}
			}
		}
		return ParserInput{EP: ep, Input: big, Src: "big"}
	default:
		v := genValidFor(t, ep)
		// line-level and byte-level mutations
		if strings.Contains(v, "\n") && rapid.Bool().Draw(t, "linelevel") {
			lines := strings.SplitAfter(v, "\n")
			for i := rapid.IntRange(1, 3).Draw(t, "lm"); i > 0 && len(lines) > 0; i-- {
				p := rapid.IntRange(0, len(lines)-1).Draw(t, "lp")
				switch rapid.IntRange(0, 5).Draw(t, "lop") {
				case 5:
					// the field keeps its name and loses its value: nothing, blanks, or nothing but
					// empty-line markers behind it
					if k := strings.IndexByte(lines[p], ':'); k > 0 && lines[p][0] != ' ' && lines[p][0] != '\t' && lines[p][0] != '#' {
						lines[p] = lines[p][:k+1] + rapid.SampledFrom([]string{"\n", " \n", "\t \n", "\n .\n", "\n .\n .\n", " \n .\n .\n .\n", "\n . \n .\t\n"}).Draw(t, "emptied")
					}
				case 4:
					// the field once more under other capitalisations (and without the original one):
					// whatever a parser makes of that, it has to make the same of it every time
					if k := strings.IndexByte(lines[p], ':'); k > 0 && lines[p][0] != ' ' && lines[p][0] != '\t' && lines[p][0] != '#' {
						name, rest := lines[p][:k], lines[p][k:]
						if !strings.HasSuffix(rest, "\n") {
							rest += "\n"
						}
						alt := []string{strings.ToLower(name) + rest, strings.ToUpper(name) + strings.Replace(rest, ": ", ": other", 1)}
						if rapid.Bool().Draw(t, "keepOrig") {
							alt = append(alt, lines[p])
						}
						lines = append(lines[:p], append(alt, lines[p+1:]...)...)
					}
				case 0:
					lines = append(lines[:p], lines[p+1:]...)
				case 1:
					lines = append(lines[:p+1], append([]string{lines[p]}, lines[p+1:]...)...)
				case 2:
					lines[p] = strings.TrimSuffix(lines[p], "\n")
				default:
					q := rapid.IntRange(0, len(lines)-1).Draw(t, "lq")
					lines[p], lines[q] = lines[q], lines[p]
				}
			}
			v = strings.Join(lines, "")
		} else {
			v = mutateBytes(t, v, ":,|()[]<>!${} \t\n-~+.;=#\"'\\%&*?@^_`/\r\x00", 3)
		}
		if rapid.IntRange(0, 3).Draw(t, "trunc") == 0 && len(v) > 0 {
			cut := rapid.IntRange(0, len(v)).Draw(t, "cut")
			if rapid.Bool().Draw(t, "cutAtJoint") {
				// at a joint of the grammar: right behind (or in front of) the punctuation character
				// that follows the drawn position - the input ends in "Mon," or "(>=" or "urgency="
				if k := strings.IndexAny(v[cut:], ",;:()<>[]{}=|-$!"); k >= 0 {
					cut += k + rapid.IntRange(0, 1).Draw(t, "cutBehind")
				}
			}
			v = v[:cut]
			if rapid.IntRange(0, 2).Draw(t, "cutNL") == 0 {
				v += "\n"
			}
		}
		return ParserInput{EP: ep, Input: []byte(v), Src: "mutated"}
	}
}

var specC18Total = Register(&Spec[ParserInput]{
	Prop: "C18", Name: "total",
	Rule:  "for each of 14 parser entry points (control.Unmarshal into a []deb.Control variable that held two elements before, compared with the same bytes decoded into a fresh one - documents of 0, 1 and 2 paragraphs; version.Parse; dependency.Parse / ParseArch / ParseArchitectures; ParagraphReader.All; ParseDsc, ParseChanges, ParseControl, ParseBinaryIndex, ParseSourceIndex, Unmarshal(&deb.Control); changelog.Parse / ParseOne) inputs from that parser's own grammar generator (4/20), line- and byte-level mutations (delete, duplicate, join, swap lines; one field repeated under lower- and upper-case spellings of its name; one field's value replaced by nothing, blanks, or one to three empty-line markers) and truncations of them - at any byte, or right in front of / behind a punctuation character, with and without a line end put behind the cut - (14/22), one or two words of a valid input replaced by / glued to a soup of 1..3 tokens of the formats' own punctuation, or a valid input inside a clearsign frame in the shapes and half-shapes such frames come in (2/22), raw bytes, or a valid input with a line-start marker ('#', '-', '/*', '$Id$', blank, '.', NUL ...) put in front of, behind or inside it with and without a line end (1/21), a valid input - or the format's smallest unit, 1000 times and more - repeated up to 64 KiB, in half of the cases with two to four copies damaged in different ways (1/22), and inputs whose total length or last-line length is exactly 4096*k-1, 4096*k or 4096*k+1 with and without a final newline (1/21). Oracle: the call returns within 60 s without panicking; when it returns an error no pointer/slice/map result is non-nil and non-empty and a struct result (version.Parse) is the zero value; a second call - made after 0..2 other generated inputs (often failing ones) went through the same entry point - gives a deeply equal value, the same error-ness and the same error text (big inputs: four more calls). Non-trivial: grammar-derived input (valid, mutated or big); distinct by (entry point, bytes).",
	Check: checkParserInput,
})

// ------------------------------------------------------------------ the local time zone is not input

// trailerOffset finds " +hhmm" / " -hhmm" at the end of a line.
var trailerOffset = regexp.MustCompile(`(?m) [+-][0-9]{4}$`)

// ZoneCase: a changelog parsed with the process's local time zone set to different zones.
type ZoneCase struct {
	EP    string `json:"ep"`
	Input []byte `json:"input"`
}

var specC18Zone = Register(&Spec[ZoneCase]{
	Prop: "C18", Name: "localzone",
	Rule: "changelog.Parse / ParseOne on inputs of the C18/total generator (valid, mutated, soups ...; in a quarter the numeric offset of a trailer replaced by a zone NAME - UTC, GMT, PST, CET, or XST, the name of the zone the check installs): the input is parsed as the process stands, then once for every zone offset found in the result (and for +00:00, +01:00 and -05:30) with time.Local set to a fixed zone of that offset - time.Parse hands out Local instead of a zone made from the written offset when the two agree. Oracle: every parse gives a deeply equal result, the same error-ness and text, and the same When.String() for every entry: the value is a function of the bytes, not of the zone the process runs in. Non-trivial: the first parse returned at least one entry; distinct by (entry point, bytes).",
	Check: func(c ZoneCase, r *Recorder) error {
		f := entryPoints[c.EP]
		if f == nil || !strings.HasPrefix(c.EP, "changelog.") {
			return errf("HARNESS: entry point %q", c.EP)
		}
		whens := func(v interface{}) []time.Time {
			switch x := v.(type) {
			case changelog.ChangelogEntries:
				out := []time.Time{}
				for _, e := range x {
					out = append(out, e.When)
				}
				return out
			case []changelog.ChangelogEntry:
				out := []time.Time{}
				for _, e := range x {
					out = append(out, e.When)
				}
				return out
			case *changelog.ChangelogEntry:
				if x != nil {
					return []time.Time{x.When}
				}
			}
			return nil
		}
		base, err := callGuarded(c.EP, c.Input)
		if err != nil {
			return errf("%v (input %q)", err, clip(c.Input))
		}
		ws := whens(base.Val)
		r.Case(c.EP+"|"+string(c.Input), len(ws) > 0)
		offs := []int{0, 3600, -19800}
		for _, w := range ws {
			_, off := w.Zone()
			offs = append(offs, off)
		}
		saved := time.Local
		defer func() { time.Local = saved }()
		for _, off := range offs {
			time.Local = time.FixedZone("XST", off)
			there, err := callGuarded(c.EP, c.Input)
			time.Local = saved
			if err != nil {
				return errf("%v (input %q)", err, clip(c.Input))
			}
			if there.Err != base.Err || there.ErrText != base.ErrText {
				return errf("%s on %q: err=%v %q as the process stands, err=%v %q with the local time zone at UTC%+ds", c.EP, clip(c.Input), base.Err, base.ErrText, there.Err, there.ErrText, off)
			}
			wt := whens(there.Val)
			if len(wt) != len(ws) {
				return errf("%s on %q: %d entries as the process stands, %d with the local time zone at UTC%+ds", c.EP, clip(c.Input), len(ws), len(wt), off)
			}
			for i := range ws {
				if a, b := ws[i].String(), wt[i].String(); a != b {
					return errf("%s on %q: entry %d has When %q as the process stands and %q with the local time zone at UTC%+ds: the value depends on more than the input", c.EP, clip(c.Input), i, a, b, off)
				}
			}
			if !reflect.DeepEqual(base.Val, there.Val) {
				return errf("%s on %q: the result with the local time zone at UTC%+ds is not deeply equal to the result as the process stands", c.EP, clip(c.Input), off)
			}
		}
		return nil
	},
})

func TestC18_LocalZone(t *testing.T) {
	specC18Zone.Run(t, func(t *rapid.T) ZoneCase {
		ep := rapid.SampledFrom([]string{"changelog.Parse", "changelog.Parse", "changelog.ParseOne"}).Draw(t, "ep")
		in := genParserInput(t, ep)
		if len(in.Input) > 4096 {
			in.Input = in.Input[:4096]
		}
		if rapid.IntRange(0, 3).Draw(t, "zoneName") == 0 {
			// the zone spelled by name instead of by offset (old entries have "PST", "CET", "UTC"):
			// whatever is made of it, it is made of the bytes - "XST" is the name the check gives
			// the local zone it sets
			name := rapid.SampledFrom([]string{"XST", "XST", "UTC", "GMT", "PST", "CET", "EST", "Z", "+01", "(CET)", "+0100 (CET)"}).Draw(t, "zname")
			if m := trailerOffset.FindIndex(in.Input); m != nil {
				in.Input = append(append(append([]byte{}, in.Input[:m[0]+1]...), []byte(name)...), in.Input[m[1]:]...)
			}
		}
		return ZoneCase{EP: ep, Input: in.Input}
	}, 4000, 30000)
}

func TestC18_Total(t *testing.T) {
	specC18Total.Run(t, func(t *rapid.T) ParserInput {
		ep := rapid.SampledFrom(entryPointNames).Draw(t, "ep")
		in := genParserInput(t, ep)
		if in.Src != "big" {
			for i := rapid.IntRange(0, 2).Draw(t, "nbetween"); i > 0; i-- {
				b := genParserInput(t, ep)
				if b.Src != "big" {
					in.Between = append(in.Between, b.Input)
				}
			}
		}
		return in
	}, 30000, 300000)
}

// ------------------------------------------------------------------ concurrency

type ConcCase struct {
	Inputs []ParserInput `json:"inputs"`
	Perm   []int         `json:"perm"`
}

func checkConc(c ConcCase, r *Recorder) error {
	r.Case(jsonKey(c.Perm)+fmt.Sprint(len(c.Inputs)), true)
	r.Evals(int64(len(c.Inputs)) * 33)
	// Phase A: concurrent calls FIRST, on inputs no call has seen yet, so that
	// lazily initialised shared state (caches, memo tables, scratch buffers)
	// is populated under contention.  Phase B: the sequential reference.
	const workers = 32
	n := len(c.Inputs)
	got := make([][]callResult, workers)
	var wg sync.WaitGroup
	errs := make(chan error, workers)
	for w := 0; w < workers; w++ {
		wg.Add(1)
		got[w] = make([]callResult, n)
		go func(w int) {
			defer wg.Done()
			defer func() {
				if p := recover(); p != nil {
					errs <- errf("panic in concurrent call: %v", p)
				}
			}()
			for k := 0; k < n; k++ {
				// every worker walks the list in its own order
				idx := (k*(2*w+1) + w*7) % n
				if len(c.Perm) == n {
					idx = c.Perm[(k+w*13)%n]
				}
				in := c.Inputs[idx]
				got[w][idx] = entryPoints[in.EP](in.Input)
			}
		}(w)
	}
	done := make(chan struct{})
	go func() { wg.Wait(); close(done) }()
	select {
	case <-done:
	case <-time.After(300 * time.Second):
		return hangError{"concurrent parser calls did not finish within 300 s"}
	}
	select {
	case err := <-errs:
		return err
	default:
	}
	for i, in := range c.Inputs {
		res, err := callGuarded(in.EP, in.Input)
		if err != nil {
			return err
		}
		for w := 0; w < workers; w++ {
			if c := got[w][i]; c.Err != res.Err || !reflect.DeepEqual(c.Val, res.Val) {
				return errf("%s on %q gave a different result when called concurrently with other parsers: %+v/err=%v vs sequential %+v/err=%v", in.EP, clip(in.Input), c.Val, c.Err, res.Val, res.Err)
			}
		}
	}
	// a data race report (binary built with -race, GORACE=log_path=...) is a violation
	if lp := os.Getenv("VERIF_RACE_LOG"); lp != "" {
		matches, _ := filepath.Glob(lp + "*")
		for _, m := range matches {
			b, _ := os.ReadFile(m)
			if bytes.Contains(b, []byte("DATA RACE")) {
				os.Remove(m)
				return errf("data race reported while parsers ran concurrently on independent inputs:\n%s", clip(b))
			}
		}
	}
	return nil
}

var specC18Race = Register(&Spec[ConcCase]{
	Prop: "C18", Name: "race",
	Rule:  "batches of generated inputs over all 13 entry points (C18/total generator, without the 64 KiB class) are first evaluated sequentially, then by 32 goroutines each walking the batch in its own order, in a binary built with -race. Oracle: every concurrent result deeply equals the sequential one and the race detector reports nothing. Evaluations = calls made; non-trivial: every batch; distinct by batch.",
	Check: checkConc,
})

func TestC18_Race(t *testing.T) {
	specC18Race.Run(t, func(t *rapid.T) ConcCase {
		n := rapid.IntRange(40, 80).Draw(t, "n")
		c := ConcCase{}
		for i := 0; i < n; i++ {
			in := genParserInput(t, rapid.SampledFrom(entryPointNames).Draw(t, "ep"))
			if in.Src == "big" || in.Src == "edge" {
				in.Input = in.Input[:min(len(in.Input), 2048)]
			}
			c.Inputs = append(c.Inputs, in)
		}
		c.Perm = rapid.Permutation(seqInts(n)).Draw(t, "perm")
		return c
	}, 30, 300)
}

// ------------------------------------------------------------------ native fuzz targets (thorough tier)

func fuzzEP(f *testing.F, ep string, seeds []string) {
	for _, s := range seeds {
		f.Add([]byte(s))
	}
	f.Fuzz(func(t *testing.T, b []byte) {
		if len(b) > 1<<16 {
			return
		}
		if err := checkParserInput(ParserInput{EP: ep, Input: b, Src: "fuzz"}, nil); err != nil {
			t.Fatalf("C18 violated: %v", err)
		}
	})
}

func FuzzC18_Dependency(f *testing.F) {
	fuzzEP(f, "dependency.Parse", []string{"foo, bar | baz", "foo:any (>= 1.0) [amd64 !i386] <stage1 !nocheck>", "${misc:Depends}", "a (<< 1) | b [linux-any], c <x> <y>"})
}

func FuzzC18_Dsc(f *testing.F) {
	fuzzEP(f, "control.ParseDsc", []string{"Format: 3.0 (quilt)\nSource: a\nBinary: a, b\nArchitecture: any all\nVersion: 1:1.0-1\nBuild-Depends: debhelper (>= 9),\n foo [amd64]\nFiles:\n d41d8cd98f00b204e9800998ecf8427e 0 a_1.0.dsc\n"})
}

func FuzzC18_Changes(f *testing.F) {
	fuzzEP(f, "control.ParseChanges", []string{"Format: 1.8\nSource: a\nBinary: a b\nArchitecture: source amd64\nVersion: 1.0\nCloses: 1 2\nChanges:\n a (1.0) unstable; urgency=low\n .\n   * x\nFiles:\n d41d8cd98f00b204e9800998ecf8427e 0 devel optional a_1.0.dsc\n"})
}

func FuzzC18_Control(f *testing.F) {
	fuzzEP(f, "control.ParseControl", []string{"Source: a\nMaintainer: A <a@b.c>\nUploaders: B <b@c.d>,\n C <c@d.e>\nBuild-Depends: x\n\nPackage: a\nArchitecture: any\nEssential: yes\nDepends: ${misc:Depends}, b (>= 1)\nDescription: x\n y\n .\n z\n"})
}

func FuzzC18_Index(f *testing.F) {
	fuzzEP(f, "control.ParseBinaryIndex", []string{"Package: a\nSource: b (1.0)\nVersion: 1.0\nInstalled-Size: 12\nArchitecture: amd64\nTag: a::b, c::d,\n e::f\nSize: 5\n\nPackage: c\nVersion: 2\nArchitecture: all\n"})
}

func FuzzC18_Changelog(f *testing.F) {
	fuzzEP(f, "changelog.Parse", []string{"a (1.0-1) unstable; urgency=low\n\n  * x\n\n -- A B <a@b.c>  Thu, 01 Jan 2015 00:00:00 +0000\n"})
}
