package props

import (
	"bufio"
	"fmt"
	"strings"
	"testing"

	"pault.ag/go/debian/control"
	"pault.ag/go/debian/dependency"
	"pgregory.net/rapid"
)

type SrcModel struct {
	Name     string    `json:"name"`
	Bins     []string  `json:"bins"`
	FoldMask int       `json:"foldMask"`
	BD       []DepAST  `json:"bd"` // Build-Depends, Build-Depends-Arch, Build-Depends-Indep (len 3)
	Styles   [3]string `json:"styles"`
	// ArchField: the source's own Architecture field ("" = "any all"); which build-dependency
	// fields count does not depend on it
	ArchField string `json:"archField,omitempty"`
	Version   string `json:"version,omitempty"` // "" = 1.0-1
}

func (s SrcModel) version() string {
	if s.Version == "" {
		return "1.0-1"
	}
	return s.Version
}

type OrderCase struct {
	Sources []SrcModel `json:"sources"`
	Perm    []int      `json:"perm"`
	Arch    string     `json:"arch"`
}

var bdFields = []string{"Build-Depends", "Build-Depends-Arch", "Build-Depends-Indep"}

func renderDepStyled(name string, ast DepAST, style string) string {
	switch style {
	case "foldedany":
		// folded wherever blanks are allowed - inside [arch lists] and <profile groups> too
		return name + ": " + strings.TrimRight(renderDep(ast, fixedSchemes["S7-nl-indent"]), "\n") + "\n"
	case "folded":
		return name + ": " + renderDep(ast, fixedSchemes["S3-folded"]) + "\n"
	case "wrapsort":
		var sb strings.Builder
		sb.WriteString(name + ":\n")
		for i, rel := range ast.Rels {
			l := renderDep(DepAST{Rels: []RelAST{rel}}, fixedSchemes["S1-minimal"])
			if i < len(ast.Rels)-1 {
				l += ","
			}
			sb.WriteString(" " + l + "\n")
		}
		return sb.String()
	}
	return name + ": " + renderDep(ast, fixedSchemes["S1-minimal"]) + "\n"
}

// renderSrcDscFull: as renderSrcDsc, but every build-dependency field is there (an empty one lists an
// out-of-graph package), so that a variable decoded into again and again keeps nothing from before.
func renderSrcDscFull(s SrcModel) string {
	full := s
	full.BD = append([]DepAST{}, s.BD...)
	for i := range full.BD {
		if len(full.BD[i].Rels) == 0 {
			full.BD[i] = DepAST{Rels: []RelAST{{Alts: []AltAST{{Name: "outside-filler"}}}}}
		}
	}
	return renderSrcDsc(full)
}

func renderSrcDsc(s SrcModel) string {
	b := newDocBuilder()
	b.scalar("Format", "3.0 (quilt)")
	b.scalar("Source", s.Name)
	b.commaList("Binary", s.Bins, s.FoldMask)
	if s.ArchField != "" {
		b.scalar("Architecture", s.ArchField)
	} else {
		b.scalar("Architecture", "any all")
	}
	b.scalar("Version", s.version())
	b.scalar("Maintainer", "A B <a@b.c>")
	text := b.sb.String()
	files := "Files:\n d41d8cd98f00b204e9800998ecf8427e 0 " + s.Name + "_" + s.version() + ".dsc\n"
	bd := ""
	for i, f := range bdFields {
		if len(s.BD[i].Rels) > 0 {
			bd += renderDepStyled(f, s.BD[i], s.Styles[i])
		}
	}
	switch s.FoldMask % 4 {
	case 1:
		// the build-dependency fields as the last fields of the paragraph, a blank line behind them
		return text + files + bd + "\n"
	case 2:
		// ... or the file ending inside the last of them
		return strings.TrimSuffix(text+files+bd, "\n")
	}
	return text + bd + files
}

var buildArches = []string{"amd64", "i386", "arm64", "hurd-i386", "kfreebsd-amd64", "freebsd-amd64", "netbsd-i386", "darwin-arm64", "musl-linux-arm64"}

// genOrderCase builds a build-dependency graph.
func genOrderCase(t *rapid.T) OrderCase {
	n := rapid.IntRange(1, 12).Draw(t, "n")
	c := OrderCase{Arch: rapid.SampledFrom(buildArches).Draw(t, "arch")}
	// source names: either src<i>, or built from a few short syllables so that names are prefixes,
	// suffixes and concatenations of one another (go / gocode / codespell / spell)
	syll := []string{"a", "b", "ab", "ba", "go", "code", "spell", "lib"}
	usedNames := map[string]bool{}
	composed := rapid.Bool().Draw(t, "composedNames")
	for i := 0; i < n; i++ {
		name := fmt.Sprintf("src%d", i)
		if composed {
			for try := 0; try < 20; try++ {
				cand := rapid.SampledFrom(syll).Draw(t, "sy1")
				if rapid.Bool().Draw(t, "two") {
					cand += rapid.SampledFrom(syll).Draw(t, "sy2")
				}
				if !usedNames[cand] {
					name = cand
					break
				}
			}
		}
		usedNames[name] = true
		s := SrcModel{Name: name, BD: make([]DepAST, 3)}
		nb := rapid.IntRange(1, 4).Draw(t, "nb")
		for j := 0; j < nb; j++ {
			s.Bins = append(s.Bins, fmt.Sprintf("%sx%d-%s", rapid.SampledFrom([]string{"lib", "python3-", "", "lib"}).Draw(t, "bp"), i, rapid.SampledFrom([]string{"dev", "doc", "bin", "data", "tools", "1", "dbg"}).Draw(t, "bs")+itoa(j)))
		}
		s.FoldMask = genFoldMask(t, "fold")
		s.ArchField = rapid.SampledFrom([]string{"", "", "any", "all", "amd64", "linux-any", "any all", "amd64 i386", "all amd64"}).Draw(t, "archField")
		for k := range s.Styles {
			s.Styles[k] = rapid.SampledFrom([]string{"single", "single", "folded", "wrapsort", "foldedany"}).Draw(t, "style")
		}
		c.Sources = append(c.Sources, s)
	}
	// a set of sources is not always tidy: a binary taken over by another source (both still list
	// it), or two versions of one source side by side
	if n > 1 && rapid.IntRange(0, 4).Draw(t, "sharedBinary") == 0 {
		u1 := rapid.IntRange(0, n-2).Draw(t, "sb1")
		u2 := rapid.IntRange(u1+1, n-1).Draw(t, "sb2")
		bin := rapid.SampledFrom(c.Sources[u1].Bins).Draw(t, "sbBin")
		at := rapid.IntRange(0, len(c.Sources[u2].Bins)).Draw(t, "sbAt")
		bins := append([]string{}, c.Sources[u2].Bins[:at]...)
		bins = append(bins, bin)
		c.Sources[u2].Bins = append(bins, c.Sources[u2].Bins[at:]...)
	}
	if n > 1 && rapid.IntRange(0, 5).Draw(t, "sameSource") == 0 {
		i := rapid.IntRange(0, n-2).Draw(t, "ss1")
		j := rapid.IntRange(i+1, n-1).Draw(t, "ss2")
		c.Sources[j].Name = c.Sources[i].Name
		// another version of the source - or the same one (two suites carry one upload)
		c.Sources[j].Version = rapid.SampledFrom([]string{"2.0-1", "2.0-1", "", "1.0-1"}).Draw(t, "ssVersion")
		if rapid.Bool().Draw(t, "ssBins") {
			c.Sources[j].Bins = append([]string{}, c.Sources[i].Bins...)
		}
	}
	cyclic := rapid.IntRange(0, 2).Draw(t, "cyclic") == 0
	ne := rapid.IntRange(0, 2*n).Draw(t, "ne")
	addEdge := func(u, v int) {
		// v build-depends on some binary of u
		bin := rapid.SampledFrom(c.Sources[u].Bins).Draw(t, "bin")
		if rapid.IntRange(0, 3).Draw(t, "notFirstBin") != 0 && len(c.Sources[u].Bins) > 1 {
			bin = c.Sources[u].Bins[1+rapid.IntRange(0, len(c.Sources[u].Bins)-2).Draw(t, "bi")]
		}
		field := rapid.SampledFrom([]int{0, 0, 1, 2}).Draw(t, "field")
		target := AltAST{Name: bin}
		if rapid.IntRange(0, 4).Draw(t, "qual") == 0 {
			// a multiarch qualifier says where the dependency may come from, not whether it applies
			target.Qual = rapid.SampledFrom([]string{"native", "any", "amd64", "i386", "all"}).Draw(t, "qualv")
		}
		if rapid.IntRange(0, 3).Draw(t, "ver") == 0 {
			// a version clause says which version is wanted, not which source builds the binary: the
			// order does not depend on whether the given source's version would satisfy it
			target.HasVer, target.Order = true, []string{"v"}
			target.Op = rapid.SampledFrom([]string{">=", ">=", "<<", "<=", "=", ">>"}).Draw(t, "verOp")
			target.Ver = rapid.SampledFrom([]string{"1.0", "1.0", "0.5", "1.0-1", "2.0", "2.0-1", "3.0~rc1", "99", "1:0", "0"}).Draw(t, "verV")
		}
		if rapid.IntRange(0, 3).Draw(t, "prof") == 0 {
			// build-profile restrictions say under which profiles the dependency is wanted; the
			// order is computed for an architecture, not for a profile (and not for whatever
			// DEB_BUILD_PROFILES happens to say in the process environment)
			groups := [][]ProfTerm{{{Not: true, Name: "nocheck"}}, {{Name: "stage1"}}, {{Not: true, Name: "stage1"}, {Not: true, Name: "cross"}}, {{Name: "pkg.foo.bar"}}, {{Name: "nodoc"}}, {{Not: true, Name: "nodoc"}, {Name: "cross"}}}
			for g := rapid.IntRange(1, 2).Draw(t, "profN"); g > 0; g-- {
				target.Profiles = append(target.Profiles, groups[rapid.IntRange(0, len(groups)-1).Draw(t, "profG")])
				target.Order = append(target.Order, fmt.Sprintf("p%d", len(target.Profiles)-1))
			}
		}
		rel := RelAST{}
		other := []string{"debhelper", "gcc", "pkgconf", "outside-a", "outside-b"}
		// architecture lists of 1..3 entries that do / do not contain the build architecture
		listWith := func(label string) []string {
			l := []string{c.Arch}
			for i := rapid.IntRange(0, 2).Draw(t, label+"n"); i > 0; i-- {
				l = append(l, rapid.SampledFrom([]string{"sparc", "hurd-any", "kfreebsd-amd64", "riscv64", "armhf"}).Draw(t, label))
			}
			return rapid.Permutation(l).Draw(t, label+"perm")
		}
		listWithout := func(label string) []string {
			l := []string{}
			for i := rapid.IntRange(1, 3).Draw(t, label+"n"); i > 0; i-- {
				l = append(l, rapid.SampledFrom([]string{"sparc", "hurd-any", "kfreebsd-amd64", "riscv64", "armhf"}).Draw(t, label))
			}
			return l
		}
		switch rapid.IntRange(0, 8).Draw(t, "shape") {
		case 0, 1, 2: // plain relation
			rel.Alts = []AltAST{target}
		case 3: // in-graph binary is the first admitted alternative: earlier ones are excluded by their arch list
			blocked := AltAST{Name: rapid.SampledFrom(other).Draw(t, "o1"), Archs: listWith("bl"), ArchNot: true, Order: []string{"a"}}
			rel.Alts = []AltAST{blocked, target, {Name: rapid.SampledFrom(other).Draw(t, "o2")}}
		case 4: // in-graph binary present but NOT selected: an earlier alternative is admitted
			rel.Alts = []AltAST{{Name: rapid.SampledFrom(other).Draw(t, "o1")}, target}
		case 5: // in-graph binary admitted through a positive or an irrelevant negated list, after an alternative a positive list excludes
			if rapid.Bool().Draw(t, "posneg") {
				target.Archs, target.ArchNot = listWith("tp"), false
			} else {
				target.Archs, target.ArchNot = listWithout("tn"), true
			}
			target.Order = append(target.Order, "a")
			rel.Alts = []AltAST{{Name: rapid.SampledFrom(other).Draw(t, "o1"), Archs: listWithout("ex"), Order: []string{"a"}}, target}
		case 6: // a lone restricted dependency that does NOT apply on this architecture: no edge at all
			target.Archs, target.ArchNot, target.Order = listWith("lone"), true, append(target.Order, "a")
			rel.Alts = []AltAST{target}
		default: // in-graph binary restricted away for this arch, substvar in front
			target.Archs, target.ArchNot, target.Order = listWith("dn"), true, append(target.Order, "a")
			rel.Alts = []AltAST{{Substvar: true, Name: "misc:Depends"}, target, {Name: rapid.SampledFrom(other).Draw(t, "o2")}}
		}
		c.Sources[v].BD[field].Rels = append(c.Sources[v].BD[field].Rels, rel)
	}
	for e := 0; e < ne && n > 1; e++ {
		u := rapid.IntRange(0, n-2).Draw(t, "u")
		v := rapid.IntRange(u+1, n-1).Draw(t, "v") // forward edges only: acyclic
		addEdge(u, v)
	}
	if cyclic && n > 1 {
		// plant a cycle of length 2..4 (back edges)
		k := rapid.IntRange(2, min(4, n)).Draw(t, "clen")
		start := rapid.IntRange(0, n-k).Draw(t, "cstart")
		for i := 0; i < k; i++ {
			addEdge(start+i, start+(i+1)%k)
		}
	} else if rapid.IntRange(0, 9).Draw(t, "self") == 0 {
		i := rapid.IntRange(0, n-1).Draw(t, "selfi")
		addEdge(i, i)
	}
	// out-of-graph noise
	for i := range c.Sources {
		if rapid.Bool().Draw(t, "noise") {
			c.Sources[i].BD[0].Rels = append([]RelAST{{Alts: []AltAST{{Name: "debhelper-compat", HasVer: true, Op: "=", Ver: "13", Order: []string{"v"}}}}}, c.Sources[i].BD[0].Rels...)
		}
	}
	if rapid.IntRange(0, 9).Draw(t, "longLine") == 0 {
		// dpkg-source writes Build-Depends on ONE line however long it is: a few hundred
		// out-of-graph packages (with epochs, i.e. colons) in front of the relations that matter
		i := rapid.IntRange(0, n-1).Draw(t, "longSrc")
		f := rapid.IntRange(0, 2).Draw(t, "longField")
		if len(c.Sources[i].BD[f].Rels) > 0 {
			filler := []RelAST{}
			for k := rapid.IntRange(150, 400).Draw(t, "longN"); k > 0; k-- {
				filler = append(filler, RelAST{Alts: []AltAST{{Name: fmt.Sprintf("outside-filler-%d", k), HasVer: true, Op: ">=", Ver: "1:2.0", Order: []string{"v"}}}})
			}
			c.Sources[i].BD[f].Rels = append(filler, c.Sources[i].BD[f].Rels...)
			c.Sources[i].Styles[f] = "single"
		}
	}
	c.Perm = rapid.Permutation(seqInts(n)).Draw(t, "perm")
	return c
}

func srvPath(c OrderCase, idx int) string {
	return "/srv/" + itoa(idx) + "_" + c.Sources[idx].Name + ".dsc"
}

func modelEdges(c OrderCase) (edges [][2]int, viaLaterBin, viaAlt bool) {
	owner := map[string][]int{} // every source that builds the binary
	first := map[string]bool{}
	for i, s := range c.Sources {
		for j, b := range s.Bins {
			owner[b] = append(owner[b], i)
			first[b] = j == 0
		}
	}
	cm, _ := archModel(c.Arch)
	for v, s := range c.Sources {
		for _, dep := range s.BD {
			for _, rel := range dep.Rels {
				pk := 0
				for _, a := range rel.Alts {
					if a.Substvar {
						continue
					}
					if altAdmits(a, cm) {
						for _, u := range owner[a.Name] {
							edges = append(edges, [2]int{u, v})
							if !first[a.Name] {
								viaLaterBin = true
							}
							if pk > 0 || len(rel.Alts) > 1 {
								viaAlt = true
							}
						}
						break
					}
					pk++
				}
			}
		}
	}
	return
}

func hasCycle(n int, edges [][2]int) (cycle bool, onlySelf bool) {
	indeg := make([]int, n)
	adj := make([][]int, n)
	self := false
	for _, e := range edges {
		if e[0] == e[1] {
			self = true
			continue
		}
		adj[e[0]] = append(adj[e[0]], e[1])
		indeg[e[1]]++
	}
	q := []int{}
	for i := 0; i < n; i++ {
		if indeg[i] == 0 {
			q = append(q, i)
		}
	}
	seen := 0
	for len(q) > 0 {
		x := q[0]
		q = q[1:]
		seen++
		for _, y := range adj[x] {
			indeg[y]--
			if indeg[y] == 0 {
				q = append(q, y)
			}
		}
	}
	multi := seen != n
	return multi || self, !multi && self
}

var specC19 = Register(&Spec[OrderCase]{
	Prop: "C19", Name: "order",
	Rule: "random build-dependency graphs over 1..12 sources (named src<i>, or composed of short syllables so that names are prefixes/suffixes/concatenations of each other) with 1..4 binaries each - uniquely named, except that in 1/5 of the cases one binary is also listed by a second source and in 1/6 two of the sources carry the same Source name (two versions side by side or - half of them - the same version twice, as two suites carry one upload; with the same or different binaries); edges 'v build-depends on binary b of u' chosen acyclic (forward edges over a hidden order), with a planted cycle of length 2..4 (1/4 of cases) or a self-dependency; each edge goes to Build-Depends, -Arch or -Indep, one in five with a multiarch qualifier (:native, :any, :amd64 ...), one in four with a version clause (any of the five operators; versions below, at and above the ones the given sources carry), one in four with one or two build-profile groups (<!nocheck>, <stage1>, <!stage1 !cross> ...), as a plain relation or inside alternatives/arch lists so that the in-graph binary is, or deliberately is not, the first alternative admitted for the build architecture, with substvars and out-of-graph packages mixed in (in one case of ten a few hundred of them on one line of 5 to 12 KiB in front of the relations that matter); 3/4 of edges go through a binary that is NOT the first of its source; every source is rendered as real .dsc text (the build-dependency fields in the middle of the paragraph or - in half of the sources - as its last fields, followed by a blank line or by the end of the file without a line end; build architecture one of nine, among them freebsd-amd64, netbsd-i386, darwin-arm64, musl-linux-arm64; Binary 'a, b, c' single-line or folded; Architecture any / all / any all / amd64 ...; dependency fields single-line, folded after the commas, folded at every gap - inside arch lists and profile groups too - or wrap-and-sort), parsed with control.ParseDsc - or, in half of the cases, decoded one after the other into ONE DSC variable whose value is copied into the list each time - and handed over in a generated permutation. Oracle: model edge set E (C06 selection oracle; a build-dependency on a binary orders the source after EVERY source that builds it); E acyclic => no error, result is a permutation of the input and pos(u) < pos(v) for every edge; a cycle through >= 2 sources => error; only self-dependencies => either; three runs agree. Non-trivial: >= 1 edge through a non-first binary or decided by an alternative; distinct by case.",
	Check: func(c OrderCase, r *Recorder) error {
		n := len(c.Sources)
		cm, _ := archModel(c.Arch)
		for _, s := range c.Sources {
			for _, dep := range s.BD {
				for _, rel := range dep.Rels {
					for _, a := range rel.Alts {
						if altUndecided(a, cm) {
							r.Case(jsonKey(c), false, "skipped-default-abi-undecided")
							return nil
						}
					}
				}
			}
		}
		edges, later, viaAlt := modelEdges(c)
		cyc, onlySelf := hasCycle(n, edges)
		cl := []string{}
		if later {
			cl = append(cl, "edge-via-non-first-binary")
		}
		if viaAlt {
			cl = append(cl, "edge-decided-by-alternative")
		}
		if cyc && !onlySelf {
			cl = append(cl, "verdict:cycle")
		} else if onlySelf {
			cl = append(cl, "verdict:self-only")
		} else {
			cl = append(cl, "verdict:acyclic")
		}
		binOwners, srcSeen := map[string]map[int]bool{}, map[string]bool{}
		sharedBin, sameSrc := false, false
		for i, s := range c.Sources {
			if srcSeen[s.Name] {
				sameSrc = true
			}
			srcSeen[s.Name] = true
			for _, b := range s.Bins {
				if binOwners[b] == nil {
					binOwners[b] = map[int]bool{}
				}
				binOwners[b][i] = true
				if len(binOwners[b]) > 1 {
					sharedBin = true
				}
			}
		}
		if sharedBin {
			cl = append(cl, "binary-built-by-two-sources")
		}
		if sameSrc {
			cl = append(cl, "same-source-name-twice")
		}
		nt := len(edges) > 0 && (later || viaAlt)
		r.Case(jsonKey(c), nt, cl...)
		if nt {
			r.Sample(map[string]interface{}{"sources": n, "edges": edges, "arch": c.Arch, "dsc0": renderSrcDsc(c.Sources[0])})
		}
		var dscs []control.DSC
		var one control.DSC // the decoder-loop idiom: one variable filled again and again, copies collected
		for _, idx := range c.Perm {
			if idx < 0 || idx >= n {
				return nil
			}
			text := renderSrcDsc(c.Sources[idx])
			if len(c.Perm)%2 == 1 {
				text = renderSrcDscFull(c.Sources[idx])
				if err := control.Unmarshal(&one, strings.NewReader(text)); err != nil {
					return errf("Unmarshal(&DSC) rejected %q: %v", text, err)
				}
				one.Filename = srvPath(c, idx)
				dscs = append(dscs, one)
				continue
			}
			d, err := control.ParseDsc(bufio.NewReader(strings.NewReader(text)), srvPath(c, idx))
			if err != nil {
				return errf("ParseDsc rejected %q: %v", text, err)
			}
			dscs = append(dscs, *d)
		}
		arch, err := dependency.ParseArch(c.Arch)
		if err != nil {
			return errf("ParseArch(%q): %v", c.Arch, err)
		}
		var firstOrder []string
		var firstErr bool
		for run := 0; run < 3; run++ {
			in := append([]control.DSC{}, dscs...)
			out, err := control.OrderDSCForBuild(in, *arch)
			names := []string{} // <index>_<source>: the index tells two sources of one name apart
			for _, d := range out {
				names = append(names, strings.TrimSuffix(strings.TrimPrefix(d.Filename, "/srv/"), ".dsc"))
			}
			if run == 0 {
				firstOrder, firstErr = names, err != nil
			} else if (err != nil) != firstErr || strings.Join(names, ",") != strings.Join(firstOrder, ",") {
				return errf("run %d differs from run 1: %v / %v vs %v / %v", run+1, names, err, firstOrder, firstErr)
			}
			if err != nil {
				if len(out) != 0 {
					return errf("OrderDSCForBuild returned an error AND %d sources", len(out))
				}
				if !cyc {
					return errf("acyclic graph (edges %v) rejected: %v", edges, err)
				}
				continue
			}
			if cyc && !onlySelf {
				return errf("graph with a dependency cycle (edges %v) was ordered as %v without an error", edges, names)
			}
			// permutation
			if len(names) != n {
				return errf("%d sources in, %d out (%v)", n, len(names), names)
			}
			pos := map[string]int{}
			for i, nm := range names {
				if _, dup := pos[nm]; dup {
					return errf("source %s appears twice in the result %v", nm, names)
				}
				pos[nm] = i
			}
			tag := func(i int) string { return strings.TrimSuffix(strings.TrimPrefix(srvPath(c, i), "/srv/"), ".dsc") }
			for i := range c.Sources {
				if _, ok := pos[tag(i)]; !ok {
					return errf("source %s missing from the result %v", tag(i), names)
				}
			}
			for _, e := range edges {
				if e[0] == e[1] {
					continue
				}
				u, v := tag(e[0]), tag(e[1])
				if pos[u] >= pos[v] {
					return errf("%s build-depends (on %s, first admitted alternative) on a binary of %s, but the order %v puts %s first", v, c.Arch, u, names, v)
				}
			}
			for i, d := range out {
				if len(d.Binaries) == 0 || !strings.HasSuffix(names[i], "_"+d.Source) {
					return errf("result entry %d (%s) is not the DSC that was passed in (Filename %q)", i, names[i], d.Filename)
				}
			}
		}
		return nil
	},
})

func TestC19_Order(t *testing.T) {
	specC19.Run(t, genOrderCase, 12000, 60000)
}
