package props

import (
	"bufio"
	"bytes"
	"fmt"
	"math/big"
	"os/exec"
	"strconv"
	"strings"
	"testing"

	"pault.ag/go/debian/version"
	"pgregory.net/rapid"
)

// ------------------------------------------------------------------ C01/model

var specC01Model = Register(&Spec[VerPair]{
	Prop: "C01", Name: "model",
	Rule: "pairs of version structs (epoch incl. MaxInt64/MaxUint64; upstream over [A-Za-z0-9.+~:-], revision over [A-Za-z0-9.+~]; token-built, soup and 20..400-digit runs); 2/3 of second operands are one or two local edits of the first (hot alphabet insert/delete/replace, leading zeros, longer digit run, ~/letter/+b1/.0 suffix, revision dropped or 0). Oracle: sign(Compare)==sign(reference comparator written from Policy 5.6.12 with math/big), both operand orders, also with operands that are parser-made values (of another text) whose exported members were assigned afterwards, and version.Slice.Less agrees. Non-trivial: operands differ textually and fall in at least one of the classes late-decision, tilde-vs-end, tilde-vs-letter, letter-vs-punct, digit-runs-differ-in-length, leading-zeros, epoch-tie-upstream-differs, upstream-tie-revision-decides, missing-vs-zero-revision, huge-digit-run; distinct by (a,b).",
	Check: func(p VerPair, r *Recorder) error {
		cl := classifyPair(p)
		nt := len(cl) > 0 && cl[0] != "identical" && !(len(cl) == 1 && cl[0] == "epoch-differs")
		r.Case(p.A.key()+"|"+p.B.key(), nt, cl...)
		if nt {
			r.Sample(p)
		}
		a, b := p.A.ver(), p.B.ver()
		want := refCompare(p.A, p.B)
		if got := sign(version.Compare(a, b)); got != want {
			return errf("Compare(%+v, %+v) has sign %d, Policy/dpkg order gives %d", a, b, got, want)
		}
		if got := sign(version.Compare(b, a)); got != -want {
			return errf("Compare(%+v, %+v) has sign %d, Policy/dpkg order gives %d", b, a, got, -want)
		}
		if got := sign(version.Compare(p.A.verEdited(), b)); got != want {
			return errf("Compare(%+v, %+v) has sign %d with the first operand a parser-made value whose members were assigned afterwards, Policy/dpkg order gives %d", a, b, got, want)
		}
		if got := sign(version.Compare(p.A.verEdited(), p.B.verEdited())); got != want {
			return errf("Compare(%+v, %+v) has sign %d with both operands parser-made values whose members were assigned afterwards, Policy/dpkg order gives %d", a, b, got, want)
		}
		s := version.Slice{a, b}
		if s.Less(0, 1) != (want < 0) || s.Less(1, 0) != (want > 0) {
			return errf("Slice.Less disagrees with the order of %+v and %+v (want sign %d)", a, b, want)
		}
		return nil
	},
})

func TestC01_Model(t *testing.T) {
	longVersions = true
	specC01Model.Run(t, genVerPair, 100000, 600000)
}

// ------------------------------------------------------------------ C01/parsed
//
// The same order, but with both operands going through version.Parse, so the
// parser's split feeds the comparator.

type ParsedPair struct {
	A WellFormed `json:"a"`
	B WellFormed `json:"b"`
	// Via: how the first operand's value is made from its text: 0 version.Parse; 1 UnmarshalControl,
	// 2 UnmarshalText into a Version variable that received Prev (another well-formed text) before
	Via  int    `json:"via,omitempty"`
	Prev string `json:"prev,omitempty"`
	// Beyond: when set, the first operand's epoch is written as this decimal number, which no
	// Version can hold (more than the platform's uint): the text is not a version for this library
	// and Parse refuses it; should it be taken after all, its epoch is above every epoch the second
	// operand can carry
	Beyond string `json:"beyond,omitempty"`
}

// beyondUint draws a decimal number above the platform's uint: just above, a multiple of 2^32 / 2^64
// plus a little, or 11..26 random digits
func beyondUint(t *rapid.T, label string) string {
	max := new(big.Int).SetUint64(uint64(^uint(0)))
	n := new(big.Int)
	switch rapid.IntRange(0, 3).Draw(t, label+"k") {
	case 0:
		n.Add(max, big.NewInt(int64(rapid.IntRange(1, 100000).Draw(t, label+"d"))))
	case 1:
		n.Add(max, big.NewInt(1))
		n.Mul(n, big.NewInt(int64(rapid.IntRange(1, 1000).Draw(t, label+"m"))))
		n.Add(n, big.NewInt(int64(rapid.IntRange(0, 1<<30).Draw(t, label+"a"))))
	default:
		digits := genFromAlphabet(t, label+"dig", "0123456789", 10, 25)
		n.SetString(rapid.SampledFrom([]string{"1", "2", "3", "5", "9"}).Draw(t, label+"lead")+digits, 10)
		if n.Cmp(max) <= 0 {
			n.Add(n, max)
			n.Add(n, big.NewInt(1))
		}
	}
	return n.String()
}

func wfParts(w WellFormed) VerParts { return VerParts{E: w.Epoch, V: w.Upstream, R: w.Revision} }

func genParsedPair(t *rapid.T) ParsedPair {
	a := genWellFormed(t, "a")
	var b WellFormed
	if rapid.IntRange(0, 2).Draw(t, "rel") == 0 {
		b = genWellFormed(t, "b")
	} else {
		// neighbour inside the grammar: edit upstream tail or revision
		b = a
		switch rapid.IntRange(0, 4).Draw(t, "edit") {
		case 0:
			b.Upstream = a.Upstream + rapid.SampledFrom([]string{"~", "~rc1", "+b1", ".0", "a", "0", "+"}).Draw(t, "suf")
		case 1:
			if b.HasRev {
				b.Revision = rapid.SampledFrom([]string{"0", "00", "1", a.Revision + "~", a.Revision + "+b1", "0" + a.Revision}).Draw(t, "rv")
			} else {
				b.HasRev, b.Revision = true, rapid.SampledFrom([]string{"0", "00", "1", "0~", "0+"}).Draw(t, "rv0")
			}
		case 2:
			if b.HasRev && !strings.Contains(b.Upstream, "-") {
				b.HasRev, b.Revision = false, ""
			}
		case 3:
			if !b.HasEpoch {
				b.HasEpoch, b.Epoch, b.EpochTxt = true, 0, rapid.SampledFrom([]string{"0", "00"}).Draw(t, "e0")
			} else {
				b.Epoch, b.EpochTxt = a.Epoch+1, strconv.FormatUint(a.Epoch+1, 10)
				if a.Epoch >= 1<<62 {
					b.Epoch, b.EpochTxt = 1, "1"
				}
			}
		default:
			up := []byte(a.Upstream)
			i := rapid.IntRange(0, len(up)-1).Draw(t, "i")
			if i > 0 {
				up[i] = rapid.SampledFrom([]byte("019aZ.+~")).Draw(t, "c")
			}
			b.Upstream = string(up)
		}
		b.Text = b.canonical()
	}
	p := ParsedPair{A: a, B: b}
	switch rapid.IntRange(0, 7).Draw(t, "route") {
	case 0, 1:
		p.Via = rapid.IntRange(1, 2).Draw(t, "via")
		// what the variable held before: a relative of the text it receives now (the same text read
		// with an epoch 0 in front, without its epoch, without its revision, with another revision
		// behind it), the other operand, or an unrelated version
		core := strings.TrimSpace(a.Text)
		rel := []string{"0:" + core, core + "-9", b.canonical(), genWellFormedCore(t, "prev").canonical()}
		if a.HasEpoch {
			rel = append(rel, core[len(a.EpochTxt)+1:], "0:"+core, "0:"+core)
		}
		if a.HasRev {
			rel = append(rel, core[:strings.LastIndex(core, "-")])
		}
		p.Prev = rapid.SampledFrom(rel).Draw(t, "prevOf")
	case 2:
		p.Beyond = beyondUint(t, "beyond")
		p.A.HasEpoch, p.A.EpochTxt, p.A.Epoch = true, p.Beyond, 0
		p.A.Text = p.A.canonical()
		if rapid.Bool().Draw(t, "bAnyEpoch") {
			// the other operand's epoch anywhere in the range a Version holds
			e := rapid.Uint64Range(0, uint64(^uint(0))).Draw(t, "bEpoch")
			p.B.HasEpoch, p.B.Epoch, p.B.EpochTxt = true, e, strconv.FormatUint(e, 10)
			p.B.Text = p.B.canonical()
		}
	}
	return p
}

var specC01Parsed = Register(&Spec[ParsedPair]{
	Prop: "C01", Name: "parsed",
	Rule: "pairs of Policy-grammar version strings (optional epoch with leading zeros, ':' in upstream only with epoch, '-' only with revision), the second mostly a grammar-preserving neighbour; both parsed with version.Parse, then Compare (both ways round) must order them as the reference comparator orders the renderer's parts. A quarter of the first operands are read with UnmarshalControl / UnmarshalText into a variable that read another text before (UnmarshalText's byte slice is written over right after the call; the earlier text is the same text behind \"0:\", without its epoch or revision, with \"-9\" behind it, the other operand, an unrelated version); an eighth carry an epoch no Version can hold (just above the platform's uint, a multiple of 2^32 / 2^64 plus a little, 11..26 digits) against a second operand whose epoch lies anywhere in the uint range: Parse refuses those, and if it takes one the written epoch is above every other. Non-trivial: as C01/model.",
	Check: func(p ParsedPair, r *Recorder) error {
		pa, pb := wfParts(p.A), wfParts(p.B)
		cl := classifyPair(VerPair{pa, pb})
		nt := len(cl) > 0 && cl[0] != "identical"
		r.Case(fmt.Sprintf("%s|%s|%d|%s", p.A.Text, p.B.Text, p.Via, p.Prev), nt, cl...)
		if nt {
			r.Sample([]string{p.A.Text, p.B.Text})
		}
		var a version.Version
		var err error
		how := "Parse"
		switch p.Via {
		case 0:
			a, err = version.Parse(p.A.Text)
		default:
			how = fmt.Sprintf("a variable that read %q before and then, with %s,", p.Prev, []string{"", "UnmarshalControl", "UnmarshalText"}[p.Via])
			r.Count("first-operand-in-a-reused-variable", 1)
			if p.Via == 1 {
				if a.UnmarshalControl(p.Prev) != nil {
					return nil
				}
				err = a.UnmarshalControl(p.A.Text)
			} else {
				if a.UnmarshalText([]byte(p.Prev)) != nil {
					return nil
				}
				// (the caller's buffer is the caller's: it is used for something else right away, as a
				// scanner's or a decoder's buffer is)
				buf := []byte(p.A.Text)
				err = a.UnmarshalText(buf)
				for i := range buf {
					buf[i] = "9:~z-0"[i%6]
				}
			}
		}
		if err != nil {
			return nil // acceptance is C03's business
		}
		b, err := version.Parse(p.B.Text)
		if err != nil {
			return nil
		}
		want := refCompare(pa, pb)
		if p.Beyond != "" {
			r.Count("epoch-beyond-uint-was-accepted", 1)
			want = 1 // epochs compare numerically, and the written one is above all that fit
		}
		if got := sign(version.Compare(a, b)); got != want {
			return errf("Compare(%s(%q), Parse(%q)) has sign %d, Policy/dpkg order gives %d", how, p.A.Text, p.B.Text, got, want)
		}
		if got := sign(version.Compare(b, a)); got != -want {
			return errf("Compare(Parse(%q), %s(%q)) has sign %d, Policy/dpkg order gives %d", p.B.Text, how, p.A.Text, got, -want)
		}
		return nil
	},
})

func TestC01_Parsed(t *testing.T) {
	longVersions = true
	specC01Parsed.Run(t, genParsedPair, 50000, 300000)
}

// ------------------------------------------------------------------ C01/dpkg
//
// Differential against the reference implementations shipped with dpkg:
// Dpkg::Version::version_compare_part (perl, arbitrary part strings) and the C
// implementation behind `dpkg --compare-versions` (full strings).  The verdict
// of dpkg is stored in the case, so replay needs no dpkg.

type DpkgCase struct {
	A      VerParts `json:"a"`
	B      VerParts `json:"b"`
	Via    string   `json:"via"`  // "perl-part" | "dpkg-c"
	Sign   int      `json:"sign"` // what the reference said
	PartsA string   `json:"partsA,omitempty"`
}

var specC01Dpkg = Register(&Spec[DpkgCase]{
	Prop: "C01", Name: "dpkg",
	Rule: "pairs from the C01/model generator, decided by dpkg itself: every pair's upstream parts (epoch and revision forced equal) go to Dpkg::Version::version_compare_part in one perl batch; pairs whose rendering dpkg's own parser accepts go to `dpkg --compare-versions` (C code). Compare's sign must equal dpkg's. A disagreement between my reference model and dpkg is counted as model_disagreements (harness bug), never reported as a violation.",
	Check: func(c DpkgCase, r *Recorder) error {
		cl := classifyPair(VerPair{c.A, c.B})
		nt := len(cl) > 0 && cl[0] != "identical"
		r.Case(c.Via+"|"+c.A.key()+"|"+c.B.key(), nt, append(cl, "via:"+c.Via)...)
		if nt {
			r.Sample(c)
		}
		if refCompare(c.A, c.B) != c.Sign {
			r.Count("model_disagreements", 1)
		}
		if got := sign(version.Compare(c.A.ver(), c.B.ver())); got != c.Sign {
			return errf("Compare(%+v, %+v) has sign %d, %s says %d", c.A.ver(), c.B.ver(), got, c.Via, c.Sign)
		}
		return nil
	},
})

func perlComparePartBatch(pairs [][2]string) ([]int, error) {
	script := `use Dpkg::Version; $|=1; while (defined(my $a = <STDIN>)) { my $b = <STDIN>; chomp $a; chomp $b; print Dpkg::Version::version_compare_part($a, $b) <=> 0, "\n"; }`
	cmd := exec.Command("perl", "-e", script)
	var in bytes.Buffer
	for _, p := range pairs {
		in.WriteString(p[0] + "\n" + p[1] + "\n")
	}
	cmd.Stdin = &in
	out, err := cmd.Output()
	if err != nil {
		return nil, err
	}
	res := []int{}
	sc := bufio.NewScanner(bytes.NewReader(out))
	for sc.Scan() {
		n, err := strconv.Atoi(strings.TrimSpace(sc.Text()))
		if err != nil {
			return nil, err
		}
		res = append(res, n)
	}
	if len(res) != len(pairs) {
		return nil, fmt.Errorf("perl answered %d of %d", len(res), len(pairs))
	}
	return res, nil
}

// dpkgCompare asks the C implementation. ok=false when dpkg rejects a string.
func dpkgCompare(a, b string) (int, bool) {
	run := func(op string) (bool, bool) {
		cmd := exec.Command("dpkg", "--compare-versions", a, op, b)
		var stderr bytes.Buffer
		cmd.Stderr = &stderr
		err := cmd.Run()
		if stderr.Len() > 0 { // warnings / errors about bad syntax
			return false, false
		}
		if err == nil {
			return true, true
		}
		if ee, ok := err.(*exec.ExitError); ok && ee.ExitCode() == 1 {
			return false, true
		}
		return false, false
	}
	lt, ok := run("lt")
	if !ok {
		return 0, false
	}
	if lt {
		return -1, true
	}
	eq, ok := run("eq")
	if !ok {
		return 0, false
	}
	if eq {
		return 0, true
	}
	return 1, true
}

func dpkgRenderable(p VerParts) (string, bool) {
	// only render what has an unambiguous dpkg reading: upstream starts with a
	// digit; ':' in upstream needs an explicit epoch, '-' an explicit revision.
	if p.V == "" || !(p.V[0] >= '0' && p.V[0] <= '9') || p.E > 2147483647 {
		return "", false
	}
	s := strconv.FormatUint(p.E, 10) + ":" + p.V
	if p.R != "" || strings.Contains(p.V, "-") {
		if p.R == "" {
			return "", false
		}
		s += "-" + p.R
	}
	return s, true
}

func TestC01_Dpkg(t *testing.T) {
	longVersions = true
	if _, err := exec.LookPath("perl"); err != nil {
		t.Skip("perl not available")
	}
	if err := exec.Command("perl", "-MDpkg::Version", "-e", "1").Run(); err != nil {
		t.Skip("Dpkg::Version not available")
	}
	nPart := pickN(6000, 150000)
	nC := pickN(150, 3000)
	// 1. collect pairs through rapid (deterministic in the seed)
	var pairs []VerPair
	collect := &Spec[VerPair]{Prop: "C01", Name: "dpkg-collect", Check: func(p VerPair, r *Recorder) error { pairs = append(pairs, p); return nil }}
	func() {
		saved := outDir()
		_ = saved
		rapidCollect(t, collect, genVerPair, nPart)
	}()
	// 2. perl batch on upstream parts and on revision parts
	var cases []DpkgCase
	batch := make([][2]string, 0, 2*len(pairs))
	// Dpkg::Version (perl) compares digit runs with perl's numeric <=>, i.e. as
	// doubles: runs beyond 15 digits are outside what that reference decides
	// exactly, so such pairs are left to the model and to the C implementation.
	kept := pairs[:0:0]
	for _, p := range pairs {
		if longestDigitRun(p.A.V) > 15 || longestDigitRun(p.B.V) > 15 || longestDigitRun(p.A.R) > 15 || longestDigitRun(p.B.R) > 15 {
			continue
		}
		kept = append(kept, p)
		batch = append(batch, [2]string{p.A.V, p.B.V}, [2]string{p.A.R, p.B.R})
	}
	signs, err := perlComparePartBatch(batch)
	if err != nil {
		t.Logf("perl batch failed (%v): sub-check skipped", err)
		signs = nil
	}
	for i, p := range kept {
		if signs == nil {
			break
		}
		cases = append(cases,
			DpkgCase{A: VerParts{V: p.A.V}, B: VerParts{V: p.B.V}, Via: "perl-part", Sign: signs[2*i]},
			DpkgCase{A: VerParts{V: "1", R: p.A.R}, B: VerParts{V: "1", R: p.B.R}, Via: "perl-part", Sign: signs[2*i+1]})
	}
	// 3. C implementation on full strings
	done := 0
	if _, err := exec.LookPath("dpkg"); err == nil {
		for _, p := range pairs {
			if done >= nC {
				break
			}
			sa, ok1 := dpkgRenderable(p.A)
			sb, ok2 := dpkgRenderable(p.B)
			if !ok1 || !ok2 {
				continue
			}
			sg, ok := dpkgCompare(sa, sb)
			if !ok {
				continue
			}
			done++
			cases = append(cases, DpkgCase{A: p.A, B: p.B, Via: "dpkg-c", Sign: sg, PartsA: sa + " vs " + sb})
		}
	}
	if len(cases) == 0 {
		t.Skip("no reference verdicts available")
	}
	specC01Dpkg.Enumerate(t, false, func(_ *Recorder, yield func(DpkgCase) bool) {
		for _, c := range cases {
			if !yield(c) {
				return
			}
		}
	})
}
