#!/bin/sh
# Builds the harness from files on disk only (offline) and warms the Go build cache.
set -e
cd "$(dirname "$0")/harness"
export GOFLAGS=-mod=mod GOPROXY=off GOSUMDB=off GOTOOLCHAIN=local
mkdir -p ../out/setup
go test -c -vet=off -o ../out/setup/props.test ./props
go test -c -vet=off -race -o ../out/setup/props.race.test ./props || echo "race build unavailable (C18 race sub-check will report inconclusive)"
rm -rf ../out/setup
echo setup ok
