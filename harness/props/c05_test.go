package props

import (
	"strings"
	"testing"

	"pault.ag/go/debian/dependency"
	"pgregory.net/rapid"
)

func archPtrEq(a, b *dependency.Arch) bool {
	if a == nil || b == nil {
		return a == nil && b == nil
	}
	return *a == *b
}

// depStructEq reports the first structural difference between two parsed
// dependencies (nil and empty slices are the same structure).
func depStructEq(d1, d2 *dependency.Dependency) error {
	if len(d1.Relations) != len(d2.Relations) {
		return errf("%d relations vs %d", len(d1.Relations), len(d2.Relations))
	}
	for i := range d1.Relations {
		p1s, p2s := d1.Relations[i].Possibilities, d2.Relations[i].Possibilities
		if len(p1s) != len(p2s) {
			return errf("relation %d: %d alternatives vs %d", i, len(p1s), len(p2s))
		}
		for j := range p1s {
			p1, p2 := p1s[j], p2s[j]
			where := errf("relation %d alternative %d (%q)", i, j, p1.Name).Error()
			if p1.Name != p2.Name {
				return errf("%s: name %q vs %q", where, p1.Name, p2.Name)
			}
			if p1.Substvar != p2.Substvar {
				return errf("%s: substvar marker %v vs %v", where, p1.Substvar, p2.Substvar)
			}
			if !archPtrEq(p1.Arch, p2.Arch) {
				return errf("%s: arch qualifier %+v vs %+v", where, p1.Arch, p2.Arch)
			}
			if (p1.Version == nil) != (p2.Version == nil) || (p1.Version != nil && *p1.Version != *p2.Version) {
				return errf("%s: version constraint %+v vs %+v", where, p1.Version, p2.Version)
			}
			var a1, a2 dependency.ArchSet
			if p1.Architectures != nil {
				a1 = *p1.Architectures
			}
			if p2.Architectures != nil {
				a2 = *p2.Architectures
			}
			if len(a1.Architectures) != len(a2.Architectures) || a1.Not != a2.Not {
				return errf("%s: architecture restriction %+v vs %+v", where, a1, a2)
			}
			for k := range a1.Architectures {
				if a1.Architectures[k] != a2.Architectures[k] {
					return errf("%s: architecture %d %+v vs %+v", where, k, a1.Architectures[k], a2.Architectures[k])
				}
			}
			if len(p1.StageSets) != len(p2.StageSets) {
				return errf("%s: %d profile groups %+v vs %d %+v", where, len(p1.StageSets), p1.StageSets, len(p2.StageSets), p2.StageSets)
			}
			for g := range p1.StageSets {
				s1, s2 := p1.StageSets[g].Stages, p2.StageSets[g].Stages
				if len(s1) != len(s2) {
					return errf("%s: profile group %d %+v vs %+v", where, g, s1, s2)
				}
				for k := range s1 {
					if s1[k] != s2[k] {
						return errf("%s: profile group %d term %d %+v vs %+v", where, g, k, s1[k], s2[k])
					}
				}
			}
		}
	}
	return nil
}

type DepText struct {
	S string `json:"s"`
}

func checkDepFixpoint(s string, r *Recorder) error {
	d1, err := dependency.Parse(s)
	if err != nil {
		r.Case(s, false, "not-accepted")
		return nil
	}
	s2 := d1.String()
	cl := []string{"accepted"}
	if s != s2 {
		cl = append(cl, "not-canonical")
	}
	nonASCII := false
	for i := 0; i < len(s); i++ {
		if s[i] >= 0x80 {
			nonASCII = true
		}
	}
	if nonASCII {
		cl = append(cl, "non-ascii")
	}
	for _, rel := range d1.Relations {
		if len(rel.Possibilities) == 0 {
			cl = append(cl, "empty-relation")
		}
		for _, p := range rel.Possibilities {
			if p.Substvar {
				cl = append(cl, "substvar")
			}
			if p.Arch != nil {
				cl = append(cl, "qualifier")
			}
			if p.Architectures != nil && len(p.Architectures.Architectures) > 0 {
				if p.Architectures.Not {
					cl = append(cl, "negated-list")
				}
				for _, a := range p.Architectures.Architectures {
					if a.ABI == "any" || a.OS == "any" || a.CPU == "any" {
						cl = append(cl, "wildcard-arch")
						break
					}
				}
			}
			if len(p.StageSets) >= 2 {
				cl = append(cl, "multi-profile-groups")
			}
			if p.Version != nil {
				cl = append(cl, "versioned")
			}
		}
	}
	nt := len(cl) > 1
	r.Case(s, nt, cl...)
	if nt {
		r.Sample(s)
	}
	d2, err := dependency.Parse(s2)
	if err != nil {
		return errf("Parse(%q) renders as %q, which is rejected: %v", s, s2, err)
	}
	if err := depStructEq(d1, d2); err != nil {
		return errf("Parse(%q) renders as %q, which parses to a different structure: %v", s, s2, err)
	}
	if s3 := d2.String(); s3 != s2 {
		return errf("rendering is not a fixpoint: %q -> %q -> %q", s, s2, s3)
	}
	mc, err := d1.MarshalControl()
	if err != nil || mc != s2 {
		return errf("MarshalControl() = %q, %v; String() = %q", mc, err, s2)
	}
	var d3 dependency.Dependency
	if err := d3.UnmarshalControl(s2); err != nil {
		return errf("UnmarshalControl rejects the rendering %q: %v", s2, err)
	}
	if err := depStructEq(d1, &d3); err != nil {
		return errf("UnmarshalControl(%q) differs from the original parse of %q: %v", s2, s, err)
	}
	return nil
}

const depTokenBytes = ",|()[]<>!${}: \t\n=<>-+.~"

func mutateBytes(t *rapid.T, s string, alphabet string, maxEdits int) string {
	b := []byte(s)
	n := rapid.IntRange(1, maxEdits).Draw(t, "edits")
	for i := 0; i < n; i++ {
		var c byte
		switch rapid.IntRange(0, 9).Draw(t, "ck") {
		case 0:
			c = byte(rapid.IntRange(0x80, 0xff).Draw(t, "hi"))
		case 1:
			c = byte(rapid.IntRange(0, 255).Draw(t, "any"))
		case 2, 3:
			c = "abz019"[rapid.IntRange(0, 5).Draw(t, "al")]
		default:
			c = alphabet[rapid.IntRange(0, len(alphabet)-1).Draw(t, "tok")]
		}
		switch rapid.IntRange(0, 4).Draw(t, "op") {
		case 0: // insert
			p := rapid.IntRange(0, len(b)).Draw(t, "p")
			b = append(b[:p], append([]byte{c}, b[p:]...)...)
		case 1: // delete
			if len(b) > 0 {
				p := rapid.IntRange(0, len(b)-1).Draw(t, "p")
				b = append(b[:p], b[p+1:]...)
			}
		case 2: // replace
			if len(b) > 0 {
				b[rapid.IntRange(0, len(b)-1).Draw(t, "p")] = c
			}
		case 3: // duplicate a span
			if len(b) > 1 {
				p := rapid.IntRange(0, len(b)-1).Draw(t, "p")
				q := rapid.IntRange(p, min(len(b), p+6)).Draw(t, "q")
				span := append([]byte{}, b[p:q]...)
				b = append(b[:q], append(span, b[q:]...)...)
			}
		default: // splice: swap two spans' order by cutting the string
			if len(b) > 2 {
				p := rapid.IntRange(1, len(b)-1).Draw(t, "p")
				b = append(append([]byte{}, b[p:]...), b[:p]...)
			}
		}
	}
	return string(b)
}

func min(a, b int) int {
	if a < b {
		return a
	}
	return b
}

func genDepText(t *rapid.T) DepText {
	switch rapid.IntRange(0, 12).Draw(t, "src") {
	case 12:
		if rapid.IntRange(0, 9).Draw(t, "bigCompact") != 0 {
			return DepText{genDepCase(t).Text}
		}
		// a field of tens of KiB written as compactly as the grammar allows ("a,b|c(>=1)[amd64]"):
		// its canonical rendering is a good deal longer than the input
		target := rapid.IntRange(30000, 66000).Draw(t, "bigLen")
		unit := rapid.SampledFrom([]string{"ab,", "a|b,", "abc(>=1),", "x[amd64],", "lib-a<!x>,", "a,b|c(>=1.0)[amd64 i386],"}).Draw(t, "bigUnit")
		return DepText{strings.TrimSuffix(strings.Repeat(unit, target/len(unit)+1), ",")}
	case 11:
		// names that begin with a byte the parser takes for a name byte but other layers give a
		// meaning to in the first column ('#' comment, '-' armor, '.' empty line, quotes ...), as
		// the first name of the field - behind a blank, a tab, a line end, an empty relation - or
		// of a later relation, also at the start of a continuation line
		odd := rapid.SampledFrom([]string{"#", "#", "-", ".", "%", "&", "*", "/", "?", "@", "^", "_", "`", "\"", "'", "\\", ";", "=", "+", "~", "#!", "--", "/*"}).Draw(t, "oddLead")
		lead := rapid.SampledFrom([]string{" ", " ", "\t", "\n ", ", ", " , ", "", "  "}).Draw(t, "oddBefore")
		first := odd + rapid.SampledFrom([]string{"foo", "a", "lib-x1", ""}).Draw(t, "oddName")
		rest := rapid.SampledFrom([]string{"", ", bar", " | baz", " (>= 1.0), bar", ",\n" + odd + "second", ",\n " + odd + "second", " [amd64], x"}).Draw(t, "oddRest")
		return DepText{lead + first + rest}
	case 10:
		// the near-miss corpus of C04: whatever of it a parser (this one, or a more lenient
		// future one) accepts has to survive rendering like anything else
		return DepText{genBadDep(t).Text}
	case 0, 1, 2:
		return DepText{genDepCase(t).Text}
	case 3, 4, 5, 6, 7:
		return DepText{mutateBytes(t, genDepCase(t).Text, depTokenBytes, 3)}
	case 8:
		// token soup
		toks := []string{"foo", "bar", "a", ",", "|", " ", "(", ")", "[", "]", "<", ">", "!", "${", "}", ":", ">=", "<<", "=", "1.0", "amd64", "any", "linux-any", "stage1", "\n", "\t", "-", "é"}
		n := rapid.IntRange(1, 12).Draw(t, "n")
		var sb strings.Builder
		for i := 0; i < n; i++ {
			sb.WriteString(rapid.SampledFrom(toks).Draw(t, "tok"))
		}
		return DepText{sb.String()}
	default:
		return DepText{string(rapid.SliceOfN(rapid.Byte(), 0, 24).Draw(t, "raw"))}
	}
}

var specC05Fixpoint = Register(&Spec[DepText]{
	Prop: "C05", Name: "fixpoint",
	Rule:  "candidate strings from (a) all C04 renderings (ASTs x spacing classes), (b) 1..3 byte-level edits of them (insert/delete/replace/duplicate/splice, biased to the token bytes , | ( ) [ ] < > ! $ { } : blank tab newline and to bytes >= 0x80), (c) token soups and raw bytes, (d) the malformed fields of C04/malformed (substvars followed by clauses, unterminated constructs, doubled clauses ...), (f) fields of 30 to 66 KiB written as compactly as the grammar allows (their canonical rendering is longer), (e) fields whose first name (or the first name of a continuation line) starts with '#', '-', '.', a quote or another byte that means something in the first column of a line to other layers, written behind a blank, tab, line end or empty relation; every string dependency.Parse accepts must render to a string that is accepted, parses to a structurally identical value (names, qualifier triple, operator+number, arch list+negation, profile groups, substvar marker; nil == empty), is itself a fixpoint of render, equals MarshalControl, and reads back through UnmarshalControl. Non-trivial: accepted and not already canonical, or containing a substvar, qualifier, wildcard arch, negated list, >=2 profile groups, version constraint or non-ASCII byte; distinct by text.",
	Check: func(c DepText, r *Recorder) error { return checkDepFixpoint(c.S, r) },
})

func TestC05_Fixpoint(t *testing.T) {
	specC05Fixpoint.Run(t, genDepText, 40000, 300000)
}

func FuzzC05_Fixpoint(f *testing.F) {
	for _, s := range []string{"foo, bar | baz", "foo:any (>= 1.0) [amd64 i386] <stage1 !nocheck> <cross>", "${misc:Depends}, libc6 (>= 2.3) | libc6.1",
		"foo [!linux-any], bar:native", "a <>", ":", "(>= 1)", "<a! b>", "é", "x [musl-linux-amd64 any-amd64 linux-any]", "foo,\n bar\n", "a|b|${c}"} {
		f.Add(s)
	}
	f.Fuzz(func(t *testing.T, s string) {
		if len(s) > 512 {
			return
		}
		if err := checkDepFixpoint(s, nil); err != nil {
			t.Fatalf("C05/fixpoint violated on %q: %v", s, err)
		}
	})
}

// ------------------------------------------------------------------ C05/archname

type ArchName struct {
	N string `json:"n"`
}

func genArchNameAny(t *rapid.T) ArchName {
	comp := []string{"any", "all", "gnu", "musl", "linux", "kfreebsd", "hurd", "amd64", "i386", "arm64", "", "x", "eabi"}
	switch rapid.IntRange(0, 6).Draw(t, "k") {
	case 6:
		// the product of dpkg's tables: every CPU (the ABI-carrying aliases armhf, armel, x32,
		// mipsn32 ... among them) alone, behind every OS, and behind every ABI-OS pair
		cpu := rapid.SampledFrom([]string{"amd64", "i386", "arm64", "armhf", "armel", "arm", "armeb", "mips", "mipsel", "mips64el", "ppc64el", "powerpc", "powerpcspe", "riscv64", "s390x", "x32", "sparc64", "sh4", "m68k", "ia64", "alpha", "hppa", "arm64ilp32", "mipsn32", "mipsn32el", "loong64", "any"}).Draw(t, "pcpu")
		os := rapid.SampledFrom([]string{"linux", "kfreebsd", "hurd", "freebsd", "netbsd", "openbsd", "darwin", "solaris", "uclinux", "mint", "any"}).Draw(t, "pos")
		abi := rapid.SampledFrom([]string{"gnu", "musl", "uclibc", "gnueabi", "gnueabihf", "gnux32", "gnuabin32", "gnuspe", "eabi", "eabihf", "base", "bsd", "sysv", "any"}).Draw(t, "pabi")
		switch rapid.IntRange(0, 2).Draw(t, "pparts") {
		case 0:
			return ArchName{cpu}
		case 1:
			return ArchName{os + "-" + cpu}
		default:
			return ArchName{abi + "-" + os + "-" + cpu}
		}
	case 0:
		return ArchName{genArchName(t, "real")}
	case 1, 2, 3:
		n := rapid.IntRange(1, 4).Draw(t, "parts")
		ps := make([]string, n)
		for i := range ps {
			ps[i] = rapid.SampledFrom(comp).Draw(t, "c")
		}
		return ArchName{strings.Join(ps, "-")}
	default:
		return ArchName{genFromAlphabet(t, "soup", "abcxyz019-", 0, 12)}
	}
}

var specC05ArchName = Register(&Spec[ArchName]{
	Prop: "C05", Name: "archname",
	Rule: "architecture names of 1..4 dash-separated components over {any, all, gnu, musl, linux, kfreebsd, hurd, amd64, i386, arm64, eabi, x, empty}, real Debian names, the product of dpkg's CPU (27), OS (11) and ABI (14) tables in one-, two- and three-part spellings, and random [a-z0-9-]* strings; for every name ParseArch accepts: ParseArch(String(ParseArch(n))) must equal ParseArch(n) on all of (ABI, OS, CPU), String must be a fixpoint, and MarshalControl/UnmarshalControl must carry the same triple. Non-trivial: a component is 'any', or the name has >= 2 parts; distinct by name.",
	Check: func(c ArchName, r *Recorder) error {
		a1, err := dependency.ParseArch(c.N)
		if err != nil {
			r.Case(c.N, false, "not-accepted")
			return nil
		}
		parts := strings.Count(c.N, "-") + 1
		wild := a1.ABI == "any" || a1.OS == "any" || a1.CPU == "any"
		cl := []string{}
		if wild {
			cl = append(cl, "wildcard")
		}
		cl = append(cl, errf("parts:%d", min(parts, 4)).Error())
		nt := wild || parts >= 2
		r.Case(c.N, nt, cl...)
		if nt {
			r.Sample(c.N)
		}
		s := a1.String()
		a2, err := dependency.ParseArch(s)
		if err != nil {
			return errf("ParseArch(%q) = %+v renders as %q, which is rejected: %v", c.N, *a1, s, err)
		}
		if *a2 != *a1 {
			return errf("ParseArch(%q) = %+v renders as %q, which parses to %+v", c.N, *a1, s, *a2)
		}
		if s2 := a2.String(); s2 != s {
			return errf("arch rendering is not a fixpoint: %q -> %q -> %q", c.N, s, s2)
		}
		mc, err := a1.MarshalControl()
		if err != nil || mc != s {
			return errf("Arch.MarshalControl() = %q, %v; String() = %q", mc, err, s)
		}
		// the same round trip through the control-field entry points
		var a3 dependency.Arch
		if err := a3.UnmarshalControl(c.N); err != nil {
			return errf("Arch.UnmarshalControl(%q) fails although ParseArch accepts: %v", c.N, err)
		}
		mc3, err := a3.MarshalControl()
		if err != nil {
			return errf("Arch.MarshalControl(%+v): %v", a3, err)
		}
		var a4 dependency.Arch
		if err := a4.UnmarshalControl(mc3); err != nil || a4 != a3 {
			return errf("control round trip of arch %q: UnmarshalControl gives %+v, rendered %q, read back as %+v, %v", c.N, a3, mc3, a4, err)
		}
		return nil
	},
})

func TestC05_ArchName(t *testing.T) {
	specC05ArchName.Run(t, genArchNameAny, 8000, 80000)
}
