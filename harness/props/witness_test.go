package props

import (
	"encoding/json"
	"os"
	"path/filepath"
	"testing"
)

// TestMakeWitness writes hand-built witness cases for findings whose inputs
// are binary artefacts (run only when VERIF_MAKE_WITNESS names a directory).
func TestMakeWitness(t *testing.T) {
	dir := os.Getenv("VERIF_MAKE_WITNESS")
	if dir == "" {
		t.Skip("VERIF_MAKE_WITNESS not set")
	}
	save := func(prop, sub, name, note string, c interface{}) {
		raw, _ := json.Marshal(c)
		doc, _ := json.MarshalIndent(replayFile{Property: prop, Sub: sub, Note: note, Case: raw}, "", " ")
		os.MkdirAll(filepath.Join(dir, prop), 0o755)
		if err := os.WriteFile(filepath.Join(dir, prop, name+".json"), doc, 0o644); err != nil {
			t.Fatal(err)
		}
	}
	e := newExp()
	e.Scalars["Package"] = "good"
	m := DebModel{ControlText: "Package: good\nVersion: 1.0\nArchitecture: all\nMaintainer: A <a@b.c>\nDescription: good\n", Exp: e, SourceName: "good", DebianBinary: "2.0\n",
		CtlCodec: "gz", DataCodec: "gz", DataFiles: []TarFile{{Name: "./usr/bin/x", Type: "reg", Content: []byte("hello")}}}
	m.CtlFiles = []TarFile{{Name: "./control", Type: "reg", Content: []byte(m.ControlText)}}
	signer := pgpEntities()[0]
	_, members, err := buildSigned(m, signer, "origin")
	if err != nil {
		t.Fatal(err)
	}
	evilTar, _ := buildTar([]TarFile{{Name: "./control", Type: "reg", Content: []byte("Package: evil\nVersion: 6.6.6\nArchitecture: all\n")}})
	decoy := ArMember{Name: "control.tar", Mode: "100644", Data: evilTar}
	ms := append(append(append([]ArMember{}, members[:1]...), decoy), members[1:]...)
	raw := renderAr(ms)
	save("C16", "debsig", "F28", "decoy stored control.tar (Package: evil) in front of the signed control.tar.gz",
		SigCase{Raw: raw, Keyring: serializePublic(signer), Role: "origin", SignerFP: fingerprint(signer), Exp: e, Expect: "reject", Fault: "decoy:control.tar@1", Reps: 64})
	save("C15", "corrupt", "F28", "two control members of different extensions: repeated loads disagree", BytesCase{Raw: raw, Deb: true, Note: "decoy"})
	dup := append(append([]ArMember{}, members[:2]...), ArMember{Name: members[1].Name, Mode: "100644", Data: mustGz(evilTar)})
	dup = append(dup, members[2:]...)
	save("C16", "debsig", "F28b", "same-name duplicate control.tar.gz with other content after the signed one",
		SigCase{Raw: renderAr(dup), Keyring: serializePublic(signer), Role: "origin", SignerFP: fingerprint(signer), Exp: e, Expect: "reject", Fault: "decoy:control.tar.gz@2", Reps: 8})
}

func mustGz(b []byte) []byte {
	z, err := compress("gz", b)
	if err != nil {
		panic(err)
	}
	return z
}
