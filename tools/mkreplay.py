#!/usr/bin/env python3
"""tools/mkreplay.py Cnn sub name 'json-case' [note]  -> replays/Cnn/name.json"""
import json, os, sys
root = os.path.dirname(os.path.dirname(os.path.abspath(__file__)))
prop, sub, name, case = sys.argv[1:5]
note = sys.argv[5] if len(sys.argv) > 5 else ""
d = os.path.join(root, "replays", prop); os.makedirs(d, exist_ok=True)
json.dump({"property": prop, "sub": sub, "note": note, "case": json.loads(case)}, open(os.path.join(d, name + ".json"), "w"), indent=1)
print(os.path.join(d, name + ".json"))
