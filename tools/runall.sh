#!/bin/sh
# tools/runall.sh <tier> <seed> [jobs]  - run every claimed check, print one line each
tier=${1:-quick}; seed=${2:-1}; jobs=${3:-4}
cd "$(dirname "$0")/.."
ls harness/props/c??_test.go | sed 's/.*\/c\(..\)_test.go/C\1/' | xargs -P "$jobs" -I{} sh -c "VERIF_SEED=$seed ./check {} $tier > out/runall-{}-$seed.log 2>&1; echo {} rc=\$? \$(tail -1 out/runall-{}-$seed.log | cut -c1-150)"
