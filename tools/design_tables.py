#!/usr/bin/env python3
"""Regenerates section 7 of DESIGN.md from seeded/*/meta.json, out/seeded-results.json and out/mutants-all.log."""
import glob, json, os, re
root = os.path.dirname(os.path.dirname(os.path.abspath(__file__)))
res = {r["id"]: r for r in json.load(open(os.path.join(root, "out", "seeded-results.json")))}
strengthened = json.load(open(os.path.join(root, "seeded", "STRENGTHENED.json")))
rows = []
for d in sorted(glob.glob(os.path.join(root, "seeded", "*-?"))):
    sid = os.path.basename(d)
    m = json.load(open(os.path.join(d, "meta.json")))
    r = res.get(sid, {})
    caught = [p for p, v in (r.get("checks") or {}).items() if v["rc"] == 1]
    first = ""
    for p, v in (r.get("checks") or {}).items():
        if v["rc"] == 1 and not first:
            first = v["detail"].strip()[:110].replace("|", "\\|")
    note = strengthened.get(sid, "")
    if m.get("retired"):
        hist, verdict = "**retired** - " + m["retired"], "-"
    elif note.startswith("NOT COUNTED"):
        hist, verdict = "**judged not to break the statement** - " + note[len("NOT COUNTED: "):], ", ".join(caught) or "not flagged (by design)"
    else:
        hist, verdict = (("**missed at first** - " + note) if note else "caught as built"), ", ".join(caught) or "MISSED"
    rows.append("| %s | %s | %s | %s%s |" % (sid, m["needs_to_manifest"].replace("|", "\\|").replace("\n", " "), verdict, hist, ""))
seed_table = "| seed | what it needs in order to manifest | caught by (quick tier) | history |\n|---|---|---|---|\n" + "\n".join(rows)
mut = []
for l in open(os.path.join(root, "out", "mutants-all.log")):
    m = re.match(r"^(\S+)\s+(caught|MISSED|partly|EDIT-MISMATCH\S*)\s+baseline=(\S+)(.*)$", l)
    if m:
        mut.append(m.groups())
by = {}
for name, st, base, rest in mut:
    p = name.split("-")[0].upper()
    by.setdefault(p, []).append((name, st, base))
mrows = []
for p in sorted(by):
    names = ", ".join("%s%s" % (n.split("-", 1)[1], "" if st == "caught" else " (**%s**)" % st) for n, st, b in by[p])
    mrows.append("| %s | %d | %s |" % (p, len(by[p]), names))
mut_table = "| property | mutants | names (all caught by the quick tier unless marked) |\n|---|---|---|\n" + "\n".join(mrows)
open(os.path.join(root, "out", "section7.md"), "w").write(seed_table + "\n\n@@MUT@@\n\n" + mut_table + "\n")
print(len(rows), "seeds;", len(mut), "mutants;", sum(1 for x in mut if x[1] != "caught"), "not caught")
