#!/usr/bin/env python3
"""Regenerates MANIFEST.json from the table below (keeps it schema-valid at all times).
A property is claimed as soon as harness/props/cNN_test.go exists; everything
else is listed under not_applicable with the reason "not built yet"."""
import json, os

ROOT = os.path.dirname(os.path.abspath(__file__))

P = {
 "C01": ("exploration", "3/C01", "reference model + differential",
   "Generated pairs of versions (struct-built and parsed) are ordered by version.Compare and by an independent comparator written from Policy 5.6.12 (math/big digit runs); a sample is also decided by dpkg's own perl and C implementations; one long process history (0.6-4 million fresh and repeated versions) and concurrent batches under the race detector. Random search with neighbour-biased generation; no proof of absence.",
   "reference comparator is my reading of Policy 5.6.12, cross-validated against Dpkg::Version and dpkg --compare-versions when present (skipped, and counted, when absent)"),
 "C02": ("exploration", "3/C02", "algebraic laws over generated pools",
   "Reflexivity, antisymmetry of sign, transitivity and congruence of equivalents are checked on triples drawn from small pools rich in equal-but-differently-spelled versions; sort.Sort(version.Slice) is checked for termination (bounded Less calls), permutation and total non-decrease.",
   "laws are checked on sampled triples/slices only"),
 "C03": ("exploration", "3/C03", "renderer-inverse + rejection classes + round trip",
   "Policy-grammar strings must parse to the parts the renderer used; each near-miss class named by the statement must be rejected; every accepted string (grammar, edits, soup, native fuzz) must survive String/MarshalControl/MarshalText/JSON round trips; one long process history of parses with byte-identical and re-padded repeats at lags up to 120 000 steps.",
   "expected parts come from the generator's renderer, not from the parser"),
 "C04": ("exploration", "3/C04", "grammar-directed generation, AST equality",
   "Dependency ASTs (bounded-exhaustive small shapes x spacing schemes, random large ones) are rendered by an independent renderer and must parse back to exactly the AST; single-corruption malformed fields (22 classes) must return (nil, error); one long process history of fresh and repeated fields, old results looked at again.",
   "legal spacing = spaces, tabs, newlines where Policy/dpkg allow whitespace; generator soundness cross-checked against Dpkg::Deps when present"),
 "C05": ("exploration", "3/C05", "parse-render-parse fixpoint",
   "For every accepted string (grammar renderings, byte-level mutations, raw bytes, native fuzz in thorough) String() must re-parse to a structurally identical value and be a fixpoint; architecture names (dpkg's CPU x OS x ABI tables included) must keep their (abi, os, cpu) triple through parse-render-parse; concurrent batches under the race detector.",
   "structural equality treats nil and empty slices alike"),
 "C06": ("exploration", "3/C06", "bounded-exhaustive abstraction + reference matcher",
   "All 1 820 (concrete, pattern) pairs of the three-generic-names abstraction and all short lists over it are swept exhaustively against a 10-line matcher; possibilities selection and SatisfiedBy are checked on generated ASTs / (op, N, V) triples against the C01 reference order.",
   "the abstraction (each component 'any' or one of three names) is exhaustive up to renaming, as the property states"),
 "C07": ("exploration", "3/C07", "document model, reader agreement, invariant",
   "deb822 documents are rendered from a model (comments, continuations, ' .', CRLF, blank runs, missing final newline); All(), Next(), Unmarshal(&[]T) and Decoder must all return the model; reused variables, readers asked again after EOF and results kept across a second decode are part of the model check; the keys/Order invariant (also of Paragraph.Update) is checked on mutated documents and raw bytes (native fuzz in thorough).",
   "model encodes the reader's documented value convention (continuation values end in a newline)"),
 "C08": ("exploration", "3/C08", "write-read identity, idempotence",
   "Paragraphs with line-sequence values are written and read back (same order, same logical lines, no blank line inside a paragraph); read-write-read cycles must be stable; encoder output must read back with the same paragraph count; independent goroutines write their own paragraphs at the same time through yielding writers under the race detector.",
   "values compared up to one trailing newline, as the statement says"),
 "C09": ("exploration", "3/C09", "marshal-unmarshal identity + pass-through model",
   "A family of probe structs covering every supported kind/tag is round-tripped; optional/required emission rules are checked on the emitted paragraph; unknown fields must pass through in order while known fields reflect current values; Marshal never panics.",
   "values drawn from each kind's representable domain"),
 "C10": ("exploration", "3/C10", "per-kind document models",
   "Models of .dsc, .changes, debian/control, Packages, Sources and DEBIAN/control are rendered in Debian layout (folded / single-line) and the typed parsers and accessors (BestChecksums over a reused variable among them) must return exactly the model; indexes of up to 4100 paragraphs.",
   "layouts follow the fixtures of the suite and dpkg tool output"),
 "C11": ("fault_enumeration", "3/C11", "exhaustive single-byte faults on clearsigned documents",
   "For generated clearsigned documents every single-byte substitution, deletion, insertion and truncation plus splices and signature swaps are enumerated: reading must fail or return exactly the signed paragraphs with the true signer from the keyring.",
   "golang.org/x/crypto/openpgp is trusted to verify; key material comes from crypto/rand and does not affect verdicts"),
 "C12": ("exploration", "3/C12", "differential against crypto/*",
   "Hashing writers/readers are driven with generated chunkings and compared against crypto/md5, sha1, sha256, sha512; verifiers must accept iff the digest under the entry's own algorithm matches, for entries parsed from fields, via BestChecksums and from hashers (all four algorithms); digests and entries stay what they were after later calls; concurrent batches under the race detector.",
   "md5/sha1 entries parsed from Files / Checksums-Sha1 fields are not named by the statement and not generated; entries built from md5/sha1 hashers are (F52)"),
 "C13": ("exploration", "3/C13", "member-list model",
   "ar archives are rendered from a member model by an independent writer; iteration must return exactly the model, readers must be independent, re-readable and exact, and end-of-archive must be reported; archives of up to 24 000 members, members ending on the 64 KiB mark, names other ar dialects give a meaning to.",
   "archives follow the common ar layout (60-byte headers, even padding)"),
 "C14": ("exploration", "3/C14", "package model x 36 codec pairs + dpkg-deb",
   "Generated .deb packages over all 6x6 compression pairs (plus real dpkg-deb builds when present) must load with control fields, extensions, member index and data tar equal to the model; bad format versions and missing members are rejected; loads are deterministic - also for files with members named like the control or data member without being one (C14/samebytes); tars in the GNU, ustar and pax dialects, sources with and without a known size.",
   "xz/bzip2 members are produced by the system tools; skipped and counted when absent"),
 "C15": ("exploration", "3/C15", "structured corruption + step-bounded reader",
   "Corrupted and truncated archives (every header column, every truncation offset) and raw bytes (native fuzz in thorough) are read through a counting ReaderAt: no panic, bounded steps, returned members carry the header magic, non-negative size and exactly Size bytes; repeated loads agree (error text included); tar-level hostile control members (sparse, size-claiming, half a million continuation lines) must neither hang nor panic.",
   "third-party decompressors on hostile streams are outside the claim (property text)"),
 "C16": ("fault_enumeration", "3/C16", "exhaustive byte faults and decoy members on signed .debs",
   "For generated debsig-signed packages every single-byte corruption of the signed members and the signature and every decoy control.*/data.* insertion is enumerated and loaded repeatedly: load or verification must fail, and whenever both succeed the control data must be the signed one.",
   "openpgp verification trusted; repetition covers Go map iteration order"),
 "C17": ("exploration", "3/C17", "entry model + every truncation point",
   "Changelogs rendered from an entry model must parse to exactly the model; every prefix of generated changelogs must yield all complete entries or an error; malformed header/trailer/date classes must not silently shorten the list.",
   "generator soundness cross-checked with dpkg-parsechangelog when present"),
 "C18": ("exploration", "3/C18", "totality, determinism, value-xor-error, race detector",
   "Arbitrary and grammar-mutated bytes are fed to every parser entry point under a watchdog: no panic, no hang, never a usable value together with an error, identical results (error text included) on repetition, into a destination that held other content before, under another local time zone and under 32 concurrent goroutines with -race.",
   "the Go scheduler is not controlled; the race detector reports races that occur on exercised paths"),
 "C19": ("exploration", "3/C19", "graph oracle",
   "Random build-dependency graphs are rendered as real .dsc text, parsed and ordered; acyclic graphs must give a permutation respecting every model edge, cyclic ones an error, and repeated runs the same outcome.",
   "edge set computed from the model with the C06 selection oracle"),
 "C20": ("fault_enumeration", "3/C20", "state machine over a scratch tree + injected faults",
   "Copy/Move/Remove of generated uploads are run against a scratch tree with a fault planted at each referenced file and at the control file; final state, handle path, byte identity, control-file-last ordering and containment (nothing outside source and destination directories touched) are checked; syscall-level failures are injected with strace when ptrace is available; the library's own scratch names in a destination are learned through inotify and attacked with planted links (C20/scratchnames); independent uploads go into one directory at the same time (C20/together).",
   "faults are filesystem pre-conditions and strace-injected syscall errors; power-loss semantics are out of scope"),
}

def main():
    claimed = sorted(p for p in P if os.path.exists(os.path.join(ROOT, "harness", "props", p.lower() + "_test.go")))
    checks = []
    for p in claimed:
        level, ref, tech, text, note = P[p]
        checks.append({
            "property_id": p,
            "quick_cmd": "./check %s quick" % p,
            "thorough_cmd": "./check %s thorough" % p,
            "evidence_file": "/verif/evidence/%s.json" % p,
            "replay_cmd_template": "./check %s --replay {path}" % p,
            "engine": "rapid-harness",
            "level_claimed": {"category": level, "text": text, "design_ref": "DESIGN.md section " + ref},
            "level_note": note,
            "technique": "property-based testing (pgregory.net/rapid): " + tech,
        })
    na = [{"property_id": p, "reason": "check not built yet (planned, see DESIGN.md section 3); not claimed until its quick tier is silent on the tree and red on its must-catch mutants"}
          for p in sorted(P) if p not in claimed]
    m = {
        "version": 1,
        "setup_cmd": "./setup.sh",
        "hooks": {
            "guard": "verif",
            "enable": "none needed: the harness is a separate Go module (harness/go.mod, replace pault.ag/go/debian => /repo) that uses only the exported API; every check rebuilds from /repo's working tree via go test -c",
            "baseline_off_cmd": "cd /repo && GOFLAGS=-mod=mod GOPROXY=off GOSUMDB=off go test -vet=off -count=1 ./...",
            "source_commits": [],
            "add_only": True,
        },
        "engines": [{
            "name": "rapid-harness", "path": "harness/props",
            "serves_properties": claimed,
            "kind_free_text": "Go test binary: pgregory.net/rapid v1.3.0 generators + shrinking, bounded-exhaustive enumerations, native go fuzz targets (thorough tier), external Debian reference tools as oracles/guards; driven by ./check",
        }],
        "checks": checks,
        "not_applicable": na,
        "notes": "exit 0 = held on everything explored; exit 1 + VIOLATION line = violation with replay file; exit 2 = inconclusive (build failure, time-out). VERIF_SEED selects the rapid seed (0 is remapped). Known findings: known_findings.json.",
    }
    with open(os.path.join(ROOT, "MANIFEST.json"), "w") as fh:
        json.dump(m, fh, indent=1)
        fh.write("\n")
    print("claimed:", " ".join(claimed))

if __name__ == "__main__":
    main()
