package props

import (
	"strings"

	"pgregory.net/rapid"
)

// ParaWant is what a faithful reader must return for one paragraph.
type ParaWant struct {
	Order  []string          `json:"order"`
	Values map[string]string `json:"values"`
	// Alt holds, for fields whose first line is empty and that have
	// continuation lines, the equally faithful value that keeps the empty
	// first line (leading "\n").
	Alt map[string]string `json:"alt,omitempty"`
}

type DocCase struct {
	Text  string     `json:"text"`
	Want  []ParaWant `json:"want"`
	Feats []string   `json:"feats"`
}

// includes names that coincide with Go member names of the library's own types (Values, Order,
// Epoch, ...): to a deb822 document they are ordinary field names
var fieldNamePool = []string{"Package", "Version", "Source", "Depends", "Description", "Architecture", "Maintainer", "Files", "X-Foo", "Checksums-Sha256", "Homepage", "Build-Depends", "a", "Z9", "x_y.z+w-v", "Priority", "Section", "Tag", "Binary", "Format",
	"Values", "Order", "Epoch", "Revision", "Paragraph", "Filename"}

func genFieldName(t *rapid.T, label string, used map[string]bool) string {
	for i := 0; ; i++ {
		var n string
		if rapid.IntRange(0, 2).Draw(t, label+"k") > 0 {
			n = rapid.SampledFrom(fieldNamePool).Draw(t, label+"pool")
		} else {
			first := "ABCXYZabcxyz0123456789"
			rest := first + "_.+-"
			n = string(first[rapid.IntRange(0, len(first)-1).Draw(t, label+"f")]) + genFromAlphabet(t, label+"r", rest, 0, 10)
		}
		if !used[n] {
			used[n] = true
			return n
		}
		if i > 20 {
			n = n + "-" + genFromAlphabet(t, label+"uniq", "abcdefghij", 4, 6)
			if !used[n] {
				used[n] = true
				return n
			}
		}
	}
}

var textTokens = []string{"foo", "bar", "1.0-1", "(>= 2)", "a:b", "#not-a-comment", "http://example.org/", "<x@y.z>", "é", "日本", "—", ":", "::", "libfoo-dev,", "|", "[amd64]", "Ünï", "*", "-", "--", "=", "\"q\"", "'", "\\", "$", "{}", "tab\there", "two  spaces", ".", "..", ".x"}

// genText draws a line text without leading/trailing whitespace; never
// whitespace-only; may be empty only if allowEmpty.
func genLineText(t *rapid.T, label string, allowEmpty bool) string {
	n := rapid.IntRange(0, 5).Draw(t, label+"n")
	if n == 0 && !allowEmpty {
		n = 1
	}
	parts := make([]string, n)
	for i := range parts {
		parts[i] = rapid.SampledFrom(textTokens).Draw(t, label+"tok")
	}
	return strings.Join(parts, rapid.SampledFrom([]string{" ", " ", "  ", "\t", ""}).Draw(t, label+"sep"))
}

func blanks(t *rapid.T, label string, max int) string {
	n := rapid.IntRange(0, max).Draw(t, label)
	s := ""
	for i := 0; i < n; i++ {
		s += rapid.SampledFrom([]string{" ", " ", "\t"}).Draw(t, label+"c")
	}
	return s
}

// genDocCase renders a deb822 document from a generated model.
func genDocCase(t *rapid.T, maxParas int) DocCase {
	eol := "\n"
	feats := map[string]bool{}
	if rapid.IntRange(0, 3).Draw(t, "crlf") == 0 {
		eol = "\r\n"
		feats["crlf"] = true
	}
	var lines []string // without eol
	comment := func(where string) {
		if rapid.IntRange(0, 7).Draw(t, "cm"+where) == 0 {
			lines = append(lines, "#"+genLineText(t, "cmt", true))
			feats["comment-"+where] = true
		}
	}
	nb := rapid.IntRange(0, 2).Draw(t, "blankBefore")
	for i := 0; i < nb; i++ {
		lines = append(lines, "")
		feats["leading-blank"] = true
	}
	np := rapid.IntRange(0, maxParas).Draw(t, "paras")
	want := []ParaWant{}
	for p := 0; p < np; p++ {
		if p > 0 {
			k := rapid.IntRange(1, 3).Draw(t, "blankBetween")
			for i := 0; i < k; i++ {
				lines = append(lines, "")
				comment("between-paragraphs")
			}
			if k > 1 {
				feats["blank-run"] = true
			}
		}
		comment("before-first-field")
		pw := ParaWant{Values: map[string]string{}, Alt: map[string]string{}}
		used := map[string]bool{}
		nf := rapid.IntRange(1, 6).Draw(t, "fields")
		for f := 0; f < nf; f++ {
			name := genFieldName(t, "fn", used)
			first := genLineText(t, "first", true)
			if rapid.IntRange(0, 3).Draw(t, "emptyFirst") == 0 {
				first = ""
			}
			sep := ":" + blanks(t, "sepb", 3)
			lines = append(lines, name+sep+first+blanks(t, "trailb", 2))
			logical := []string{}
			if first != "" {
				logical = append(logical, first)
			}
			nc := rapid.SampledFrom([]int{0, 0, 0, 1, 2, 3, 6}).Draw(t, "conts")
			if rapid.IntRange(0, 1199).Draw(t, "manyConts") == 0 {
				// a field of some hundred continuation lines (a long Description, a Files list):
				// several KiB of value, with more fields behind it
				nc = rapid.IntRange(150, 300).Draw(t, "nconts")
				feats["large-folded-field"] = true
			}
			for c := 0; c < nc; c++ {
				comment("inside-field")
				marker := rapid.SampledFrom([]string{" ", " ", "\t"}).Draw(t, "marker")
				if rapid.IntRange(0, 4).Draw(t, "dot") == 0 {
					lines = append(lines, marker+"."+blanks(t, "dottrail", 1))
					logical = append(logical, "")
					feats["dot-line"] = true
				} else {
					indent := blanks(t, "indent", 3)
					txt := genLineText(t, "cont", false)
					if indent != "" {
						feats["indented-continuation"] = true
					}
					if indent == "" && txt == "." {
						txt = ".."
					}
					lines = append(lines, marker+indent+txt+blanks(t, "conttrail", 2))
					logical = append(logical, indent+txt)
				}
			}
			pw.Order = append(pw.Order, name)
			if nc == 0 {
				pw.Values[name] = first
			} else {
				feats["continuation"] = true
				pw.Values[name] = strings.Join(logical, "\n") + "\n"
				if first == "" {
					pw.Alt[name] = "\n" + pw.Values[name]
					feats["empty-first-line"] = true
				}
			}
			comment("between-fields")
		}
		want = append(want, pw)
	}
	na := rapid.IntRange(0, 2).Draw(t, "blankAfter")
	for i := 0; i < na; i++ {
		lines = append(lines, "")
	}
	comment("last-line")
	text := strings.Join(lines, eol)
	if len(lines) > 0 {
		if rapid.IntRange(0, 3).Draw(t, "finalNewline") != 0 {
			text += eol
		} else {
			feats["no-final-newline"] = true
		}
	}
	if np >= 2 {
		feats["multi-paragraph"] = true
	}
	fl := []string{}
	for k := range feats {
		fl = append(fl, k)
	}
	sortStrings(fl)
	return DocCase{Text: text, Want: want, Feats: fl}
}
