package props

import (
	"bytes"
	"compress/gzip"
	"fmt"
	"io"
	"os"
	"runtime"
	"sort"
	"strings"
	"sync"
	"testing"
	"time"

	"pault.ag/go/debian/deb"
	"pault.ag/go/debian/dependency"
	"pgregory.net/rapid"
)

// countingReaderAt counts ReadAt calls and cuts the run off (with an error)
// once a budget is exceeded, so an endless loop shows up as a verdict.
type countingReaderAt struct {
	r        *bytes.Reader
	mu       sync.Mutex // an io.ReaderAt may be read by several goroutines at once (a decoder reading ahead)
	calls    int
	budget   int
	exceeded bool
	eager    bool // report io.EOF together with a read that ends exactly at the end of the input
}

func (c *countingReaderAt) over() bool {
	c.mu.Lock()
	defer c.mu.Unlock()
	return c.exceeded
}

var errReadBudget = fmt.Errorf("verif: read budget exceeded")

func (c *countingReaderAt) ReadAt(p []byte, off int64) (int, error) {
	c.mu.Lock()
	c.calls++
	over := c.budget > 0 && c.calls > c.budget
	if over {
		c.exceeded = true
	}
	c.mu.Unlock()
	if over {
		return 0, errReadBudget
	}
	n, err := c.r.ReadAt(p, off)
	if c.eager && err == nil && off+int64(n) == c.r.Size() {
		err = io.EOF
	}
	return n, err
}

func stepBound(n int) int { return n/60 + 2 }

// checkArBytes iterates raw as an ar archive and checks the C15 invariants.
// It returns the number of members returned.
func checkArBytes(raw []byte, eager bool) (int, error) {
	return checkArOn(&countingReaderAt{r: bytes.NewReader(raw), eager: eager}, raw)
}

// checkArSized: the same invariants when the source knows its size and says so - a bytes.Reader
// (Size), a window of a larger buffer with a good archive behind the window's end
// (io.SectionReader) and, for one input in eight, a file on disk (Stat)
func checkArSized(raw []byte) error {
	if _, err := checkArOn(bytes.NewReader(raw), raw); err != nil {
		return errf("read from a bytes.Reader: %v", err)
	}
	front := []byte("JUNK-IN-FRONT-")
	big := append(append(append([]byte{}, front...), raw...), renderAr([]ArMember{{Name: "behind-window", Mode: "100644", Data: []byte("not part of the input")}, {Name: "control.tar", Mode: "100644", Data: []byte("x")}})...)
	if _, err := checkArOn(io.NewSectionReader(bytes.NewReader(big), int64(len(front)), int64(len(raw))), raw); err != nil {
		return errf("read as an io.SectionReader window of a larger buffer: %v", err)
	}
	sum := 0
	for _, b := range raw {
		sum += int(b)
	}
	if sum%8 == 0 {
		f, err := os.CreateTemp(workDir(), "c15-*.ar")
		if err != nil {
			return errf("HARNESS: %v", err)
		}
		defer os.Remove(f.Name())
		defer f.Close()
		if _, err := f.Write(raw); err != nil {
			return errf("HARNESS: %v", err)
		}
		if _, err := checkArOn(f, raw); err != nil {
			return errf("read from a file: %v", err)
		}
	}
	return nil
}

func checkArOn(cr io.ReaderAt, raw []byte) (int, error) {
	ar, err := deb.LoadAr(cr)
	if err != nil {
		if ar != nil {
			return 0, errf("LoadAr returned an error AND an archive")
		}
		return 0, nil
	}
	steps, members := 0, 0
	for {
		e, err := ar.Next()
		steps++
		if steps > stepBound(len(raw)) {
			return members, errf("iteration took %d steps for %d input bytes (bound %d): it does not advance", steps, len(raw), stepBound(len(raw)))
		}
		if err != nil {
			if e != nil {
				return members, errf("Next() returned a member AND the error %v", err)
			}
			return members, nil // io.EOF or a parse error: both are clean ends
		}
		if e == nil {
			return members, errf("Next() returned (nil, nil)")
		}
		members++
		if e.Size < 0 {
			return members, errf("member %q has negative size %d", e.Name, e.Size)
		}
		if e.Data == nil {
			return members, errf("member %q has no Data reader", e.Name)
		}
		_, off, n := e.Data.Outer()
		if n != e.Size {
			return members, errf("member %q: reader window %d != Size %d", e.Name, n, e.Size)
		}
		if off < 68 || off > int64(len(raw)) || raw[off-2] != 0x60 || raw[off-1] != 0x0a {
			var got []byte
			if off >= 2 && off <= int64(len(raw)) {
				got = raw[off-2 : off]
			}
			return members, errf("member %q (data offset %d) was returned although its header does not end in the magic 0x60 0x0A (found %x)", e.Name, off, got)
		}
		b, rerr := io.ReadAll(e.Data)
		if rerr != nil || int64(len(b)) != e.Size {
			return members, errf("member %q declares %d bytes but its reader delivers %d (err %v)", e.Name, e.Size, len(b), rerr)
		}
	}
}

// debOutcome loads raw as a .deb and summarises what came out.
func debOutcome(raw []byte, eager bool) (string, error) {
	cr := &countingReaderAt{r: bytes.NewReader(raw), budget: 8*stepBound(len(raw)) + len(raw)/16 + 2000, eager: eager}
	var out string
	err := withTimeout(20*time.Second, "deb.Load", func() error {
		d, err := deb.Load(cr, "fuzz.deb")
		if cr.over() {
			return errf("deb.Load needed more than %d reads for %d input bytes: it does not advance", cr.budget, len(raw))
		}
		if err != nil {
			if d != nil {
				return errf("Load returned an error AND a *Deb")
			}
			out = "error: " + err.Error()
			return nil
		}
		defer d.Close()
		names := []string{}
		for name, e := range d.ArContent {
			if e == nil || e.Size < 0 {
				return errf("ArContent[%q] is nil or has a negative size", name)
			}
			// through the member's own reader, from where the loader left it
			b, rerr := io.ReadAll(e.Data)
			if rerr != nil || int64(len(b)) != e.Size {
				return errf("ArContent[%q] declares %d bytes but its reader delivers %d (err %v)", name, e.Size, len(b), rerr)
			}
			names = append(names, fmt.Sprintf("%s:%d", name, e.Size))
		}
		sort.Strings(names)
		deps := []*dependency.Dependency{&d.Control.Depends, &d.Control.Recommends, &d.Control.Suggests, &d.Control.Breaks, &d.Control.Replaces, &d.Control.BuiltUsing}
		rendered := []string{}
		for _, dp := range deps {
			rendered = append(rendered, dp.String())
		}
		out = fmt.Sprintf("ok ctl=%s data=%s pkg=%q ver=%q arch=%q members=%v relations=%q", d.ControlExt, d.DataExt, d.Control.Package, d.Control.Version.String(), d.Control.Architecture.String(), names, rendered)
		// what one load handed out is the caller's: it is written over here, and the next load of the
		// same bytes has to say what the bytes say
		for _, dp := range deps {
			for i := range dp.Relations {
				for j := range dp.Relations[i].Possibilities {
					p := &dp.Relations[i].Possibilities[j]
					p.Name = "scribbled-over"
					if p.Version != nil {
						p.Version.Number = "0~scribbled"
					}
					if p.Architectures != nil {
						p.Architectures.Not = !p.Architectures.Not
					}
				}
				dp.Relations[i].Possibilities = dp.Relations[i].Possibilities[:0]
			}
		}
		return nil
	})
	return out, err
}

func hostileDecoderMember(raw []byte) bool {
	ar, err := deb.LoadAr(bytes.NewReader(raw))
	if err != nil {
		return false
	}
	for i := 0; i < stepBound(len(raw)); i++ {
		e, err := ar.Next()
		if err != nil || e == nil {
			return false
		}
		if strings.HasPrefix(e.Name, "control.") || strings.HasPrefix(e.Name, "data.") {
			for _, ext := range []string{".xz", ".lzma", ".bz2", ".zst"} {
				if strings.HasSuffix(e.Name, ext) {
					return true
				}
			}
		}
	}
	return false
}

type BytesCase struct {
	Raw   []byte `json:"raw"`
	Deb   bool   `json:"deb"`
	Note  string `json:"note,omitempty"`
	Eager bool   `json:"eager,omitempty"` // read through a ReaderAt that reports EOF together with the last bytes
}

// arEnd runs the Next() loop once more and reports how it ended.
func arEnd(raw []byte) string { return arEndOf(bytes.NewReader(raw), len(raw)) }

// arEndWindow: the same bytes as a window (io.SectionReader) of a larger buffer that goes on with
// a perfectly good archive behind the window's end.
func arEndWindow(raw []byte) string {
	front := []byte("JUNK-IN-FRONT-")
	big := append(append(append([]byte{}, front...), raw...), renderAr([]ArMember{{Name: "behind-window", Mode: "100644", Data: []byte("not part of the input")}, {Name: "control.tar", Mode: "100644", Data: []byte("x")}})...)
	return arEndOf(io.NewSectionReader(bytes.NewReader(big), int64(len(front)), int64(len(raw))), len(raw))
}

func arEndOf(src io.ReaderAt, n int) string {
	ar, err := deb.LoadAr(src)
	if err != nil {
		return "LoadAr: " + err.Error()
	}
	for i := 0; i <= stepBound(n); i++ {
		e, err := ar.Next()
		if err != nil {
			return fmt.Sprintf("member %d: %v", i, err)
		}
		if b, rerr := io.ReadAll(e.Data); rerr != nil || int64(len(b)) != e.Size {
			return fmt.Sprintf("member %d (%q): declares %d bytes, delivers %d (%v)", i, e.Name, e.Size, len(b), rerr)
		}
	}
	return "no end"
}

// sparseControlTar: one 512-byte old-GNU header with typeflag 'S', name ./control, no stored data,
// one sparse-map entry {offset: realsize, length 0} and real size = realsize, followed by the
// end-of-archive blocks. archive/tar presents the entry as realsize NUL bytes that exist nowhere.
func sparseControlTar(realsize int64) []byte {
	hdr := make([]byte, 512)
	copy(hdr[0:], "./control")
	copy(hdr[100:], "0000644\x00")
	copy(hdr[108:], "0000000\x00")
	copy(hdr[116:], "0000000\x00")
	copy(hdr[124:], "00000000000\x00")
	copy(hdr[136:], "00000000000\x00")
	hdr[156] = 'S'
	copy(hdr[257:], "ustar  \x00")
	b256 := func(dst []byte, v int64) {
		for i := len(dst) - 1; i >= 0; i-- {
			dst[i] = byte(v)
			v >>= 8
		}
		dst[0] |= 0x80
	}
	b256(hdr[386:398], realsize)
	copy(hdr[398:410], "00000000000\x00")
	b256(hdr[483:495], realsize)
	copy(hdr[148:156], "        ")
	sum := 0
	for _, c := range hdr {
		sum += int(c)
	}
	copy(hdr[148:156], fmt.Sprintf("%06o\x00 ", sum))
	return append(hdr, make([]byte, 1024)...)
}

func rawTarHeader(name string, typeflag byte, size int) []byte {
	h := make([]byte, 512)
	copy(h[0:], name)
	copy(h[100:], "0000644\x00")
	copy(h[108:], "0000000\x00")
	copy(h[116:], "0000000\x00")
	copy(h[124:], fmt.Sprintf("%011o\x00", size))
	copy(h[136:], "00000000000\x00")
	copy(h[148:], "        ")
	h[156] = typeflag
	copy(h[257:], "ustar\x0000")
	sum := 0
	for _, b := range h {
		sum += int(b)
	}
	copy(h[148:], fmt.Sprintf("%06o\x00 ", sum))
	return h
}

func rawTarEntry(name string, typeflag byte, content string) []byte {
	out := append(rawTarHeader(name, typeflag, len(content)), content...)
	for len(out)%512 != 0 {
		out = append(out, 0)
	}
	return out
}

func paxRecord(key, value string) string {
	n := len(key) + len(value) + 3
	for {
		s := fmt.Sprintf("%d %s=%s\n", n, key, value)
		if len(s) == n {
			return s
		}
		n = len(s)
	}
}

// paxSparseEntry: a PAX extended header carrying GNU.sparse.* records (format 1.0) followed by a
// regular entry whose stored data is just the sparse map "0\n" (no fragments).
func paxSparseEntry(name string, realsize int64) []byte {
	records := paxRecord("GNU.sparse.major", "1") + paxRecord("GNU.sparse.minor", "0") + paxRecord("GNU.sparse.name", name) + paxRecord("GNU.sparse.realsize", fmt.Sprint(realsize))
	out := rawTarEntry("PaxHeaders.0/"+strings.TrimPrefix(name, "./"), 'x', records)
	return append(out, rawTarEntry("GNUSparseFile.0/"+strings.TrimPrefix(name, "./"), '0', "0\n"+string(make([]byte, 510)))...)
}

// paxSparseOldEntry: the older PAX spellings of a sparse entry, which carry no GNU.sparse.major
// record: format 0.1 (numblocks + map, the real size under "size" or - as star and later GNU tar
// write it - under "realsize") and format 0.0 (one offset/numbytes pair per fragment). The entry
// stores just `text`; read through archive/tar it is `hole` made-up NUL bytes followed by text.
func paxSparseOldEntry(name string, hole int64, text string, variant string) []byte {
	var records string
	total := fmt.Sprint(hole + int64(len(text)))
	switch variant {
	case "0.1-realsize":
		records = paxRecord("GNU.sparse.numblocks", "1") + paxRecord("GNU.sparse.map", fmt.Sprintf("%d,%d", hole, len(text))) + paxRecord("GNU.sparse.realsize", total)
	case "0.1-size":
		records = paxRecord("GNU.sparse.size", total) + paxRecord("GNU.sparse.numblocks", "1") + paxRecord("GNU.sparse.map", fmt.Sprintf("%d,%d", hole, len(text)))
	default: // 0.0
		records = paxRecord("GNU.sparse.numblocks", "1") + paxRecord("GNU.sparse.offset", fmt.Sprint(hole)) + paxRecord("GNU.sparse.numbytes", fmt.Sprint(len(text))) + paxRecord("GNU.sparse.realsize", total)
	}
	out := rawTarEntry("PaxHeaders.0/"+strings.TrimPrefix(name, "./"), 'x', records)
	return append(out, rawTarEntry(name, '0', text)...)
}

func checkBytesCase(c BytesCase, r *Recorder) error {
	members, err := checkArBytes(c.Raw, c.Eager)
	if err == nil {
		err = checkArSized(c.Raw)
	}
	if err == nil {
		first := arEnd(c.Raw)
		for k := 0; k < 6; k++ {
			if again := arEnd(c.Raw); again != first {
				return errf("[%s] iterating the same bytes again ends differently: %q vs %q", c.Note, first, again)
			}
		}
		if w := arEndWindow(c.Raw); w != first {
			return errf("[%s] the same bytes given as a window of a larger buffer end differently: %q, as a plain reader %q", c.Note, w, first)
		}
	}
	nt := members > 0 || (len(c.Raw) >= 68 && string(c.Raw[:8]) == arMagic)
	r.Case(string(c.Raw), nt, "note:"+c.Note)
	if nt {
		r.Sample(map[string]interface{}{"note": c.Note, "bytes": len(c.Raw), "members": members})
	}
	if err != nil {
		return errf("[%s] %v", c.Note, err)
	}
	if !c.Deb {
		return nil
	}
	if hostileDecoderMember(c.Raw) {
		r.Count("skipped_third_party_decoder", 1)
		return nil
	}
	first, err := debOutcome(c.Raw, c.Eager)
	if err != nil {
		return errf("[%s] %v", c.Note, err)
	}
	// (between the loads the heap is made to look different - objects of the sizes a loader
	// allocates are created and kept - so that an outcome which carries an address, a map order or
	// a pool's state has a chance to differ)
	var keep []interface{}
	for k := 0; k < 6; k++ {
		for i := 0; i < 3+5*k; i++ {
			keep = append(keep, io.NewSectionReader(bytes.NewReader(nil), 0, int64(i)), make([]byte, 16<<uint(i%6)), &struct{ a, b, c, d, e, f, g uintptr }{})
		}
		again, err := debOutcome(c.Raw, c.Eager)
		if err != nil {
			return errf("[%s] %v", c.Note, err)
		}
		if again != first {
			return errf("[%s] loading the same bytes again gives a different outcome: %q vs %q", c.Note, first, again)
		}
	}
	runtime.KeepAlive(keep)
	return nil
}

var hostileFieldTexts = []string{"-1", "-60", "-61", "-2", "+5", "9999999999", "99999999999999999999", "", "abc", "\x00\x00\x00", "1e3", "0x10", "12 34", "007", "-0", "2147483648", "4294967296", "9223372036854775807", "-9223372036854775808", "-", "+", "--", "+-1", "- 1", "1-", "0x", "."}

var arColumns = []struct {
	name     string
	off, len int
}{{"name", 0, 16}, {"mtime", 16, 12}, {"uid", 28, 6}, {"gid", 34, 6}, {"mode", 40, 8}, {"size", 48, 10}, {"magic", 58, 2}}

func memberOffsets(ms []ArMember) []int {
	offs := []int{}
	o := 8
	for _, m := range ms {
		offs = append(offs, o)
		o += 60 + len(m.Data) + len(m.Data)%2
	}
	return offs
}

func genCorruptArchive(t *rapid.T) BytesCase {
	isDeb := rapid.Bool().Draw(t, "deb")
	var ms []ArMember
	if isDeb {
		m := genSmallDebModel(t)
		m.CtlCodec = rapid.SampledFrom([]string{"", "gz"}).Draw(t, "cc")
		m.DataCodec = rapid.SampledFrom([]string{"", "gz"}).Draw(t, "dc")
		_, members, err := buildDeb(m)
		if err != nil {
			panic("HARNESS: " + err.Error())
		}
		ms = members
	} else {
		n := rapid.IntRange(1, 4).Draw(t, "n")
		for i := 0; i < n; i++ {
			ms = append(ms, genArMember(t, "m"))
		}
	}
	op := rapid.SampledFrom([]string{"column", "column", "column", "columns", "longnames", "tarlevel", "magic", "truncate", "duplicate", "reorder", "decoy", "unopenable", "padding", "globalmagic", "none", "versionmember", "bothkinds"}).Draw(t, "op")
	note := op
	switch op {
	case "duplicate":
		i := rapid.IntRange(0, len(ms)-1).Draw(t, "i")
		j := rapid.IntRange(0, len(ms)).Draw(t, "j")
		dup := ms[i]
		if rapid.Bool().Draw(t, "altcontent") {
			dup.Data = append([]byte("X"), dup.Data...)
		}
		ms = append(ms[:j], append([]ArMember{dup}, ms[j:]...)...)
	case "reorder":
		ms = rapid.Permutation(ms).Draw(t, "perm")
	case "versionmember":
		// debian-binary says 2.0 and then goes on (dpkg reads the first line; later lines are for
		// later minor versions), or says it in another way
		for i := range ms {
			if ms[i].Name == "debian-binary" {
				ms[i].Data = []byte(rapid.SampledFrom([]string{"2.0\n\n", "2.0\nextra\n", "2.0\n" + strings.Repeat("x", 4200) + "\n", "2.1\n", "2.0", "2.0\r\n", "2\n", "2.0\n\x00", "2.0\n2.0\n", "2.00\n", " 2.0\n", "2.0 \n"}).Draw(t, "vmText"))
			}
		}
	case "bothkinds":
		// a second member of BOTH kinds, each under a name of its own: what the loader says about
		// such a file it says every time
		for _, base := range []string{"control", "data"} {
			for k := rapid.IntRange(1, 2).Draw(t, "bkN"); k > 0; k-- {
				extra := ArMember{Name: base + rapid.SampledFrom([]string{".tar", ".tar.gz", ".txt", ".sig", ".tar.Z", ".orig", "."}).Draw(t, "bkExt"), Mode: "100644", MTime: 1, Data: []byte("x")}
				dupName := false
				for _, e := range ms {
					if e.Name == extra.Name {
						dupName = true
					}
				}
				if dupName {
					continue
				}
				at := rapid.IntRange(0, len(ms)).Draw(t, "bkAt")
				ms = append(ms[:at], append([]ArMember{extra}, ms[at:]...)...)
			}
		}
	case "unopenable":
		// the control or the data member is there but cannot be opened: a name that is no tarball,
		// or a compressed member whose stream header is missing or damaged. The complaint is the
		// same complaint every time
		for i := range ms {
			base := ""
			switch {
			case strings.HasPrefix(ms[i].Name, "control."):
				base = "control"
			case strings.HasPrefix(ms[i].Name, "data."):
				base = "data"
			}
			if base == "" || rapid.Bool().Draw(t, "unopenSkip") {
				continue
			}
			switch rapid.IntRange(0, 4).Draw(t, "unopenHow") {
			case 0:
				ms[i].Name = base + rapid.SampledFrom([]string{".txt", ".bin", ".", ".tar.foo"}).Draw(t, "unopenExt")
			case 1:
				ms[i].Name, ms[i].Data = base+".tar.gz", []byte{}
			case 2:
				ms[i].Name, ms[i].Data = base+".tar.gz", []byte("not gzip at all")
			case 3:
				ms[i].Name = base + ".tar.gz"
				if len(ms[i].Data) > 2 {
					ms[i].Data = append([]byte{0x1f, 0x8c}, ms[i].Data[2:]...)
				}
			default:
				ms[i].Name, ms[i].Data = base+".tar.bz2", []byte("BZx")
			}
		}
	case "decoy":
		i := rapid.IntRange(0, len(ms)-1).Draw(t, "i")
		j := rapid.IntRange(0, len(ms)).Draw(t, "j")
		decoy := ms[i]
		base := rapid.SampledFrom([]string{"control", "data"}).Draw(t, "base")
		decoy.Name = base + rapid.SampledFrom([]string{".tar", ".tar.gz", ".tar.Z", ".foo", ".", ".old.tar", ".1.tar.gz", ".bak.tar", ".tar.tar"}).Draw(t, "ext")
		if rapid.Bool().Draw(t, "evil") {
			tarb, _ := buildTar([]TarFile{{Name: "./control", Type: "reg", Content: []byte("Package: evil\nVersion: 6.6.6\nArchitecture: all\n")}})
			decoy.Data = tarb
			decoy.Name = base + ".tar"
		}
		ms = append(ms[:j], append([]ArMember{decoy}, ms[j:]...)...)
	}
	if op == "tarlevel" {
		// the hostile part sits one level down: the control member is a tar whose './control' entry
		// is a sparse file (old GNU 'S' header: a few bytes stored, a huge logical size the tar reader
		// fills with NULs it makes up), a directory, a symlink, or declares more data than there is
		kind := rapid.SampledFrom([]string{"sparse-2^20", "sparse-2^40", "sparse-2^62", "dir", "symlink", "short", "pax-sparse-control", "pax-sparse-other-before", "pax-sparse-other-after", "pax-sparse-0.1-realsize", "pax-sparse-0.1-size", "pax-sparse-0.0", "size-claim-2^62", "size-claim-2^55", "size-claim-other-2^62", "many-continuation-lines", "huge-dependency-token", "clearsigned-control", "relation-cut-short", "relation-cut-short"}).Draw(t, "tarkind")
		note = "tarlevel:" + kind
		var ctl []byte
		gzControl := false
		switch kind {
		case "dir", "symlink":
			tf := TarFile{Name: "./control", Type: kind, Link: "/etc/passwd"}
			ctl, _ = buildTar([]TarFile{{Name: "./md5sums", Type: "reg", Content: []byte("x\n")}, tf})
		case "pax-sparse-control", "pax-sparse-other-before", "pax-sparse-other-after":
			// the PAX spelling of a sparse entry (GNU.sparse.* records, format 1.0): 1 KiB in the
			// archive, 2^40 made-up bytes when read - as the control file itself, or as a file next to it
			good := rawTarEntry("./control", '0', "Package: x\nVersion: 1\nArchitecture: all\nMaintainer: A <a@b.c>\nDescription: d\n")
			switch kind {
			case "pax-sparse-control":
				ctl = paxSparseEntry("./control", 1<<40)
			case "pax-sparse-other-before":
				ctl = append(paxSparseEntry("./md5sums", 1<<40), good...)
			default:
				ctl = append(append([]byte{}, good...), paxSparseEntry("./triggers", 1<<40)...)
			}
			ctl = append(ctl, make([]byte, 1024)...)
		case "pax-sparse-0.1-realsize", "pax-sparse-0.1-size", "pax-sparse-0.0":
			// the older PAX spellings (no GNU.sparse.major record): the control text behind a hole
			ctl = paxSparseOldEntry("./control", rapid.SampledFrom([]int64{1 << 40, 1 << 62, 1 << 33}).Draw(t, "hole"), "Package: x\nVersion: 1\nArchitecture: all\nMaintainer: A <a@b.c>\nDescription: d\n", strings.TrimPrefix(kind, "pax-sparse-"))
			ctl = append(ctl, make([]byte, 1024)...)
		case "size-claim-2^62", "size-claim-2^55", "size-claim-other-2^62":
			// a regular, non-sparse entry whose header claims (GNU base-256 size field) far more
			// bytes than any archive holds: the control file itself, or a file in front of it
			text := "Package: x\nVersion: 1\nArchitecture: all\nMaintainer: A <a@b.c>\nDescription: d\n"
			claim := func(name string, size int64) []byte {
				e := rawTarEntry(name, '0', text)
				for i := 124; i < 136; i++ {
					e[i] = 0
				}
				e[124] = 0x80
				for i, v := 135, size; i > 124 && v > 0; i, v = i-1, v>>8 {
					e[i] = byte(v)
				}
				copy(e[148:], "        ")
				sum := 0
				for _, b := range e[:512] {
					sum += int(b)
				}
				copy(e[148:], fmt.Sprintf("%06o\x00 ", sum))
				return e
			}
			switch kind {
			case "size-claim-2^62":
				ctl = claim("./control", 1<<62)
			case "size-claim-2^55":
				ctl = claim("./control", 1<<55)
			default:
				ctl = append(claim("./md5sums", 1<<62), rawTarEntry("./control", '0', text)...)
			}
			ctl = append(ctl, make([]byte, 1024)...)
		case "clearsigned-control":
			// the control file wrapped in a clearsign frame (someone signed it before packing), in
			// the shapes such frames come in: with and without a Hash: header, with and without the
			// empty line behind it, with a garbage signature, cut off
			body := "Package: x\nVersion: 1\nArchitecture: all\nMaintainer: A <a@b.c>\nDescription: d\n"
			head := rapid.SampledFrom([]string{"-----BEGIN PGP SIGNED MESSAGE-----\nHash: SHA256\n\n", "-----BEGIN PGP SIGNED MESSAGE-----\n\n", "-----BEGIN PGP SIGNED MESSAGE-----\n", "-----BEGIN PGP SIGNED MESSAGE-----\nHash: MD5\nHash: SHA1\n\n", "-----BEGIN PGP SIGNED MESSAGE-----\nHash:\n\n", "-----BEGIN PGP SIGNED MESSAGE-----\nComment: x\n\n"}).Draw(t, "csHead")
			tail := rapid.SampledFrom([]string{"-----BEGIN PGP SIGNATURE-----\n\niQEzBAEBCAAdFiEE\n=abcd\n-----END PGP SIGNATURE-----\n", "-----BEGIN PGP SIGNATURE-----\niQEzBAEBCAAdFiEE\n-----END PGP SIGNATURE-----\n", "-----BEGIN PGP SIGNATURE-----\n", "", "-----END PGP SIGNATURE-----\n-----BEGIN PGP SIGNATURE-----\n\n-----END PGP SIGNATURE-----\n"}).Draw(t, "csTail")
			ctl, _ = buildTar([]TarFile{{Name: "./control", Type: "reg", Content: []byte(head + body + tail)}})
		case "relation-cut-short":
			// a control file whose relationship field stops in the middle of a construct - at the very
			// end of the field, where a parser that looks one byte ahead looks past the end
			rel := rapid.SampledFrom([]string{"libc6, $", "$", "a | $", "a (>= $", "a [$", "${", "a, ${x", "a (", "a [", "a <", "a:", "a (>=", "a (>= 1", "a,", "|", ",", "a [!", "a <!", "a [amd64", "a <x", "a (>= 1) [", "${a}$", "a $", "a ["}).Draw(t, "relCut")
			field := rapid.SampledFrom([]string{"Depends", "Recommends", "Suggests", "Breaks", "Replaces", "Built-Using", "Pre-Depends"}).Draw(t, "relField")
			last := rapid.Bool().Draw(t, "relLast")
			text := "Package: x\nVersion: 1\nArchitecture: all\nMaintainer: A <a@b.c>\n"
			if last {
				text += "Description: d\n" + field + ": " + rel // the file ends with the field, no line end
			} else {
				text += field + ": " + rel + "\nDescription: d\n"
			}
			ctl, _ = buildTar([]TarFile{{Name: "./control", Type: "reg", Content: []byte(text)}})
		case "huge-dependency-token":
			// ... or into a relationship field made of ONE token of 600 000 to 1 000 000 bytes - a
			// package name, a version, an architecture, a qualifier, a substvar, a profile
			n := rapid.IntRange(600000, 1000000).Draw(t, "tokenLen")
			tok := strings.Repeat(rapid.SampledFrom([]string{"a", "1", "x"}).Draw(t, "tokenByte"), n)
			field := rapid.SampledFrom([]string{"Depends: %s", "Depends: a (>= %s)", "Depends: a [%s]", "Pre-Depends: a:%s", "Depends: ${%s}", "Suggests: a <%s>", "Depends: b, a (>= 1) [amd64 %s] <x>"}).Draw(t, "tokenIn")
			text := "Package: x\nVersion: 1\nArchitecture: all\nMaintainer: A <a@b.c>\n" + fmt.Sprintf(field, tok) + "\nDescription: d\n"
			tarball, _ := buildTar([]TarFile{{Name: "./control", Type: "reg", Content: []byte(text)}})
			var gz bytes.Buffer
			zw := gzip.NewWriter(&gz)
			zw.Write(tarball)
			zw.Close()
			ctl = gz.Bytes()
			gzControl = true
		case "many-continuation-lines":
			// a few KiB of gzip that unfold into a control file of one field with half a million
			// continuation lines: work that grows with the square of that number does not finish
			n := rapid.IntRange(500000, 800000).Draw(t, "contLines")
			line := rapid.SampledFrom([]string{" x\n", " .\n", "\ty\n"}).Draw(t, "contLine")
			text := "Package: x\nVersion: 1\nArchitecture: all\nMaintainer: A <a@b.c>\nDescription: d\n" + strings.Repeat(line, n)
			tarball, _ := buildTar([]TarFile{{Name: "./control", Type: "reg", Content: []byte(text)}})
			var gz bytes.Buffer
			zw := gzip.NewWriter(&gz)
			zw.Write(tarball)
			zw.Close()
			ctl = gz.Bytes()
			gzControl = true
		case "short":
			ctl, _ = buildTar([]TarFile{{Name: "./control", Type: "reg", Content: []byte("Package: x\nVersion: 1\nArchitecture: all\nMaintainer: A <a@b.c>\nDescription: d\n")}})
			if len(ctl) > 600 {
				ctl = ctl[:520+rapid.IntRange(0, 60).Draw(t, "shortcut")]
			}
		default:
			ctl = sparseControlTar(map[string]int64{"sparse-2^20": 1 << 20, "sparse-2^40": 1 << 40, "sparse-2^62": 1 << 62}[kind])
		}
		ctlName := "control.tar"
		if gzControl {
			ctlName = "control.tar.gz"
		}
		for i := range ms {
			if strings.HasPrefix(ms[i].Name, "control.") {
				ms[i].Name, ms[i].Data = ctlName, ctl
			}
		}
		if !isDeb {
			ms = append(ms, ArMember{Name: ctlName, Mode: "100644", Data: ctl})
		}
	}
	raw := renderAr(ms)
	offs := memberOffsets(ms)
	switch op {
	case "column":
		i := rapid.IntRange(0, len(ms)-1).Draw(t, "i")
		col := arColumns[rapid.IntRange(0, len(arColumns)-1).Draw(t, "col")]
		txt := rapid.SampledFrom(hostileFieldTexts).Draw(t, "txt")
		if col.name == "name" {
			// names other ar dialects give a meaning to: BSD "#1/<len>" (name stored in front of
			// the data), GNU "/" (symbol table), "//" (name table), "/<offset>" (reference into it)
			txt = rapid.SampledFrom([]string{"#1/20", "#1/5", "#1/1", "#1/1024", "#1/0", "#1/-4", "#1/99999", "/", "//", "/0", "/123", "__.SYMDEF", "#1/x", ""}).Draw(t, "hname")
		}
		if len(txt) > col.len {
			txt = txt[:col.len]
		}
		cell := padRight(txt, col.len)
		switch rapid.IntRange(0, 3).Draw(t, "align") {
		case 1: // right-aligned: the text ends where the column ends
			cell = strings.Repeat(" ", col.len-len(txt)) + txt
		case 2: // in the middle
			l := (col.len - len(txt)) / 2
			cell = padRight(strings.Repeat(" ", l)+txt, col.len)
		}
		copy(raw[offs[i]+col.off:offs[i]+col.off+col.len], []byte(cell))
		note = "column:" + col.name + "=" + cell
	case "columns":
		// several columns of one header are bad at once: which complaint comes first must not
		// be a matter of chance
		i := rapid.IntRange(0, len(ms)-1).Draw(t, "i")
		k := rapid.IntRange(2, 4).Draw(t, "ncols")
		note = "columns:"
		for _, ci := range rapid.Permutation([]int{1, 2, 3, 5}).Draw(t, "cols")[:k] {
			col := arColumns[ci]
			txt := rapid.SampledFrom([]string{"abc", "x", "1e3", "0x10", "12 34", "tt", "--"}).Draw(t, "txts")
			copy(raw[offs[i]+col.off:offs[i]+col.off+col.len], []byte(padRight(txt, col.len)))
			note += col.name + "=" + txt + ","
		}
	case "longnames":
		// what a GNU ar would read as a name table ("//") and references into it ("/<offset>"):
		// this reader knows neither, and must neither trip over them
		i := rapid.IntRange(0, len(ms)-1).Draw(t, "i")
		copy(raw[offs[i]:offs[i]+16], []byte(padRight("//", 16)))
		note = "longnames://@" + itoa(i)
		for j := i + 1; j < len(ms); j++ {
			if rapid.Bool().Draw(t, "ref") {
				ref := "/" + itoa(rapid.SampledFrom([]int{0, 1, 5, 17, 100, 99999}).Draw(t, "refoff"))
				copy(raw[offs[j]:offs[j]+16], []byte(padRight(ref, 16)))
				note += "," + ref + "@" + itoa(j)
			}
		}
	case "magic":
		i := rapid.IntRange(0, len(ms)-1).Draw(t, "i")
		which := rapid.IntRange(0, 2).Draw(t, "which")
		if which == 0 || which == 2 {
			raw[offs[i]+58] = rapid.SampledFrom([]byte{' ', 'x', 0, '\n', 0x61}).Draw(t, "b0")
		}
		if which == 1 || which == 2 {
			raw[offs[i]+59] = rapid.SampledFrom([]byte{' ', 'x', 0, 0x60, '\r'}).Draw(t, "b1")
		}
		note = fmt.Sprintf("magic:%d", which)
	case "truncate":
		k := rapid.IntRange(0, len(raw)).Draw(t, "k")
		raw = raw[:k]
	case "padding":
		i := rapid.IntRange(0, len(ms)-1).Draw(t, "i")
		end := offs[i] + 60 + len(ms[i].Data)
		if rapid.Bool().Draw(t, "add") {
			raw = append(raw[:end], append([]byte{'\n'}, raw[end:]...)...)
			note = "padding:+1"
		} else if len(ms[i].Data)%2 == 1 {
			raw = append(raw[:end], raw[end+1:]...)
			note = "padding:-1"
		}
	case "globalmagic":
		raw[rapid.IntRange(0, 7).Draw(t, "g")] ^= byte(rapid.IntRange(1, 255).Draw(t, "x"))
	}
	return BytesCase{Raw: raw, Deb: isDeb, Note: note, Eager: rapid.IntRange(0, 3).Draw(t, "eager") == 0}
}

var specC15Corrupt = Register(&Spec[BytesCase]{
	Prop: "C15", Name: "corrupt",
	Rule:  "structured corruption of valid artefacts (C13 archives and C14 packages with stored/gzip members): one header column (name, mtime, uid, gid, mode, size, magic) of one member overwritten with negative, '+'-signed, huge, blank, non-numeric, NUL, hex or overflowing text; 2..4 numeric columns of one header made non-numeric at once; debian-binary saying 2.0 and going on (a second line, 4 KiB more, NUL) or saying it another way ('2.0' without line end, CRLF, '2.00', '2', ' 2.0'); further members of BOTH kinds under names of their own (control.txt and data.sig, control.tar and data.tar.gz ...) at any positions; a member renamed '//' and later ones '/<offset>' (GNU long-name table and references); the control member replaced by a stored tar whose './control' entry is a GNU sparse file of 2^20 / 2^40 / 2^62 made-up bytes, a directory, a symlink, or cut short, or which carries - as ./control or next to it - a PAX-style sparse entry of 2^40 made-up bytes (format 1.0; as ./control also the older spellings without a version record - 0.1 with the real size under 'size' or 'realsize', 0.0 with offset/numbytes pairs - with the control text behind a hole of 2^33, 2^40 or 2^62 bytes), or a regular entry (./control or the file in front of it) whose base-256 size field claims 2^55 or 2^62 bytes, or by a control file whose relationship field stops in the middle of a construct ('libc6, $', 'a (>=', 'a [!', '${' ...), also as the last bytes of the file, or replaced by a few KiB of gzip whose './control' is one field with 500 000 to 800 000 continuation lines (it has to be read in a time that does not grow with the square of that), or whose Depends is one token of 600 000 to 1 000 000 bytes, or whose './control' comes wrapped in a clearsign frame (with / without Hash: header, empty line, signature, END line); one or both header magic bytes changed; truncation at a generated offset; a member duplicated (same or changed content), members reordered, a decoy control.*/data.* member with another extension (optionally a tar with 'Package: evil') inserted; the control or data member made unopenable (renamed to .txt / .bin, emptied, its gzip header damaged); a padding byte added or removed; a global magic byte flipped. Oracle: no panic; the Next() loop ends in io.EOF or an error within len/60+2 steps; every returned member sits behind a header ending 0x60 0x0A, has Size >= 0 and a reader delivering exactly Size bytes - read through a plain io.ReaderAt that does not tell its size, and again through a bytes.Reader (Size), an io.SectionReader window of a larger buffer and (one input in eight) a file on disk (Stat); deb.Load stays within a read budget and returns within 20 s; seven iterations / loads of the same bytes, and one through an io.SectionReader window of a larger buffer with a valid archive behind it, give the same outcome (the same error text, or the same extensions, control identity and member index). Non-trivial: >= 1 member returned or a first header parsed; distinct by bytes.",
	Check: checkBytesCase,
})

func TestC15_Corrupt(t *testing.T) {
	specC15Corrupt.Run(t, genCorruptArchive, 6000, 60000)
}

// every truncation offset of a few small archives
func TestC15_TruncateExh(t *testing.T) {
	n := pickN(6, 40)
	var bases []BytesCase
	sink := &Spec[BytesCase]{Check: func(c BytesCase, r *Recorder) error { bases = append(bases, c); return nil }}
	rapidCollect(t, sink, func(t *rapid.T) BytesCase {
		if rapid.Bool().Draw(t, "deb") {
			m := genSmallDebModel(t)
			m.CtlCodec, m.DataCodec = rapid.SampledFrom([]string{"", "gz"}).Draw(t, "cc"), rapid.SampledFrom([]string{"", "gz"}).Draw(t, "dc")
			m.DataFiles = m.DataFiles[:min(len(m.DataFiles), 2)]
			raw, _, err := buildDeb(m)
			if err != nil {
				panic("HARNESS: " + err.Error())
			}
			return BytesCase{Raw: raw, Deb: true}
		}
		ms := []ArMember{}
		for i := rapid.IntRange(1, 3).Draw(t, "n"); i > 0; i-- {
			m := genArMember(t, "m")
			if len(m.Data) > 200 {
				m.Data = m.Data[:200]
			}
			ms = append(ms, m)
		}
		return BytesCase{Raw: renderAr(ms)}
	}, n)
	specC15Truncate.Enumerate(t, true, func(_ *Recorder, yield func(BytesCase) bool) {
		for _, b := range bases {
			limit := len(b.Raw)
			stride := 1
			if limit > 6000 {
				stride = 7
			}
			for k := 0; k <= limit; k += stride {
				if !yield(BytesCase{Raw: b.Raw[:k], Deb: b.Deb, Note: fmt.Sprintf("truncate@%d/%d", k, len(b.Raw))}) {
					return
				}
			}
		}
	})
}

var specC15Truncate = Register(&Spec[BytesCase]{
	Prop: "C15", Name: "truncate",
	Rule:  "for a few generated archives / packages: truncation at EVERY offset (stride 7 beyond 6000 bytes); oracle as C15/corrupt (exhaustive over the truncation points of each base artefact).",
	Check: checkBytesCase,
})

func seedArchives() [][]byte {
	out := [][]byte{}
	simple := []ArMember{{Name: "debian-binary", MTime: 1, Mode: "100644", Data: []byte("2.0\n")}}
	ctl, _ := buildTar([]TarFile{{Name: "./control", Type: "reg", Content: []byte("Package: a\nVersion: 1\nArchitecture: all\n")}})
	dat, _ := buildTar([]TarFile{{Name: "./x", Type: "reg", Content: []byte("hi")}})
	full := append(append([]ArMember{}, simple...), ArMember{Name: "control.tar", Mode: "100644", Data: ctl}, ArMember{Name: "data.tar", Mode: "100644", Data: dat})
	out = append(out, renderAr(simple), renderAr(full), []byte(arMagic), []byte("!<arch>\n\n"))
	for _, txt := range []string{"-60", "-1", "9999999999", "", "+4"} {
		b := renderAr(full)
		copy(b[8+48:8+58], []byte(padRight(txt, 10)))
		out = append(out, b)
	}
	b := renderAr(full)
	b[8+58] = 'x'
	out = append(out, b)
	return out
}

func FuzzC15_Ar(f *testing.F) {
	for _, s := range seedArchives() {
		f.Add(s)
	}
	f.Fuzz(func(t *testing.T, raw []byte) {
		if len(raw) > 1<<16 {
			return
		}
		if _, err := checkArBytes(raw, len(raw)%2 == 1); err != nil {
			t.Fatalf("C15 violated: %v", err)
		}
	})
}

func FuzzC15_Deb(f *testing.F) {
	for _, s := range seedArchives() {
		f.Add(s)
	}
	f.Fuzz(func(t *testing.T, raw []byte) {
		if len(raw) > 1<<16 || hostileDecoderMember(raw) {
			return
		}
		if err := checkBytesCase(BytesCase{Raw: raw, Deb: true, Note: "fuzz"}, nil); err != nil {
			t.Fatalf("C15 violated: %v", err)
		}
	})
}

// genSmallDebModel: corruption sweeps multiply every base artefact by thousands of
// variants, so the oversized-control class of the C14 generator is left out here.
func genSmallDebModel(t *rapid.T) DebModel {
	for {
		m := genDebModel(t)
		if len(m.ControlText) < 6000 {
			return m
		}
	}
}
