package props

import (
	"encoding/json"
	"strconv"
	"strings"
	"testing"
	"unicode"
	"unicode/utf8"

	"pault.ag/go/debian/version"
	"pgregory.net/rapid"
)

// ------------------------------------------------------------------ C03/wellformed

var specC03WellFormed = Register(&Spec[WellFormed]{
	Prop: "C03", Name: "wellformed",
	Rule: "version strings rendered from the Policy grammar: optional decimal epoch (leading zeros, up to MaxInt64), upstream = digit then [A-Za-z0-9.+~]* with ':' only when an epoch is written and '-' only when a revision is written, optional revision [A-Za-z0-9.+~]+, optional surrounding blanks/tabs/newlines. Oracle (an epoch that does not fit the platform's uint - possible on 32-bit builds, which the driver also runs - must be rejected instead): Parse, UnmarshalControl and UnmarshalText succeed and return exactly the renderer's parts - into fresh receivers and into receivers that held another version before (UnmarshalControl, UnmarshalText, json.Unmarshal), and the value does not change when the byte slice handed to UnmarshalText is overwritten afterwards. Non-trivial: has an epoch and/or a revision and/or ':' or '-' inside upstream; distinct by text.",
	Check: func(w WellFormed, r *Recorder) error {
		cl := []string{}
		if w.HasEpoch {
			cl = append(cl, "epoch")
		}
		if w.HasRev {
			cl = append(cl, "revision")
		}
		if strings.Contains(w.Upstream, ":") {
			cl = append(cl, "colon-in-upstream")
		}
		if strings.Contains(w.Upstream, "-") {
			cl = append(cl, "hyphen-in-upstream")
		}
		if w.Text != strings.TrimSpace(w.Text) {
			cl = append(cl, "surrounding-whitespace")
		}
		if w.HasEpoch && w.Epoch > uint64(^uint(0)) {
			// the epoch does not fit the Epoch member on this platform (a 32-bit build): the
			// string is one "with an oversized epoch" and has to be rejected, not wrapped around
			r.Case(w.Text, true, "epoch-oversized-for-this-platform")
			if v, err := version.Parse(w.Text); err == nil {
				return errf("Parse(%q) accepted an epoch that does not fit in %d bits, as %+v", w.Text, strconv.IntSize, v)
			}
			var viaControl version.Version
			if err := viaControl.UnmarshalControl(w.Text); err == nil {
				return errf("UnmarshalControl(%q) accepted an epoch that does not fit in %d bits, as %+v", w.Text, strconv.IntSize, viaControl)
			}
			return nil
		}
		r.Case(w.Text, len(cl) > 0, cl...)
		if len(cl) > 0 {
			r.Sample(w.Text)
		}
		want := version.Version{Epoch: uint(w.Epoch), Version: w.Upstream, Revision: w.Revision}
		got, err := version.Parse(w.Text)
		if err != nil {
			return errf("Parse(%q) rejected a well-formed version: %v", w.Text, err)
		}
		if got != want {
			return errf("Parse(%q) = %+v, want %+v", w.Text, got, want)
		}
		// the helpers that speak about the parts: a version with a revision is not native, one
		// that parsed is not empty (and the zero value is)
		if got.IsNative() != (w.Revision == "") {
			return errf("Parse(%q) = %+v: IsNative() = %v", w.Text, got, got.IsNative())
		}
		if got.Empty() || !(&version.Version{}).Empty() {
			return errf("Parse(%q) = %+v: Empty() = %v (zero value: %v)", w.Text, got, got.Empty(), (&version.Version{}).Empty())
		}
		var viaControl version.Version
		if err := viaControl.UnmarshalControl(w.Text); err != nil || viaControl != want {
			return errf("UnmarshalControl(%q) = %+v, %v; want %+v", w.Text, viaControl, err, want)
		}
		var viaText version.Version
		buf := []byte(w.Text)
		if err := viaText.UnmarshalText(buf); err != nil || viaText != want {
			return errf("UnmarshalText(%q) = %+v, %v; want %+v", w.Text, viaText, err, want)
		}
		// the caller's buffer is the caller's: reusing it (the next line of a file read into the
		// same slice) must not reach into the value
		for i := range buf {
			buf[i] = 'X'
		}
		if viaText != want {
			return errf("UnmarshalText(%q) gave %+v, but after the caller overwrote its own buffer the value reads %+v", w.Text, want, viaText)
		}
		// a receiver that held another version before (one variable decoded into repeatedly)
		used := version.Version{Epoch: 7, Version: "9.9-9", Revision: "old1"}
		if err := used.UnmarshalControl(w.Text); err != nil || used != want {
			return errf("UnmarshalControl(%q) into a Version that held 7:9.9-9-old1 gives %+v, %v; want %+v", w.Text, used, err, want)
		}
		used = version.Version{Epoch: 7, Version: "9.9-9", Revision: "old1"}
		if err := used.UnmarshalText([]byte(w.Text)); err != nil || used != want {
			return errf("UnmarshalText(%q) into a Version that held 7:9.9-9-old1 gives %+v, %v; want %+v", w.Text, used, err, want)
		}
		used = version.Version{Epoch: 7, Version: "9.9-9", Revision: "old1"}
		if err := json.Unmarshal([]byte(strconvQuote(strings.TrimSpace(w.Text))), &used); err != nil || used != want {
			return errf("json.Unmarshal(%q) into a Version that held 7:9.9-9-old1 gives %+v, %v; want %+v", w.Text, used, err, want)
		}
		return nil
	},
})

func TestC03_WellFormed(t *testing.T) {
	longVersions = true
	specC03WellFormed.Run(t, func(t *rapid.T) WellFormed { return genWellFormedX(t, "w", true) }, 60000, 300000)
}

// ------------------------------------------------------------------ C03/reject

type NearMiss struct {
	Text  string `json:"text"`
	Class string `json:"class"`
	From  string `json:"from"`
}

// genBadVersionChar draws something that is neither in the Policy alphabet nor white space: a
// fixed list of ASCII punctuation and control bytes, any byte >= 0x80 on its own, or any rune
// from a few Unicode blocks (letters and digits of other scripts included - the alphabet is
// ASCII).
func genBadVersionChar(t *rapid.T) string {
	switch rapid.IntRange(0, 3).Draw(t, "badk") {
	case 0, 1:
		return rapid.SampledFrom([]string{"_", "!", "@", "#", "$", "%", "^", "&", "*", "(", ")", "=", ",", ";", "/", "\\", "\"", "'", "<", ">", "?", "[", "]", "{", "}", "|", "`", "é", "\x00", "\x7f", "\xff", "ü", "٣", "\x01", "\x1b"}).Draw(t, "bad")
	case 2:
		return string([]byte{byte(rapid.IntRange(0x80, 0xff).Draw(t, "badbyte"))})
	default:
		for {
			blk := rapid.SampledFrom([][2]int{{0x80, 0x24f}, {0x370, 0x3ff}, {0x400, 0x4ff}, {0x660, 0x669}, {0x2010, 0x2027}, {0x4e00, 0x4e40}, {0xff10, 0xff5a}, {0x1f600, 0x1f640}}).Draw(t, "badblk")
			r := rune(rapid.IntRange(blk[0], blk[1]).Draw(t, "badrune"))
			if !unicode.IsSpace(r) {
				return string(r)
			}
		}
	}
}

func genNearMiss(t *rapid.T) NearMiss {
	w := genWellFormedCore(t, "w")
	canon := w.canonical()
	ws := []string{"", "", " ", "\t", "\n"}
	wrap := func(s string) string {
		return rapid.SampledFrom(ws).Draw(t, "lead") + s + rapid.SampledFrom(ws).Draw(t, "trail")
	}
	rest := w.Upstream
	if w.HasRev {
		rest += "-" + w.Revision
	}
	class := rapid.SampledFrom([]string{"nonnumeric-epoch", "negative-epoch", "oversized-epoch", "embedded-whitespace",
		"nothing-after-colon", "nondigit-first", "bad-char-upstream", "bad-char-revision", "bad-char-around"}).Draw(t, "class")
	switch class {
	case "nonnumeric-epoch":
		e := rapid.SampledFrom([]string{"a", "1a", "a1", "1.0", "", "x", "1~", "0x1", "1e3", "1 ", "٣"}).Draw(t, "e")
		if e == "1 " { // that would be embedded whitespace; keep class pure
			e = "1_"
		}
		return NearMiss{Text: wrap(e + ":" + rest), Class: class, From: canon}
	case "negative-epoch":
		e := "-" + rapid.SampledFrom([]string{"1", "0", "5", "12", "9223372036854775808"}).Draw(t, "e")
		if e == "-0" {
			// -0 parses to 0 with ParseInt: not negative. use -1.
			e = "-1"
		}
		return NearMiss{Text: wrap(e + ":" + rest), Class: class, From: canon}
	case "oversized-epoch":
		e := rapid.SampledFrom([]string{"9223372036854775808", "18446744073709551615", "18446744073709551616", "99999999999999999999", "123456789012345678901234567890"}).Draw(t, "e")
		if rapid.Bool().Draw(t, "randomBig") {
			// 20..26 random digits (first digit non-zero): always beyond MaxInt64
			n := rapid.IntRange(20, 26).Draw(t, "en")
			b := []byte{byte('1' + rapid.IntRange(0, 8).Draw(t, "e0"))}
			for len(b) < n {
				b = append(b, byte('0'+rapid.IntRange(0, 9).Draw(t, "ed")))
			}
			e = string(b)
		}
		return NearMiss{Text: wrap(e + ":" + rest), Class: class, From: canon}
	case "embedded-whitespace":
		if len(canon) < 2 {
			canon = canon + "0"
		}
		p := rapid.IntRange(1, len(canon)-1).Draw(t, "p")
		sp := rapid.SampledFrom([]string{" ", "\t", "\n", "  ", "\r", "\v", "\f"}).Draw(t, "sp")
		return NearMiss{Text: wrap(canon[:p] + sp + canon[p:]), Class: class, From: canon}
	case "bad-char-around":
		// characters outside the alphabet at the two ends, where a reader that is lenient about
		// quoting or bracketing would take them off: "1.0-1" in quotes, (1.0), <1.0>, =1.0, 1.0;
		pair := rapid.SampledFrom([][2]string{{"\"", "\""}, {"'", "'"}, {"(", ")"}, {"<", ">"}, {"[", "]"}, {"{", "}"}, {"`", "`"}, {"“", "”"},
			{"\"", ""}, {"", "\""}, {"=", ""}, {"", ";"}, {"", ","}, {"v", ""}, {"\ufeff", ""}, {"", "\x00"}, {"\\\"", "\\\""}, {"\"\"", "\"\""}, {"= ", ""}, {"", " )"}}).Draw(t, "pair")
		body := canon
		if rapid.IntRange(0, 3).Draw(t, "padInside") == 0 {
			body = " " + body + " "
		}
		return NearMiss{Text: wrap(pair[0] + body + pair[1]), Class: class, From: canon}
	case "nothing-after-colon":
		e := rapid.SampledFrom([]string{"0", "1", "12", "007"}).Draw(t, "e")
		return NearMiss{Text: wrap(e + ":"), Class: class, From: canon}
	case "nondigit-first":
		c := rapid.SampledFrom([]string{"a", "Z", ".", "+", "~", "v", "x"}).Draw(t, "c")
		up := c + w.Upstream[1:]
		if rapid.Bool().Draw(t, "prepend") {
			up = c + w.Upstream
		}
		s := up
		if w.HasEpoch {
			s = w.EpochTxt + ":" + s
		}
		if w.HasRev {
			s += "-" + w.Revision
		}
		return NearMiss{Text: wrap(s), Class: class, From: canon}
	case "bad-char-upstream":
		bad := genBadVersionChar(t)
		p := rapid.IntRange(1, len(w.Upstream)).Draw(t, "p")
		up := w.Upstream[:p] + bad + w.Upstream[p:]
		s := up
		if w.HasEpoch {
			s = w.EpochTxt + ":" + s
		}
		if w.HasRev {
			s += "-" + w.Revision
		}
		return NearMiss{Text: wrap(s), Class: class, From: canon}
	default: // bad-char-revision
		bad := genBadVersionChar(t)
		rev := w.Revision
		if !w.HasRev {
			rev = "1"
		}
		p := rapid.IntRange(0, len(rev)).Draw(t, "p")
		rev = rev[:p] + bad + rev[p:]
		s := w.Upstream + "-" + rev
		if w.HasEpoch {
			s = w.EpochTxt + ":" + s
		}
		return NearMiss{Text: wrap(s), Class: "bad-char-revision", From: canon}
	}
}

var specC03Reject = Register(&Spec[NearMiss]{
	Prop: "C03", Name: "reject",
	Rule: "one edit of a Policy-grammar version that puts it in exactly one of the rejection classes the statement names: non-numeric epoch, negative epoch, epoch > MaxInt64, whitespace embedded inside, nothing after the colon, non-digit first upstream character, a character outside [A-Za-z0-9.+~] (plus ':' '-') in upstream or revision or around the whole text - quotes, brackets, '=', ';', BOM, NUL at the two ends - (ASCII punctuation and control bytes, NUL, DEL, any lone byte >= 0x80, any non-space rune from Latin-1/Latin Extended, Greek, Cyrillic, Arabic-Indic digits, general punctuation, CJK, fullwidth forms, emoji). Oracle: Parse, UnmarshalControl, UnmarshalText and json.Unmarshal of the text as a JSON string all return an error, and a fixed valid version parsed right afterwards (also into the variable that just saw the failure) comes out as written. Every case is non-trivial; distinct by text; classes counted separately.",
	Check: func(n NearMiss, r *Recorder) error {
		r.Case(n.Text, true, "reject:"+n.Class)
		r.Sample(n)
		if v, err := version.Parse(n.Text); err == nil {
			return errf("Parse(%q) accepted a %s string as %+v", n.Text, n.Class, v)
		}
		var v1 version.Version
		if err := v1.UnmarshalControl(n.Text); err == nil {
			return errf("UnmarshalControl(%q) accepted a %s string as %+v", n.Text, n.Class, v1)
		}
		var v2 version.Version
		if err := v2.UnmarshalText([]byte(n.Text)); err == nil {
			return errf("UnmarshalText(%q) accepted a %s string as %+v", n.Text, n.Class, v2)
		}
		if utf8.ValidString(n.Text) {
			// encoding/json (and every other encoding.TextUnmarshaler client) goes through UnmarshalText
			if js, jerr := json.Marshal(n.Text); jerr == nil {
				var v3 version.Version
				if err := json.Unmarshal(js, &v3); err == nil {
					return errf("json.Unmarshal(%s) into a Version accepted a %s string as %+v", js, n.Class, v3)
				}
			}
		}
		// nothing of a rejected string stays behind: a valid one right afterwards is what it says
		want := version.Version{Epoch: 3, Version: "1.2~rc1+dfsg", Revision: "4+b1"}
		if v, err := version.Parse("3:1.2~rc1+dfsg-4+b1"); err != nil || v != want {
			return errf("after rejecting %q, Parse(\"3:1.2~rc1+dfsg-4+b1\") = %+v, %v", n.Text, v, err)
		}
		if err := v2.UnmarshalControl("3:1.2~rc1+dfsg-4+b1"); err != nil || v2 != want {
			return errf("after rejecting %q, UnmarshalControl of a valid version into the same variable = %+v, %v", n.Text, v2, err)
		}
		return nil
	},
})

func TestC03_Reject(t *testing.T) {
	longVersions = true
	specC03Reject.Run(t, genNearMiss, 40000, 200000)
}

// ------------------------------------------------------------------ C03/roundtrip

type VersionText struct {
	S string `json:"s"`
}

const c03Soup = "0123456789abAZ.+~:- \t\n"

func genAcceptedCandidate(t *rapid.T) VersionText {
	switch rapid.IntRange(0, 5).Draw(t, "src") {
	case 0, 1:
		return VersionText{genWellFormed(t, "w").Text}
	case 2, 3:
		s := genWellFormed(t, "w").Text
		n := rapid.IntRange(1, 2).Draw(t, "edits")
		for i := 0; i < n; i++ {
			b := []byte(s)
			c := c03Soup[rapid.IntRange(0, len(c03Soup)-1).Draw(t, "c")]
			switch rapid.IntRange(0, 2).Draw(t, "op") {
			case 0:
				p := rapid.IntRange(0, len(b)).Draw(t, "p")
				b = append(b[:p], append([]byte{c}, b[p:]...)...)
			case 1:
				if len(b) > 0 {
					p := rapid.IntRange(0, len(b)-1).Draw(t, "p")
					b = append(b[:p], b[p+1:]...)
				}
			default:
				if len(b) > 0 {
					p := rapid.IntRange(0, len(b)-1).Draw(t, "p")
					b[p] = c
				}
			}
			s = string(b)
		}
		return VersionText{s}
	default:
		n := rapid.IntRange(1, 12).Draw(t, "n")
		b := make([]byte, n)
		for i := range b {
			b[i] = c03Soup[rapid.IntRange(0, len(c03Soup)-4).Draw(t, "c")]
		}
		if rapid.Bool().Draw(t, "digitfirst") {
			b[0] = byte('0' + rapid.IntRange(0, 9).Draw(t, "d"))
		}
		return VersionText{string(b)}
	}
}

func checkVersionRoundTrip(s string, r *Recorder) error {
	v, err := version.Parse(s)
	if err != nil {
		r.Case(s, false, "not-accepted")
		return nil
	}
	cl := []string{"accepted"}
	if v.Epoch > 0 {
		cl = append(cl, "epoch>0")
	}
	if strings.Contains(s, ":") && v.Epoch == 0 {
		cl = append(cl, "explicit-zero-epoch")
	}
	if v.Revision != "" {
		cl = append(cl, "revision")
	}
	if strings.Contains(v.Version, ":") {
		cl = append(cl, "colon-in-upstream")
	}
	if strings.Contains(v.Version, "-") {
		cl = append(cl, "hyphen-in-upstream")
	}
	if strings.HasSuffix(strings.TrimSpace(s), "-") {
		cl = append(cl, "trailing-hyphen")
	}
	if v.Version == "" {
		cl = append(cl, "empty-upstream")
	}
	nt := len(cl) > 1
	r.Case(s, nt, cl...)
	if nt {
		r.Sample(s)
	}
	s2 := v.String()
	v2, err := version.Parse(s2)
	if err != nil {
		return errf("Parse(%q)=%+v renders as %q, which does not parse: %v", s, v, s2, err)
	}
	if v2 != v {
		return errf("Parse(%q)=%+v renders as %q, which parses to a different value %+v", s, v, s2, v2)
	}
	mc, err := v.MarshalControl()
	if err != nil {
		return errf("MarshalControl(%+v): %v", v, err)
	}
	var v3 version.Version
	if err := v3.UnmarshalControl(mc); err != nil || v3 != v {
		return errf("control text round trip of %+v via %q gives %+v, %v", v, mc, v3, err)
	}
	mt, err := (&v).MarshalText()
	if err != nil {
		return errf("MarshalText(%+v): %v", v, err)
	}
	var v4 version.Version
	if err := v4.UnmarshalText(mt); err != nil || v4 != v {
		return errf("marshalled-text round trip of %+v via %q gives %+v, %v", v, mt, v4, err)
	}
	// the bytes MarshalText handed out are the caller's: rendering other versions afterwards (a list
	// being marshalled element by element) must not reach back into them
	held := string(mt)
	other := version.Version{Epoch: 9, Version: "99.99+other~x", Revision: "zz9"}
	_ = other.String()
	_, _ = (&other).MarshalText()
	_, _ = other.MarshalControl()
	_ = other.StringWithoutEpoch()
	if string(mt) != held {
		return errf("the text MarshalText returned for %+v (%q) reads %q after another version was rendered", v, held, mt)
	}
	js, err := json.Marshal(&v)
	if err != nil {
		return errf("json.Marshal(&%+v): %v", v, err)
	}
	var v5 version.Version
	if err := json.Unmarshal(js, &v5); err != nil || v5 != v {
		return errf("JSON round trip of %+v via %s gives %+v, %v", v, js, v5, err)
	}
	return nil
}

var specC03RoundTrip = Register(&Spec[VersionText]{
	Prop: "C03", Name: "roundtrip",
	Rule:  "candidate strings from three sources - Policy-grammar renderings, one or two byte edits of them over [0-9abAZ.+~:-] and blanks, and short soups over that alphabet; every string Parse accepts must satisfy Parse(String(v))==v, UnmarshalControl(MarshalControl(v))==v, UnmarshalText(MarshalText(&v))==v and json.Unmarshal(json.Marshal(&v))==v, always into fresh receivers; the bytes MarshalText returned stay what they were while another version is rendered. Non-trivial: accepted and has an epoch, explicit 0 epoch, revision, ':' or '-' inside upstream, trailing hyphen or empty upstream; distinct by text.",
	Check: func(c VersionText, r *Recorder) error { return checkVersionRoundTrip(c.S, r) },
})

func TestC03_RoundTrip(t *testing.T) {
	longVersions = true
	specC03RoundTrip.Run(t, genAcceptedCandidate, 100000, 500000)
}

// native fuzz target (thorough tier): the same oracle on coverage-guided input.
func FuzzC03_RoundTrip(f *testing.F) {
	longVersions = true
	for _, s := range []string{"1.0", "1:2.0-3", "0:1:2", "1-2-", " 1.0~rc1+b1-0ubuntu1\n", "2:0-0", "09azAZ.-+~:-0", "-", "1:-"} {
		f.Add(s)
	}
	f.Fuzz(func(t *testing.T, s string) {
		if len(s) > 256 {
			return
		}
		if err := checkVersionRoundTrip(s, nil); err != nil {
			t.Fatalf("C03/roundtrip violated on %q: %v", s, err)
		}
	})
}

func strconvQuote(s string) string {
	b, _ := json.Marshal(s)
	return string(b)
}
