package props

import (
	"fmt"
	"strings"

	"pault.ag/go/debian/dependency"
	"pgregory.net/rapid"
)

// ---------------------------------------------------------------- AST

type ProfTerm struct {
	Not  bool   `json:"not,omitempty"`
	Name string `json:"name"`
}

// AltAST is one alternative of a relation.
type AltAST struct {
	Substvar bool         `json:"substvar,omitempty"`
	Name     string       `json:"name"`
	Qual     string       `json:"qual,omitempty"` // text after ':'
	HasVer   bool         `json:"hasVer,omitempty"`
	Op       string       `json:"op,omitempty"`
	Ver      string       `json:"ver,omitempty"`
	ArchNot  bool         `json:"archNot,omitempty"`
	Archs    []string     `json:"archs,omitempty"`
	Profiles [][]ProfTerm `json:"profiles,omitempty"`
	// Order lists the clauses in rendered order: "v" version, "a" arch list,
	// "p<i>" profile group i.
	Order []string `json:"order,omitempty"`
}

type RelAST struct {
	Alts []AltAST `json:"alts"`
}

type DepAST struct {
	Rels []RelAST `json:"rels"`
}

// ---------------------------------------------------------------- arch name model

type Triple3 struct{ ABI, OS, CPU string }

// archModel is the independent reading of an architecture name: 1 part = the
// atoms any/all or a Linux CPU; 2 parts = os-cpu (ABI unconstrained); 3 parts
// = abi-os-cpu.
func archModel(name string) (tr Triple3, parts int) {
	p := strings.SplitN(name, "-", 3)
	switch len(p) {
	case 1:
		if name == "any" || name == "all" {
			return Triple3{name, name, name}, 1
		}
		return Triple3{"gnu", "linux", name}, 1
	case 2:
		// OS-CPU: a wildcard when a component is "any" (the ABI is then
		// unconstrained as well); otherwise the concrete architecture of that OS
		// with the OS's default ABI - gnu for linux (linux-amd64 is amd64), and a
		// placeholder "?OS" elsewhere, because which ABI is the default there is
		// a table lookup the statement does not fix.
		if p[0] == "any" || p[1] == "any" {
			return Triple3{"any", p[0], p[1]}, 2
		}
		if p[0] == "linux" {
			return Triple3{"gnu", p[0], p[1]}, 2
		}
		return Triple3{"?" + p[0], p[0], p[1]}, 2
	default:
		return Triple3{p[0], p[1], p[2]}, 3
	}
}

// archEqualsModel compares a parsed Arch with the model of its name without
// judging the ABI of a two-part name (kept for reference; since the F38 repair
// both entry points give "any" there and the checks use fullArchEq).
func archEqualsModel(a dependency.Arch, name string) bool {
	m, parts := archModel(name)
	if a.OS != m.OS || a.CPU != m.CPU {
		return false
	}
	if parts == 2 {
		return true
	}
	return a.ABI == m.ABI
}

var (
	archNames1    = []string{"amd64", "i386", "arm64", "armhf", "armel", "mips64el", "ppc64el", "riscv64", "s390x", "x32", "any", "all", "native"}
	archNames2    = []string{"linux-any", "kfreebsd-any", "hurd-any", "any-amd64", "any-i386", "any-arm64", "kfreebsd-amd64", "kfreebsd-i386", "hurd-i386", "linux-amd64", "any-any"}
	archNames3    = []string{"gnu-linux-amd64", "musl-linux-arm64", "gnu-kfreebsd-amd64", "gnu-any-any", "any-any-any", "any-linux-any", "musl-any-any", "gnu-linux-any", "any-any-amd64", "uclibc-linux-armel", "gnueabihf-linux-arm"}
	pkgNames      = []string{"foo", "bar", "baz", "libc6", "libfoo-dev", "g++", "libstdc++6", "python3.11", "a0", "debhelper-compat", "gcc-12-base", "x11-common", "0ad", "libc6.1", "libgtk2.0-0"}
	substvarNames = []string{"misc:Depends", "shlibs:Depends", "python3:Depends", "foo", "perl:Depends", "F-oo:Bar9", "dist:Depends"}
	profileNames  = []string{"stage1", "stage2", "nocheck", "nodoc", "cross", "pkg.foo.bar", "noinsttest", "nobiarch", "pkg.gcc.nolibs"}
	operators     = []string{"<<", "<=", "=", ">=", ">>"}
)

func genPkgName(t *rapid.T, label string) string {
	if rapid.IntRange(0, 3).Draw(t, label+"k") > 0 {
		return rapid.SampledFrom(pkgNames).Draw(t, label+"n")
	}
	first := "abcdefghijklmnopqrstuvwxyz0123456789"
	rest := first + "+.-"
	n := rapid.IntRange(1, 10).Draw(t, label+"len")
	b := []byte{first[rapid.IntRange(0, len(first)-1).Draw(t, label+"f")]}
	for i := 0; i < n; i++ {
		b = append(b, rest[rapid.IntRange(0, len(rest)-1).Draw(t, label+"r")])
	}
	return string(b)
}

func genArchName(t *rapid.T, label string) string {
	switch rapid.IntRange(0, 5).Draw(t, label+"k") {
	case 0, 1, 2:
		return rapid.SampledFrom(archNames1[:12]).Draw(t, label+"a1")
	case 3, 4:
		return rapid.SampledFrom(archNames2).Draw(t, label+"a2")
	default:
		return rapid.SampledFrom(archNames3).Draw(t, label+"a3")
	}
}

func genAlt(t *rapid.T, label string, allowSubstvar bool) AltAST {
	if allowSubstvar && rapid.IntRange(0, 6).Draw(t, label+"sv") == 0 {
		name := rapid.SampledFrom(substvarNames).Draw(t, label+"svn")
		return AltAST{Substvar: true, Name: name}
	}
	a := AltAST{Name: genPkgName(t, label+"name")}
	if rapid.IntRange(0, 29).Draw(t, label+"longname") == 0 {
		// names beyond small fixed-size buffers (dependency fields only: these names never become
		// file names)
		n := rapid.SampledFrom([]int{31, 32, 33, 63, 64, 65, 127, 129, 255, 300}).Draw(t, label+"longlen")
		b := []byte("lib")
		for len(b) < n {
			b = append(b, "abcdefghijklmnopqrstuvwxyz0123456789+.-"[rapid.IntRange(0, 38).Draw(t, label+"lc")])
		}
		a.Name = string(b)
	}
	if rapid.IntRange(0, 3).Draw(t, label+"q") == 0 {
		switch rapid.IntRange(0, 3).Draw(t, label+"qk") {
		case 0, 1:
			a.Qual = rapid.SampledFrom([]string{"any", "native", "amd64", "i386", "all"}).Draw(t, label+"q1")
		case 2:
			a.Qual = rapid.SampledFrom(archNames2).Draw(t, label+"q2")
		default:
			a.Qual = rapid.SampledFrom(archNames3).Draw(t, label+"q3")
		}
	}
	if rapid.IntRange(0, 1).Draw(t, label+"hv") == 0 {
		a.HasVer = true
		a.Op = rapid.SampledFrom(operators).Draw(t, label+"op")
		a.Ver = genSimpleVersion(t, label+"ver")
		a.Order = append(a.Order, "v")
	}
	if rapid.IntRange(0, 2).Draw(t, label+"ha") == 0 {
		n := rapid.IntRange(1, 4).Draw(t, label+"an")
		a.ArchNot = rapid.Bool().Draw(t, label+"anot")
		for i := 0; i < n; i++ {
			a.Archs = append(a.Archs, genArchName(t, label+"arch"))
		}
		a.Order = append(a.Order, "a")
	}
	np := rapid.SampledFrom([]int{0, 0, 0, 1, 1, 2, 3}).Draw(t, label+"np")
	for g := 0; g < np; g++ {
		n := rapid.IntRange(1, 3).Draw(t, label+"pn")
		grp := []ProfTerm{}
		for i := 0; i < n; i++ {
			grp = append(grp, ProfTerm{Not: rapid.Bool().Draw(t, label+"pnot"), Name: rapid.SampledFrom(profileNames).Draw(t, label+"pname")})
		}
		a.Profiles = append(a.Profiles, grp)
		a.Order = append(a.Order, fmt.Sprintf("p%d", g))
	}
	if len(a.Order) > 1 {
		perm := rapid.Permutation(a.Order).Draw(t, label+"order")
		// profile groups must keep their relative order (group i is the i-th
		// group in the text): re-number in order of appearance.
		k := 0
		for i, c := range perm {
			if c[0] == 'p' {
				perm[i] = fmt.Sprintf("p%d", k)
				k++
			}
		}
		a.Order = perm
	}
	return a
}

func genDepAST(t *rapid.T, label string, maxRels, maxAlts int, allowSubstvar bool) DepAST {
	nr := rapid.IntRange(1, maxRels).Draw(t, label+"nr")
	d := DepAST{}
	for i := 0; i < nr; i++ {
		na := rapid.SampledFrom([]int{1, 1, 1, 2, 2, 3, 4}).Draw(t, label+"na")
		if na > maxAlts {
			na = maxAlts
		}
		rel := RelAST{}
		for j := 0; j < na; j++ {
			rel.Alts = append(rel.Alts, genAlt(t, fmt.Sprintf("%sr%da%d", label, i, j), allowSubstvar))
		}
		d.Rels = append(d.Rels, rel)
	}
	return d
}

// ---------------------------------------------------------------- renderer

type gapKind int

const (
	gLead gapKind = iota
	gTrail
	gBeforeComma
	gAfterComma
	gBeforePipe
	gAfterPipe
	gNameParen  // between name[:qual] and "(" - optional
	gClauseSep  // before "[" / "<", or before "(" after another clause - customary, but dpkg needs none
	gInOpen     // after ( [ <
	gInClose    // before ) ] >
	gOpVer      // between operator and version - optional
	gItemSep    // between list items - mandatory
	gAfterBang  // never any
	numGapKinds // sentinel
)

func (g gapKind) mandatory() bool { return g == gItemSep }

// Spacer decides the whitespace at each gap.
type Spacer interface{ gap(k gapKind) string }

type fixedSpacer struct {
	opt  string // used at optional gaps
	man  string // used at mandatory gaps
	fold string // used after comma / around pipe if non-empty
	lead string
	tail string
	// tight: no blank before "[" and "<" either (foo[amd64]<stage1>)
	tight bool
}

func (f fixedSpacer) gap(k gapKind) string {
	switch k {
	case gLead:
		return f.lead
	case gTrail:
		return f.tail
	case gAfterComma, gAfterPipe:
		if f.fold != "" {
			return f.fold
		}
		if f.opt == "" {
			return ""
		}
		return f.opt
	case gBeforeComma:
		return ""
	case gBeforePipe:
		if f.fold != "" {
			return " "
		}
		return f.opt
	case gAfterBang:
		return ""
	case gClauseSep:
		if f.tight {
			return ""
		}
		return f.man
	}
	if k.mandatory() {
		return f.man
	}
	return f.opt
}

// the deterministic spacing schemes of the bounded-exhaustive sweep
var fixedSchemes = map[string]fixedSpacer{
	"S0-canonical":  {opt: " ", man: " "},
	"S1-minimal":    {opt: "", man: " "},
	"S2-double":     {opt: "  ", man: "  ", lead: " ", tail: "  "},
	"S3-folded":     {opt: " ", man: " ", fold: "\n "},
	"S4-folded-nl":  {opt: " ", man: " ", fold: "\n ", tail: "\n"},
	"S5-tabs":       {opt: "\t", man: "\t", lead: "\t", tail: "\t"},
	"S6-newlines":   {opt: "\n", man: "\n", tail: "\n"},
	"S7-nl-indent":  {opt: "\n  ", man: "\n  ", tail: "\n"},
	"S8-crlf":       {opt: "\r\n ", man: "\r\n ", tail: "\r\n"},
	"S9-inner-only": {opt: "", man: " ", fold: "", tail: "\n"},
	"S10-tight":     {opt: "", man: " ", tight: true},
}

type rapidSpacer struct {
	t     *rapid.T
	class string // W0 | W1 | W2
}

func (r rapidSpacer) gap(k gapKind) string {
	if k == gAfterBang {
		return ""
	}
	var opts []string
	switch r.class {
	case "W0":
		opts = []string{"", " ", " ", "  "}
	case "W1":
		if k == gAfterComma || k == gBeforePipe || k == gAfterPipe {
			opts = []string{"", " ", "\n ", "\n ", " \n ", "\n   "}
		} else {
			opts = []string{"", " ", " ", "  "}
		}
	default:
		opts = []string{"", " ", " ", "\t", "\n", "\n ", "\r\n", " \t", "\n\t", "  "}
		if k == gTrail {
			opts = []string{"\n", "\n", "", " ", "\r\n", "\t\n"}
		}
	}
	if k.mandatory() {
		opts = opts[1:]
	}
	return rapid.SampledFrom(opts).Draw(r.t, "gap")
}

func renderAlt(a AltAST, sp Spacer) string {
	if a.Substvar {
		return "${" + a.Name + "}"
	}
	var sb strings.Builder
	sb.WriteString(a.Name)
	if a.Qual != "" {
		sb.WriteString(":" + a.Qual)
	}
	for i, c := range a.Order {
		switch {
		case c == "v":
			if i == 0 {
				sb.WriteString(sp.gap(gNameParen))
			} else {
				sb.WriteString(sp.gap(gClauseSep))
			}
			sb.WriteString("(" + sp.gap(gInOpen) + a.Op + sp.gap(gOpVer) + a.Ver + sp.gap(gInClose) + ")")
		case c == "a":
			sb.WriteString(sp.gap(gClauseSep))
			sb.WriteString("[" + sp.gap(gInOpen))
			for j, n := range a.Archs {
				if j > 0 {
					sb.WriteString(sp.gap(gItemSep))
				}
				if a.ArchNot {
					sb.WriteString("!" + sp.gap(gAfterBang))
				}
				sb.WriteString(n)
			}
			sb.WriteString(sp.gap(gInClose) + "]")
		default:
			var g int
			fmt.Sscanf(c, "p%d", &g)
			sb.WriteString(sp.gap(gClauseSep))
			sb.WriteString("<" + sp.gap(gInOpen))
			for j, term := range a.Profiles[g] {
				if j > 0 {
					sb.WriteString(sp.gap(gItemSep))
				}
				if term.Not {
					sb.WriteString("!" + sp.gap(gAfterBang))
				}
				sb.WriteString(term.Name)
			}
			sb.WriteString(sp.gap(gInClose) + ">")
		}
	}
	return sb.String()
}

func renderDep(d DepAST, sp Spacer) string {
	var sb strings.Builder
	sb.WriteString(sp.gap(gLead))
	for i, rel := range d.Rels {
		if i > 0 {
			sb.WriteString(sp.gap(gBeforeComma) + "," + sp.gap(gAfterComma))
		}
		for j, alt := range rel.Alts {
			if j > 0 {
				sb.WriteString(sp.gap(gBeforePipe) + "|" + sp.gap(gAfterPipe))
			}
			sb.WriteString(renderAlt(alt, sp))
		}
	}
	sb.WriteString(sp.gap(gTrail))
	return sb.String()
}

var canonicalSpacer = fixedSchemes["S0-canonical"]

// ---------------------------------------------------------------- AST <-> parsed value

// compareDepToAST returns nil when the parsed value is exactly the AST.
func compareDepToAST(dep *dependency.Dependency, ast DepAST) error {
	if dep == nil {
		return errf("nil *Dependency without an error")
	}
	if len(dep.Relations) != len(ast.Rels) {
		return errf("got %d relations, want %d", len(dep.Relations), len(ast.Rels))
	}
	for i, rel := range dep.Relations {
		want := ast.Rels[i]
		if len(rel.Possibilities) != len(want.Alts) {
			return errf("relation %d: got %d alternatives, want %d", i, len(rel.Possibilities), len(want.Alts))
		}
		for j, p := range rel.Possibilities {
			if err := comparePossiToAlt(p, want.Alts[j]); err != nil {
				return errf("relation %d alternative %d: %v", i, j, err)
			}
		}
	}
	return nil
}

func comparePossiToAlt(p dependency.Possibility, a AltAST) error {
	if p.Substvar != a.Substvar {
		return errf("substvar marker %v, want %v (name %q)", p.Substvar, a.Substvar, p.Name)
	}
	if p.Name != a.Name {
		return errf("name %q, want %q", p.Name, a.Name)
	}
	if a.Substvar {
		if p.Version != nil || p.Arch != nil || len(p.StageSets) != 0 || (p.Architectures != nil && len(p.Architectures.Architectures) != 0) {
			return errf("substvar ${%s} carries restrictions: %+v", a.Name, p)
		}
		return nil
	}
	if a.Qual == "" {
		if p.Arch != nil {
			return errf("%s: unexpected arch qualifier %+v", a.Name, *p.Arch)
		}
	} else {
		if p.Arch == nil {
			return errf("%s: arch qualifier %q lost", a.Name, a.Qual)
		}
		if !fullArchEq(*p.Arch, a.Qual) {
			return errf("%s: arch qualifier %q parsed as %+v", a.Name, a.Qual, *p.Arch)
		}
	}
	if a.HasVer {
		if p.Version == nil {
			return errf("%s: version clause (%s %s) lost", a.Name, a.Op, a.Ver)
		}
		if p.Version.Operator != a.Op || p.Version.Number != a.Ver {
			return errf("%s: version clause parsed as operator %q number %q, want %q %q", a.Name, p.Version.Operator, p.Version.Number, a.Op, a.Ver)
		}
	} else if p.Version != nil {
		return errf("%s: unexpected version clause %+v", a.Name, *p.Version)
	}
	var gotArchs []dependency.Arch
	gotNot := false
	if p.Architectures != nil {
		gotArchs, gotNot = p.Architectures.Architectures, p.Architectures.Not
	}
	if len(gotArchs) != len(a.Archs) {
		return errf("%s: %d architectures %+v, want %d %v", a.Name, len(gotArchs), gotArchs, len(a.Archs), a.Archs)
	}
	if gotNot != a.ArchNot {
		return errf("%s: architecture negation %v, want %v", a.Name, gotNot, a.ArchNot)
	}
	for k, n := range a.Archs {
		if !fullArchEq(gotArchs[k], n) {
			return errf("%s: architecture %d %q parsed as %+v", a.Name, k, n, gotArchs[k])
		}
	}
	if len(p.StageSets) != len(a.Profiles) {
		return errf("%s: %d profile groups %+v, want %d %+v", a.Name, len(p.StageSets), p.StageSets, len(a.Profiles), a.Profiles)
	}
	for g, grp := range a.Profiles {
		got := p.StageSets[g].Stages
		if len(got) != len(grp) {
			return errf("%s: profile group %d has %d terms %+v, want %d %+v", a.Name, g, len(got), got, len(grp), grp)
		}
		for k, term := range grp {
			if got[k].Name != term.Name || got[k].Not != term.Not {
				return errf("%s: profile group %d term %d is %+v, want %+v", a.Name, g, k, got[k], term)
			}
		}
	}
	return nil
}

func astFeatures(d DepAST) (alts int, maxClauseKinds int, substvarNextToRestricted bool) {
	for _, r := range d.Rels {
		hasSV, hasRestr := false, false
		for _, a := range r.Alts {
			alts++
			if a.Substvar {
				hasSV = true
				continue
			}
			kinds := 0
			if a.HasVer {
				kinds++
			}
			if len(a.Archs) > 0 {
				kinds++
			}
			if len(a.Profiles) > 0 {
				kinds++
			}
			if kinds > maxClauseKinds {
				maxClauseKinds = kinds
			}
			if kinds > 0 {
				hasRestr = true
			}
		}
		if hasSV && hasRestr {
			substvarNextToRestricted = true
		}
	}
	return
}
