package props

import (
	"bytes"
	"fmt"
	"os"
	"path/filepath"
	"runtime"
	"strings"
	"sync"
	"testing"

	"pault.ag/go/debian/control"
	"pgregory.net/rapid"
)

// ParaVal is a JSON-friendly paragraph (map order is carried by Order).
type ParaVal struct {
	Order  []string          `json:"order"`
	Values map[string]string `json:"values"`
}

func (p ParaVal) para() control.Paragraph {
	vals := map[string]string{}
	for k, v := range p.Values {
		vals[k] = v
	}
	return control.Paragraph{Order: append([]string{}, p.Order...), Values: vals}
}

func logicalLines(v string) []string {
	return strings.Split(strings.TrimSuffix(v, "\n"), "\n")
}

func sameUpToTrailingNewline(a, b string) bool {
	return strings.TrimSuffix(a, "\n") == strings.TrimSuffix(b, "\n")
}

func writePara(p control.Paragraph) (string, error) {
	var buf bytes.Buffer
	if err := p.WriteTo(&buf); err != nil {
		return "", err
	}
	return buf.String(), nil
}

func readParas(text string) ([]control.Paragraph, error) {
	pr, err := control.NewParagraphReader(strings.NewReader(text), nil)
	if err != nil {
		return nil, err
	}
	return pr.All()
}

func noBlankLineInside(w string) error {
	body := strings.TrimSuffix(w, "\n")
	for i, l := range strings.Split(body, "\n") {
		if strings.TrimSpace(l) == "" {
			return errf("written paragraph has an empty or whitespace-only line (line %d %q) in %q", i+1, l, w)
		}
	}
	return nil
}

// genLineSeqValue draws a value as a sequence of text lines.
func genLineSeqValue(t *rapid.T, label string) (string, []string) {
	feats := []string{}
	if rapid.IntRange(0, 9).Draw(t, label+"single") == 0 {
		return "", []string{"empty-value"}
	}
	n := rapid.SampledFrom([]int{1, 1, 2, 3, 4, 8}).Draw(t, label+"n")
	lines := []string{}
	for i := 0; i < n; i++ {
		k := rapid.IntRange(0, 9).Draw(t, label+"lk")
		switch {
		case i > 0 && k <= 1:
			lines = append(lines, "")
			feats = append(feats, "empty-line")
			if rapid.Bool().Draw(t, label+"run") {
				lines = append(lines, "")
				feats = append(feats, "empty-run")
				if rapid.Bool().Draw(t, label+"run3") {
					lines = append(lines, "")
				}
			}
		case k <= 4 && (i > 0 || rapid.IntRange(0, 3).Draw(t, label+"indentFirst") == 0):
			txt := genLineText(t, label+"itxt", false)
			lines = append(lines, blanksNonEmpty(t, label+"ind")+txt)
			if i == 0 {
				feats = append(feats, "indented-first-line")
			} else {
				feats = append(feats, "indented-line")
			}
		default:
			txt := genLineText(t, label+"txt", false)
			if txt == "." {
				txt = ".."
			}
			if rapid.IntRange(0, 39).Draw(t, label+"long") == 0 {
				// a line longer than the reader's 4096-byte buffer, around the buffer marks
				n := rapid.SampledFrom([]int{4070, 4085, 4090, 4096, 4100, 8185, 8192, 8200, 13000}).Draw(t, label+"longn") + rapid.IntRange(-3, 3).Draw(t, label+"longd")
				txt = strings.Repeat("0123456789", n/10+1)[:n]
				feats = append(feats, "long-line")
			}
			lines = append(lines, txt)
		}
	}
	// a value never ends in an unrepresentable way: drop nothing, but the last
	// line may be empty (value ending in "\n\n").
	v := strings.Join(lines, "\n")
	if rapid.Bool().Draw(t, label+"trailingNL") {
		v += "\n"
		feats = append(feats, "trailing-newline")
	}
	if len(lines) >= 2 {
		feats = append(feats, "multi-line")
	}
	return v, feats
}

func blanksNonEmpty(t *rapid.T, label string) string {
	n := rapid.IntRange(1, 3).Draw(t, label)
	s := ""
	for i := 0; i < n; i++ {
		s += rapid.SampledFrom([]string{" ", " ", "\t"}).Draw(t, label+"c")
	}
	return s
}

type WriteCase struct {
	P     ParaVal  `json:"p"`
	Feats []string `json:"feats"`
}

func genWriteCase(t *rapid.T) WriteCase {
	used := map[string]bool{}
	n := rapid.IntRange(1, 6).Draw(t, "fields")
	p := ParaVal{Values: map[string]string{}}
	fs := map[string]bool{}
	for i := 0; i < n; i++ {
		name := genFieldName(t, "fn", used)
		v, feats := genLineSeqValue(t, "v")
		p.Order = append(p.Order, name)
		p.Values[name] = v
		for _, f := range feats {
			fs[f] = true
		}
	}
	fl := []string{}
	for f := range fs {
		fl = append(fl, f)
	}
	sortStrings(fl)
	return WriteCase{P: p, Feats: fl}
}

func startsWithEmptyLine(v string) bool {
	return strings.HasPrefix(v, "\n") && len(v) > 1
}

var specC08Write = Register(&Spec[WriteCase]{
	Prop: "C08", Name: "write",
	Rule: "paragraphs of 1..6 valid field names whose values are line sequences: 1..8 lines, each text (no trailing blanks, not exactly '.'), indented text, or empty (also runs of 2..3 empty lines, also as last line), trailing newline present or absent, first line sometimes indented; a value is sometimes the empty string. Oracle: WriteTo output has no empty/whitespace-only line; reading it gives exactly one paragraph with the same Order and per field the same logical lines (equal up to one trailing newline); writing what was read reproduces the text byte for byte; with a whitespace-only (not empty) line put in front of a value, behind its first line or at its end the written form still has no whitespace-only line and reads back as one paragraph; WriteTo / Encoder.Encode into a writer that fails after 0, 1, half or all but one of the bytes return an error and have delivered a prefix of the text. Non-trivial: some value has >= 2 lines; distinct by paragraph.",
	Check: func(c WriteCase, r *Recorder) error {
		nt := false
		for _, f := range c.Feats {
			if f == "multi-line" {
				nt = true
			}
		}
		r.Case(jsonKey(c.P), nt, c.Feats...)
		if nt {
			r.Sample(c.P)
		}
		p := c.P.para()
		w, err := writePara(p)
		if err != nil {
			return errf("WriteTo failed: %v", err)
		}
		if err := noBlankLineInside(w); err != nil {
			return err
		}
		back, err := readParas(w)
		if err != nil {
			return errf("written paragraph %q does not read back: %v", w, err)
		}
		if len(back) != 1 {
			return errf("written paragraph %q reads back as %d paragraphs", w, len(back))
		}
		if strings.Join(back[0].Order, "\x00") != strings.Join(c.P.Order, "\x00") {
			return errf("written paragraph %q reads back with fields %q, want %q", w, back[0].Order, c.P.Order)
		}
		for _, k := range c.P.Order {
			if !sameUpToTrailingNewline(back[0].Values[k], c.P.Values[k]) {
				return errf("field %q: value %q was written as %q and read back as %q", k, c.P.Values[k], w, back[0].Values[k])
			}
		}
		w2, err := writePara(back[0])
		if err != nil {
			return errf("WriteTo of the re-read paragraph failed: %v", err)
		}
		if w2 != w {
			return errf("write(read(w)) != w: %q became %q", w, w2)
		}
		// a whitespace-only (not empty) first line in front of a value: what is written has no
		// whitespace-only line in it either, and reads back as one paragraph with the same names
		for _, lead := range []string{"  ", "\t", " \t "} {
			q := c.P.para()
			k0 := c.P.Order[0]
			q.Values[k0] = lead + "\n" + c.P.Values[k0]
			wq, err := writePara(q)
			if err != nil {
				return errf("WriteTo of a value with a whitespace-only first line %q: %v", q.Values[k0], err)
			}
			if err := noBlankLineInside(wq); err != nil {
				return errf("value %q (a whitespace-only first line): %v", q.Values[k0], err)
			}
			if bq, err := readParas(wq); err != nil || len(bq) != 1 || strings.Join(bq[0].Order, "\x00") != strings.Join(c.P.Order, "\x00") {
				return errf("value %q (a whitespace-only first line) written as %q reads back as %d paragraphs (err %v)", q.Values[k0], wq, len(bq), err)
			}
		}
		// ... and the same for a whitespace-only line further down in a value (behind its first line,
		// and as its last line), whatever the other lines look like
		for li, lead := range []string{"  ", "\t", " \t "} {
			q := c.P.para()
			k0 := c.P.Order[li%len(c.P.Order)]
			v := c.P.Values[k0]
			first, rest := v, ""
			if i := strings.Index(v, "\n"); i >= 0 {
				first, rest = v[:i], v[i:]
			}
			for _, hv := range []string{first + "\n" + lead + rest, strings.TrimSuffix(v, "\n") + "\n" + lead + "\n", strings.TrimSuffix(v, "\n") + "\n" + lead, "a\n" + lead + "\nb"} {
				q.Values[k0] = hv
				wq, err := writePara(q)
				if err != nil {
					return errf("WriteTo of a value with a whitespace-only line %q: %v", hv, err)
				}
				if err := noBlankLineInside(wq); err != nil {
					return errf("value %q (a whitespace-only line inside): %v", hv, err)
				}
				if bq, err := readParas(wq); err != nil || len(bq) != 1 || strings.Join(bq[0].Order, "\x00") != strings.Join(c.P.Order, "\x00") {
					return errf("value %q (a whitespace-only line inside) written as %q reads back as %d paragraphs (err %v)", hv, wq, len(bq), err)
				}
			}
		}
		// a writer that fails (disk full, connection gone) after k bytes: what was written is a
		// prefix of the paragraph's text, and the caller is told - a paragraph that did not get
		// out is not reported as written
		for _, k := range []int{0, 1, len(w) / 2, len(w) - 1} {
			if k < 0 || k >= len(w) {
				continue
			}
			fw := &failingWriter{room: k}
			werr := p.WriteTo(fw)
			if werr == nil {
				return errf("WriteTo into a writer that fails after %d of %d bytes returned no error (it took %q)", k, len(w), fw.buf.String())
			}
			if !strings.HasPrefix(w, fw.buf.String()) {
				return errf("WriteTo into a writer that fails after %d bytes delivered %q, which is not a prefix of the paragraph's text %q", k, fw.buf.String(), w)
			}
			var eb failingWriter
			eb.room = k
			if enc, err := control.NewEncoder(&eb); err == nil {
				if eerr := enc.Encode(&p); eerr == nil {
					return errf("Encoder.Encode into a writer that fails after %d of %d bytes returned no error", k, len(w))
				}
			}
		}
		return nil
	},
})

func TestC08_Write(t *testing.T) {
	specC08Write.Run(t, genWriteCase, 20000, 200000)
}

// ------------------------------------------------------------------ cycles on reader output

func writeDoc(ps []control.Paragraph) (string, error) {
	var sb strings.Builder
	for i, p := range ps {
		if i > 0 {
			sb.WriteString("\n")
		}
		w, err := writePara(p)
		if err != nil {
			return "", err
		}
		sb.WriteString(w)
	}
	return sb.String(), nil
}

var specC08Cycle = Register(&Spec[DocCase]{
	Prop: "C08", Name: "cycle",
	Rule: "every document of the C07 generator (2/3), and byte-level mutations of such documents and token soups incl. form feed, vertical tab, bare CR, NBSP, NEL, BOM, zero-width and other Unicode blanks in the first column of a line (alone or in front of '#', '-', a blank, ':'), '#' and ':' in odd places as far as the reader accepts them (1/3), is read with the real reader, then taken through three write->read cycles (paragraphs written with WriteTo, separated by one blank line). Oracle: after every cycle the paragraph list has the same length, field order and values (up to one trailing newline) as the first read; no written paragraph contains an empty/whitespace-only line; the text after the second and third write equals the text after the first. Documents in which the reader produced a value starting with an empty line (known finding F14, while recorded) are excluded by construction and counted. Non-trivial: a multi-line value is present; distinct by text.",
	Exclude: func(c DocCase) string {
		orig, err := readParas(c.Text)
		if err != nil {
			return ""
		}
		for _, p := range orig {
			for _, v := range p.Values {
				if startsWithEmptyLine(v) {
					return "F14"
				}
			}
		}
		return ""
	},
	Check: func(c DocCase, r *Recorder) error {
		orig, err := readParas(c.Text)
		if err != nil {
			r.Case(c.Text, false, "not-accepted")
			return nil
		}
		multi := false
		for _, p := range orig {
			for _, v := range p.Values {
				if strings.Contains(strings.TrimSuffix(v, "\n"), "\n") || strings.HasSuffix(v, "\n") {
					multi = true
				}
			}
		}
		r.Case(c.Text, multi, c.Feats...)
		if multi {
			r.Sample(c.Text)
		}
		cur := orig
		firstText := ""
		for cycle := 1; cycle <= 3; cycle++ {
			for _, p := range cur {
				w, err := writePara(p)
				if err != nil {
					return errf("cycle %d: WriteTo: %v", cycle, err)
				}
				if err := noBlankLineInside(w); err != nil {
					return errf("cycle %d: %v", cycle, err)
				}
			}
			text, err := writeDoc(cur)
			if err != nil {
				return errf("cycle %d: %v", cycle, err)
			}
			if cycle == 1 {
				firstText = text
			} else if text != firstText {
				return errf("document changes between write 1 and write %d: %q became %q (source %q)", cycle, firstText, text, c.Text)
			}
			next, err := readParas(text)
			if err != nil {
				return errf("cycle %d: written document %q does not read back: %v", cycle, text, err)
			}
			if len(next) != len(orig) {
				return errf("cycle %d: %d paragraphs were written as %q and read back as %d", cycle, len(orig), text, len(next))
			}
			for i := range orig {
				if strings.Join(next[i].Order, "\x00") != strings.Join(orig[i].Order, "\x00") {
					return errf("cycle %d: paragraph %d fields %q became %q", cycle, i, orig[i].Order, next[i].Order)
				}
				for _, k := range orig[i].Order {
					if !sameUpToTrailingNewline(next[i].Values[k], orig[i].Values[k]) {
						return errf("cycle %d: paragraph %d field %q: reader value %q became %q (written text %q)", cycle, i, k, orig[i].Values[k], next[i].Values[k], text)
					}
				}
			}
			cur = next
		}
		return nil
	},
})

func TestC08_Cycle(t *testing.T) {
	specC08Cycle.Run(t, func(t *rapid.T) DocCase {
		if rapid.IntRange(0, 2).Draw(t, "raw") == 0 {
			// whatever else the reader accepts: mutated documents and token soups, with the
			// odd white space (form feed, vertical tab, bare CR, NBSP, NEL) that Go's
			// TrimSpace treats as blank
			if rapid.Bool().Draw(t, "soup") {
				toks := []string{"A", "B", ":", " ", "\n", "\t", "#", ".", "x", "\r\n", "A: 1\n", " c\n", "\n\n", "é", "\f", "\v", "\r", "\u00a0", "\u0085", "#c: d\n", "-----BEGIN PGP ", "\f#k: v\n", ": v\n", "a b: c\n", "\ufeff", "\ufeff#k: v\n", "\ufeff-k: v\n", "\ufeff k: v\n", "\ufeffA: 1\n", "\u200b", "\u2028", "\u3000", "\u1680", "\x00"}
				n := rapid.IntRange(1, 12).Draw(t, "n")
				var sb strings.Builder
				for i := 0; i < n; i++ {
					sb.WriteString(rapid.SampledFrom(toks).Draw(t, "tok"))
				}
				return DocCase{Text: sb.String(), Feats: []string{"raw-soup"}}
			}
			if rapid.IntRange(0, 2).Draw(t, "lineFront") == 0 {
				// something invisible (or blank to Unicode but not to ASCII) in the first column of a
				// line, optionally with a character behind it that means something in column one
				lines := strings.SplitAfter(genDocCase(t, 3).Text, "\n")
				for k := rapid.IntRange(1, 2).Draw(t, "lfn"); k > 0; k-- {
					i := rapid.IntRange(0, len(lines)-1).Draw(t, "lfi")
					lines[i] = rapid.SampledFrom([]string{"\ufeff", "\u200b", "\u00a0", "\u3000", "\u2028", "\u0085", "\f", "\v", "\x00", "\u00ad", "\u2060"}).Draw(t, "lfr") +
						rapid.SampledFrom([]string{"", "", "#", "-", " ", "\t", ":", "."}).Draw(t, "lfc") + lines[i]
				}
				return DocCase{Text: strings.Join(lines, ""), Feats: []string{"raw-mutated"}}
			}
			return DocCase{Text: mutateBytes(t, genDocCase(t, 3).Text, ": \t\n\r#.-\f\v\u00a0", 3), Feats: []string{"raw-mutated"}}
		}
		return genDocCase(t, 4)
	}, 15000, 100000)
}

// ------------------------------------------------------------------ encoder

type EncCase struct {
	Ps      []ParaVal `json:"ps"`
	AsSlice bool      `json:"asSlice"`
	Direct  bool      `json:"direct,omitempty"` // hand the encoder control.Paragraph values themselves
	// Split > 0 (with AsSlice): the first Split paragraphs go out as one slice, the rest one by one
	// or as a second slice (SecondSlice) - one Encoder used for several calls of different shape
	Split       int  `json:"split,omitempty"`
	SecondSlice bool `json:"secondSlice,omitempty"`
}

func genEncCase(t *rapid.T) EncCase {
	n := rapid.IntRange(1, 5).Draw(t, "n")
	c := EncCase{AsSlice: rapid.Bool().Draw(t, "asSlice"), Direct: rapid.IntRange(0, 2).Draw(t, "direct") == 0}
	if c.AsSlice && n >= 2 && rapid.Bool().Draw(t, "mixed") {
		c.Split = rapid.IntRange(1, n-1).Draw(t, "split")
		c.SecondSlice = rapid.Bool().Draw(t, "secondSlice")
	}
	withEmpty := rapid.IntRange(0, 3).Draw(t, "withEmpty") == 0
	for i := 0; i < n; i++ {
		if withEmpty && rapid.IntRange(0, 2).Draw(t, "empty") == 0 {
			// a struct whose fields are all empty encodes to a paragraph without fields
			c.Ps = append(c.Ps, ParaVal{Order: []string{}, Values: map[string]string{}})
			continue
		}
		c.Ps = append(c.Ps, genWriteCase(t).P)
	}
	return c
}

var specC08Encoder = Register(&Spec[EncCase]{
	Prop: "C08", Name: "encoder",
	Rule: "1..5 paragraphs (C08/write generator; in a quarter of the cases some of them without any field, as an all-empty struct encodes) carried by structs embedding control.Paragraph (2/3) or handed over as control.Paragraph values themselves (1/3) and written through ONE control.Encoder, either by successive Encode(&struct) calls, as one slice, or as a slice followed by further single values or a second slice. Oracle: the output reads back as exactly the paragraphs that have fields, in order, with the same field order and values (up to one trailing newline) - a field-less paragraph has no textual form and must neither appear nor merge its neighbours. Non-trivial: >= 2 paragraphs; distinct by paragraph list.",
	Check: func(c EncCase, r *Recorder) error {
		hasEmpty := false
		for _, p := range c.Ps {
			if len(p.Order) == 0 {
				hasEmpty = true
			}
		}
		r.Case(jsonKey(c), len(c.Ps) >= 2, map[bool]string{true: "with-empty-paragraphs", false: "all-non-empty"}[hasEmpty])
		if len(c.Ps) >= 2 {
			r.Sample(c)
		}
		var buf bytes.Buffer
		enc, err := control.NewEncoder(&buf)
		if err != nil {
			return errf("NewEncoder: %v", err)
		}
		hs := []paraHolder{}
		for _, p := range c.Ps {
			hs = append(hs, paraHolder{p.para()})
		}
		if c.Direct {
			ps := []control.Paragraph{}
			for _, h := range hs {
				ps = append(ps, h.Paragraph)
			}
			if c.AsSlice {
				if err := enc.Encode(ps); err != nil {
					return errf("Encode([]control.Paragraph): %v", err)
				}
			} else {
				for i := range ps {
					if err := enc.Encode(&ps[i]); err != nil {
						return errf("Encode(&control.Paragraph %d): %v", i, err)
					}
				}
			}
		} else if c.AsSlice && c.Split > 0 && c.Split < len(hs) {
			if err := enc.Encode(hs[:c.Split]); err != nil {
				return errf("Encode(first slice): %v", err)
			}
			if c.SecondSlice {
				if err := enc.Encode(hs[c.Split:]); err != nil {
					return errf("Encode(second slice): %v", err)
				}
			} else {
				for i := c.Split; i < len(hs); i++ {
					if err := enc.Encode(&hs[i]); err != nil {
						return errf("Encode(&struct %d) after a slice: %v", i, err)
					}
				}
			}
		} else if c.AsSlice {
			if err := enc.Encode(hs); err != nil {
				return errf("Encode(slice): %v", err)
			}
		} else {
			for i := range hs {
				if err := enc.Encode(&hs[i]); err != nil {
					return errf("Encode(&struct %d): %v", i, err)
				}
			}
		}
		back, err := readParas(buf.String())
		if err != nil {
			return errf("encoder output %q does not read back: %v", buf.String(), err)
		}
		// a paragraph without fields has no textual form; what must survive is every paragraph that has fields
		var nonEmpty []ParaVal
		for _, p := range c.Ps {
			if len(p.Order) > 0 {
				nonEmpty = append(nonEmpty, p)
			}
		}
		if len(back) != len(nonEmpty) {
			return errf("%d paragraphs with fields (of %d encoded) were written as %q and read back as %d", len(nonEmpty), len(c.Ps), buf.String(), len(back))
		}
		for i, p := range nonEmpty {
			if strings.Join(back[i].Order, "\x00") != strings.Join(p.Order, "\x00") {
				return errf("paragraph %d fields %q read back as %q (text %q)", i, p.Order, back[i].Order, buf.String())
			}
			for _, k := range p.Order {
				if !sameUpToTrailingNewline(back[i].Values[k], p.Values[k]) {
					return errf("paragraph %d field %q: %q read back as %q (text %q)", i, k, p.Values[k], back[i].Values[k], buf.String())
				}
			}
		}
		return nil
	},
})

func TestC08_Encoder(t *testing.T) {
	specC08Encoder.Run(t, genEncCase, 10000, 60000)
}

// failingWriter takes room bytes and then fails (a short write with an error, as io.Writer wants it).
type failingWriter struct {
	room int
	buf  bytes.Buffer
}

var errWriterFull = fmt.Errorf("verif: no space left on device")

func (f *failingWriter) Write(p []byte) (int, error) {
	if len(p) <= f.room {
		f.room -= len(p)
		return f.buf.Write(p)
	}
	n := f.room
	f.buf.Write(p[:n])
	f.room = 0
	return n, errWriterFull
}

// ------------------------------------------------------------------ independent writers at the same time

// ConcWriteCase: several goroutines, each with paragraphs and a writer of its own.
type ConcWriteCase struct {
	Ps     []ParaVal `json:"ps"`
	Rounds int       `json:"rounds"`
}

// yieldWriter is a writer the way files and sockets are writers: the goroutine may be descheduled
// between the call and the moment the bytes are taken.
type yieldWriter struct{ buf bytes.Buffer }

func (y *yieldWriter) Write(p []byte) (int, error) {
	runtime.Gosched()
	return y.buf.Write(p)
}

var specC08Conc = Register(&Spec[ConcWriteCase]{
	Prop: "C08", Name: "conc",
	Rule: "4..8 paragraphs of the C08/write generator, one goroutine each; every goroutine writes ITS paragraph 40..120 times with WriteTo and through an Encoder, into a writer of its own that yields the processor before it takes the bytes (as a file or socket may), while the others do the same with theirs. Oracle: what each goroutine wrote reads back as its own paragraph every time (same fields, same logical lines) - nothing of a neighbour's; under the race detector no race is reported. Non-trivial: every case; distinct by case.",
	Check: func(c ConcWriteCase, r *Recorder) error {
		r.Case(jsonKey(c), true, fmt.Sprintf("goroutines:%d", len(c.Ps)))
		if c.Rounds < 1 || c.Rounds > 5000 || len(c.Ps) < 2 {
			return errf("HARNESS: bad case")
		}
		errs := make([]error, len(c.Ps))
		var wg sync.WaitGroup
		start := make(chan struct{})
		for g := range c.Ps {
			wg.Add(1)
			go func(g int) {
				defer wg.Done()
				defer func() {
					if p := recover(); p != nil {
						errs[g] = errf("panic in goroutine %d: %v", g, p)
					}
				}()
				want := c.Ps[g]
				<-start
				for k := 0; k < c.Rounds; k++ {
					p := want.para()
					var y yieldWriter
					var werr error
					if k%2 == 0 {
						werr = p.WriteTo(&y)
					} else {
						enc, err := control.NewEncoder(&y)
						if err != nil {
							errs[g] = errf("NewEncoder: %v", err)
							return
						}
						werr = enc.Encode(&p)
					}
					if werr != nil {
						errs[g] = errf("goroutine %d round %d: write failed: %v", g, k, werr)
						return
					}
					w := y.buf.String()
					back, err := readParas(w)
					if err != nil || len(back) != 1 {
						errs[g] = errf("goroutine %d round %d (%d goroutines writing their own paragraphs at the same time): wrote %q for paragraph %v, which reads back as %d paragraphs (err %v)", g, k, len(c.Ps), w, want.Order, len(back), err)
						return
					}
					if strings.Join(back[0].Order, "\x00") != strings.Join(want.Order, "\x00") {
						errs[g] = errf("goroutine %d round %d (%d goroutines writing their own paragraphs at the same time): wrote %q, fields %q, its paragraph has %q", g, k, len(c.Ps), w, back[0].Order, want.Order)
						return
					}
					for _, f := range want.Order {
						if !sameUpToTrailingNewline(back[0].Values[f], want.Values[f]) {
							errs[g] = errf("goroutine %d round %d (%d goroutines writing their own paragraphs at the same time): field %q = %q was written as %q", g, k, len(c.Ps), f, want.Values[f], w)
							return
						}
					}
				}
			}(g)
		}
		close(start)
		wg.Wait()
		for _, e := range errs {
			if e != nil {
				return e
			}
		}
		return raceLogError()
	},
})

func TestC08_ConcRace(t *testing.T) {
	specC08Conc.Run(t, func(t *rapid.T) ConcWriteCase {
		c := ConcWriteCase{Rounds: rapid.IntRange(40, 120).Draw(t, "rounds")}
		for n := rapid.IntRange(4, 8).Draw(t, "n"); n > 0; n-- {
			c.Ps = append(c.Ps, genWriteCase(t).P)
		}
		return c
	}, 40, 400)
}

// raceLogError: a data race report (binary built with -race, GORACE=log_path=...) is a violation.
func raceLogError() error {
	if lp := os.Getenv("VERIF_RACE_LOG"); lp != "" {
		matches, _ := filepath.Glob(lp + "*")
		for _, m := range matches {
			b, _ := os.ReadFile(m)
			if bytes.Contains(b, []byte("DATA RACE")) {
				os.Remove(m)
				return errf("data race reported while independent goroutines ran:\n%s", clip(b))
			}
		}
	}
	return nil
}
