package props

import (
	"fmt"
	"sync"
	"sync/atomic"
	"testing"

	"pgregory.net/rapid"
)

// Independent goroutines, independent objects.
//
// The statements are about values: what a call returns for its arguments. They hold for a caller
// who happens to have other goroutines doing the same with THEIR values - pooled buffers, shared
// scratch arrays, package-level tables filled on the fly are where that stops being true. A
// ConcBatch is a handful of cases of an existing spec; each goroutine checks its own case (its own
// inputs, handles, hashers, variables) again and again while the others check theirs. The oracle
// is the base spec's, unchanged; the tests run in the race-detector build.

type ConcBatch[T any] struct {
	Cases  []T `json:"cases"`
	Rounds int `json:"rounds"`
}

// concMode is set while a ConcBatch runs: base checks that turn documented process-wide knobs
// (deb.SetXZMaxDict) leave them alone, they are not safe for concurrent use and not claimed to be.
var concMode atomic.Bool

func concSpec[T any](base *Spec[T], what string) *Spec[ConcBatch[T]] {
	return Register(&Spec[ConcBatch[T]]{
		Prop: base.Prop, Name: "conc-" + base.Name,
		Rule: "batches of 3..8 cases of " + base.Prop + "/" + base.Name + " (" + what + "), one goroutine per case; every goroutine checks ITS case 3..40 times with the oracle of " + base.Prop + "/" + base.Name + " while the others check theirs; binary built with -race. Oracle: no check fails and the race detector reports nothing. Non-trivial: every batch; distinct by batch.",
		Check: func(c ConcBatch[T], r *Recorder) error {
			r.Case(jsonKey(c), true, fmt.Sprintf("goroutines:%d", len(c.Cases)))
			if c.Rounds < 1 || c.Rounds > 10000 || len(c.Cases) < 2 || len(c.Cases) > 64 {
				return errf("HARNESS: bad batch")
			}
			concMode.Store(true)
			defer concMode.Store(false)
			errs := make([]error, len(c.Cases))
			var wg sync.WaitGroup
			start := make(chan struct{})
			for g := range c.Cases {
				wg.Add(1)
				go func(g int) {
					defer wg.Done()
					defer func() {
						if p := recover(); p != nil {
							errs[g] = errf("panic in goroutine %d: %v", g, p)
						}
					}()
					<-start
					for k := 0; k < c.Rounds; k++ {
						if err := base.Check(c.Cases[g], nil); err != nil {
							errs[g] = errf("goroutine %d, round %d (%d goroutines checking cases of their own at the same time): %v", g, k, len(c.Cases), err)
							return
						}
					}
				}(g)
			}
			close(start)
			wg.Wait()
			for _, e := range errs {
				if e != nil {
					return e
				}
			}
			return raceLogError()
		},
	})
}

func genConcBatch[T any](gen func(*rapid.T) T, maxRounds int) func(*rapid.T) ConcBatch[T] {
	return func(t *rapid.T) ConcBatch[T] {
		c := ConcBatch[T]{Rounds: rapid.IntRange(3, maxRounds).Draw(t, "rounds")}
		for n := rapid.IntRange(3, 8).Draw(t, "goroutines"); n > 0; n-- {
			c.Cases = append(c.Cases, gen(t))
		}
		return c
	}
}

var (
	specC01Conc       = concSpec(specC01Model, "version pairs compared")
	specC02Conc       = concSpec(specC02Sort, "version slices sorted")
	specC05Conc       = concSpec(specC05Fixpoint, "relationship fields parsed, rendered and parsed again")
	specC06Conc       = concSpec(specC06Select, "possibilities selected for an architecture")
	specC09Conc       = concSpec(specC09Scalars, "structs marshalled and unmarshalled")
	specC09ConcPass   = concSpec(specC09Pass, "unknown fields passed through a struct")
	specC12Conc       = concSpec(specC12Stream, "streams hashed through writers and readers")
	specC12ConcVerify = concSpec(specC12Verify, "checksum entries verified")
	specC13Conc       = concSpec(specC13, "ar archives iterated")
	specC14Conc       = concSpec(specC14Load, ".deb packages loaded and unpacked")
	specC19Conc       = concSpec(specC19, "sources ordered for building")
)

func TestC01_ConcRace(t *testing.T) { specC01Conc.Run(t, genConcBatch(genVerPair, 40), 60, 600) }
func TestC02_ConcRace(t *testing.T) { specC02Conc.Run(t, genConcBatch(genSortCase, 20), 40, 400) }
func TestC05_ConcRace(t *testing.T) { specC05Conc.Run(t, genConcBatch(genDepText, 40), 60, 600) }
func TestC06_ConcRace(t *testing.T) { specC06Conc.Run(t, genConcBatch(genSelectCase, 40), 60, 600) }
func TestC09_ConcRace(t *testing.T) {
	specC09Conc.Run(t, genConcBatch(genScalarsCase, 20), 40, 400)
}
func TestC09_ConcPassRace(t *testing.T) {
	specC09ConcPass.Run(t, genConcBatch(genPassCase, 20), 40, 400)
}
func TestC12_ConcRace(t *testing.T) { specC12Conc.Run(t, genConcBatch(genStreamCase, 20), 40, 400) }
func TestC12_ConcVerifyRace(t *testing.T) {
	specC12ConcVerify.Run(t, genConcBatch(genVerifyCase, 20), 40, 400)
}
func TestC13_ConcRace(t *testing.T) {
	specC13Conc.Run(t, genConcBatch(func(t *rapid.T) ArCase {
		c := genArCase(t)
		c.Repeat = 0 // the long archives have a sub-check of their own
		return c
	}, 10), 30, 300)
}
func TestC14_ConcRace(t *testing.T) {
	specC14Conc.Run(t, genConcBatch(func(t *rapid.T) DebCase {
		return DebCase{M: genSmallDebModel(t), ViaFile: rapid.IntRange(0, 5).Draw(t, "viaFile") == 0}
	}, 5), 12, 100)
}
func TestC19_ConcRace(t *testing.T) { specC19Conc.Run(t, genConcBatch(genOrderCase, 10), 30, 300) }
