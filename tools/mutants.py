#!/usr/bin/env python3
"""Sensitivity protocol (DESIGN.md 1.6): apply each hand-made mutant from
mutants/*.json to a scratch copy of /repo, confirm that it still compiles and
passes the repository's own tests, then run the quick check(s) it is meant to
break and report whether they turn red.

usage: tools/mutants.py [-k substring] [-p Cnn] [--tier quick] [--no-baseline]
Scratch copies live under /tmp/vmut-* and are removed straight away.
"""
import argparse, glob, json, os, shutil, subprocess, sys, time, concurrent.futures as cf

ROOT = os.path.dirname(os.path.dirname(os.path.abspath(__file__)))
ENV = dict(os.environ, GOFLAGS="-mod=mod", GOPROXY="off", GOSUMDB="off", GOTOOLCHAIN="local")


def load():
    ms = []
    for f in sorted(glob.glob(os.path.join(ROOT, "mutants", "*.json"))):
        for m in json.load(open(f)):
            ms.append(m)
    return ms


def run_one(m, tier, baseline):
    name = m["name"]
    d = "/tmp/vmut-%s-%d" % (name, os.getpid())
    shutil.rmtree(d, ignore_errors=True)
    shutil.copytree("/repo", d, ignore=shutil.ignore_patterns(".git"))
    res = {"name": name, "props": m["props"]}
    try:
        for ed in m["edits"]:
            p = os.path.join(d, ed["file"])
            s = open(p).read()
            if s.count(ed["old"]) != 1:
                res["status"] = "EDIT-MISMATCH(%d) %s" % (s.count(ed["old"]), ed["file"])
                return res
            open(p, "w").write(s.replace(ed["old"], ed["new"]))
        if baseline:
            b = subprocess.run(["go", "test", "-vet=off", "-count=1", "./..."], cwd=d, env=ENV,
                               stdout=subprocess.PIPE, stderr=subprocess.STDOUT, text=True)
            res["baseline"] = "pass" if b.returncode == 0 else "FAIL"
            if b.returncode != 0:
                res["baseline_out"] = b.stdout[-800:]
        out = {}
        for p in m["props"]:
            env = dict(ENV, VERIF_REPO_DIR=d)
            t0 = time.time()
            c = subprocess.run([os.path.join(ROOT, "check"), p, tier], cwd=ROOT, env=env,
                               stdout=subprocess.PIPE, stderr=subprocess.STDOUT, text=True)
            first = ""
            for l in c.stdout.splitlines():
                if l.startswith("VIOLATION"):
                    first = l
                    break
            out[p] = {"rc": c.returncode, "s": round(time.time() - t0, 1), "line": first,
                      "tail": "" if c.returncode == 1 else c.stdout[-600:]}
        res["checks"] = out
        res["status"] = "caught" if all(v["rc"] == 1 for v in out.values()) else (
            "partly" if any(v["rc"] == 1 for v in out.values()) else "MISSED")
        return res
    finally:
        shutil.rmtree(d, ignore_errors=True)


def main():
    ap = argparse.ArgumentParser()
    ap.add_argument("-k", default="")
    ap.add_argument("-p", default="")
    ap.add_argument("--tier", default="quick")
    ap.add_argument("--no-baseline", action="store_true")
    ap.add_argument("-j", type=int, default=4)
    a = ap.parse_args()
    import re
    ms = [m for m in load() if re.search(a.k, m["name"]) and (not a.p or a.p in m["props"])]
    bad = 0
    with cf.ThreadPoolExecutor(max_workers=a.j) as ex:
        for r in ex.map(lambda m: run_one(m, a.tier, not a.no_baseline), ms):
            line = "%-40s %-8s baseline=%s" % (r["name"], r.get("status"), r.get("baseline", "-"))
            for p, v in (r.get("checks") or {}).items():
                line += "  %s:rc=%d(%.0fs)" % (p, v["rc"], v["s"])
            print(line, flush=True)
            if r.get("status") != "caught" or r.get("baseline") == "FAIL":
                bad += 1
                for p, v in (r.get("checks") or {}).items():
                    if v["rc"] != 1:
                        print("    " + v["tail"].replace("\n", "\n    "))
                if r.get("baseline_out"):
                    print("    baseline: " + r["baseline_out"].replace("\n", "\n    "))
    print("mutants: %d, not caught or invalid: %d" % (len(ms), bad))
    return 1 if bad else 0


if __name__ == "__main__":
    sys.exit(main())
