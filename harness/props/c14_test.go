package props

import (
	"archive/tar"
	"bytes"
	"io"
	"os"
	"os/exec"
	"path/filepath"
	"reflect"
	"runtime"
	"sort"
	"strings"
	"testing"
	"time"

	"pault.ag/go/debian/deb"
	"pgregory.net/rapid"
)

type loadedDeb struct {
	ctlExt, dataExt string
	members         map[string][]byte
	files           []TarFile
}

func tarTypeName(tf byte) string {
	switch tf {
	case tar.TypeDir:
		return "dir"
	case tar.TypeSymlink:
		return "symlink"
	case tar.TypeReg, tar.TypeRegA:
		return "reg"
	}
	return "other"
}

// loadAndCheck loads raw and compares everything the loader exposes with the model.
func loadAndCheck(raw []byte, m DebModel, members []ArMember, viaFile bool, indexFirst ...bool) (*loadedDeb, error) {
	var d *deb.Deb
	var err error
	pathname := "some/dir/pkg_1_amd64.deb"
	if viaFile {
		f, ferr := os.CreateTemp(workDir(), "c14-*.deb")
		if ferr != nil {
			return nil, errf("HARNESS: %v", ferr)
		}
		defer os.Remove(f.Name())
		f.Write(raw)
		f.Close()
		pathname = f.Name()
		var closer deb.Closer
		d, closer, err = deb.LoadFile(pathname)
		if err == nil {
			defer closer()
		}
	} else {
		br := bytes.NewReader(raw)
		switch len(raw) % 4 { // a ReaderAt does not care where the Read position of its bytes.Reader stands
		case 1:
			io.CopyN(io.Discard, br, 8)
		case 2:
			io.Copy(io.Discard, br)
		}
		var src io.ReaderAt = br
		if len(raw)%4 == 3 {
			// the package as a window of something larger (a .deb inside an image, say)
			big := append(append([]byte("FRONT-JUNK-"), raw...), raw...)
			src = io.NewSectionReader(bytes.NewReader(big), int64(len("FRONT-JUNK-")), int64(len(raw)))
		}
		switch (len(raw) / 4) % 3 {
		case 1:
			// a source that is an io.ReaderAt and nothing more: no Size, no Stat
			src = &countingReaderAt{r: bytes.NewReader(raw)}
		case 2:
			// ... and one that reports io.EOF together with the last bytes, as the contract allows
			src = &countingReaderAt{r: bytes.NewReader(raw), eager: true}
		}
		d, err = deb.Load(src, pathname)
		if err == nil {
			defer d.Close()
		}
	}
	if err != nil {
		return nil, errf("loading a well-formed package (control %q, data %q) failed: %v", tarMemberName("control", m.CtlCodec), tarMemberName("data", m.DataCodec), err)
	}
	if d.Path != pathname {
		return nil, errf("Deb.Path = %q, want %q", d.Path, pathname)
	}
	if err := compareStruct(reflect.ValueOf(d.Control), m.Exp, "Deb.Control"); err != nil {
		return nil, errf("%v (control text %q)", err, m.ControlText)
	}
	if d.Control.SourceName() != m.SourceName {
		return nil, errf("Control.SourceName() = %q, want %q", d.Control.SourceName(), m.SourceName)
	}
	wantCtlExt, wantDataExt := strings.TrimPrefix(tarMemberName("x", m.CtlCodec), "x."), strings.TrimPrefix(tarMemberName("x", m.DataCodec), "x.")
	if d.ControlExt != wantCtlExt || d.DataExt != wantDataExt {
		return nil, errf("ControlExt/DataExt = %q/%q, want %q/%q", d.ControlExt, d.DataExt, wantCtlExt, wantDataExt)
	}
	ld := &loadedDeb{ctlExt: d.ControlExt, dataExt: d.DataExt, members: map[string][]byte{}}
	if d.Data == nil {
		return nil, errf("Deb.Data is nil")
	}
	if len(indexFirst) > 0 && indexFirst[0] {
		// the index before the payload, through the members' own readers from where they stand
		// (hash the members, compare with a Packages entry, then unpack): every indexed reader
		// yields its whole member, and the payload stream is none the worse for it
		for _, mem := range members {
			e, ok := d.ArContent[mem.Name]
			if !ok || e == nil {
				return nil, errf("ArContent lacks member %q", mem.Name)
			}
			b, err := io.ReadAll(e.Data)
			if err != nil || !bytes.Equal(b, mem.Data) {
				return nil, errf("right after loading, reading ArContent[%q].Data yields %d bytes (err %v), the member has %d", mem.Name, len(b), err, len(mem.Data))
			}
		}
	}
	for {
		h, err := d.Data.Next()
		if err == io.EOF {
			break
		}
		if err != nil {
			return nil, errf("reading the data tar (%s): %v", tarMemberName("data", m.DataCodec), err)
		}
		tf := TarFile{Name: h.Name, Type: tarTypeName(h.Typeflag), Link: h.Linkname}
		if tf.Type == "reg" {
			b, err := io.ReadAll(d.Data)
			if err != nil {
				return nil, errf("reading %s from the data tar: %v", h.Name, err)
			}
			tf.Content = b
		}
		ld.files = append(ld.files, tf)
		if len(ld.files) > len(m.DataFiles)+5 {
			return nil, errf("data tar lists more entries than were packaged")
		}
	}
	if len(ld.files) != len(m.DataFiles) {
		return nil, errf("data tar lists %d entries, %d were packaged", len(ld.files), len(m.DataFiles))
	}
	for i, w := range m.DataFiles {
		g := ld.files[i]
		if g.Name != w.Name || g.Type != w.Type || g.Link != w.Link || !bytes.Equal(g.Content, w.Content) {
			return nil, errf("data tar entry %d = (%s, %s, %d bytes, link %q), packaged (%s, %s, %d bytes, link %q)", i, g.Name, g.Type, len(g.Content), g.Link, w.Name, w.Type, len(w.Content), w.Link)
		}
	}
	// member index
	if len(d.ArContent) != len(members) {
		names := []string{}
		for k := range d.ArContent {
			names = append(names, k)
		}
		sort.Strings(names)
		return nil, errf("ArContent has %d members %q, the archive has %d", len(d.ArContent), names, len(members))
	}
	for _, mem := range members {
		e, ok := d.ArContent[mem.Name]
		if !ok || e == nil {
			return nil, errf("ArContent lacks member %q", mem.Name)
		}
		// read through ReadAt: the member's own read offset may be in use by a
		// decompressor that reads ahead in the background (zstd)
		b, err := io.ReadAll(io.NewSectionReader(e.Data, 0, e.Data.Size()))
		if err != nil || !bytes.Equal(b, mem.Data) {
			return nil, errf("ArContent[%q] yields %d bytes (err %v), the member has %d", mem.Name, len(b), err, len(mem.Data))
		}
		ld.members[mem.Name] = b
		// the member's own view of itself: tarballs say they are tarballs and unpack to the same
		// listing as the model, the format marker does not
		isTar := strings.HasPrefix(mem.Name, "control.tar") || strings.HasPrefix(mem.Name, "data.tar")
		if mem.Name == "debian-binary" || isTar {
			if e.IsTarfile() != isTar {
				return nil, errf("ArContent[%q].IsTarfile() = %v", mem.Name, e.IsTarfile())
			}
		}
		if isTar {
			tr, closer, err := e.Tarfile()
			if err != nil {
				return nil, errf("ArContent[%q].Tarfile(): %v", mem.Name, err)
			}
			wantFiles := m.DataFiles
			if strings.HasPrefix(mem.Name, "control.") {
				wantFiles = m.CtlFiles
			}
			n := 0
			for {
				h, err := tr.Next()
				if err == io.EOF {
					break
				}
				if err != nil {
					closer.Close()
					return nil, errf("ArContent[%q].Tarfile(): entry %d: %v", mem.Name, n, err)
				}
				if n >= len(wantFiles) || h.Name != wantFiles[n].Name {
					closer.Close()
					return nil, errf("ArContent[%q].Tarfile(): entry %d is %q, the member was built from %v", mem.Name, n, h.Name, tarNames(wantFiles))
				}
				if tarTypeName(h.Typeflag) == "reg" {
					b, err := io.ReadAll(tr)
					if err != nil || !bytes.Equal(b, wantFiles[n].Content) {
						closer.Close()
						return nil, errf("ArContent[%q].Tarfile(): %s has %d bytes (err %v), packaged %d", mem.Name, h.Name, len(b), err, len(wantFiles[n].Content))
					}
				}
				n++
			}
			closer.Close()
			if n != len(wantFiles) {
				return nil, errf("ArContent[%q].Tarfile() lists %d entries, the member was built from %d", mem.Name, n, len(wantFiles))
			}
		}
	}
	return ld, nil
}

// openPayload is what a caller interested in the files only writes: LoadFile, keep the payload
// stream and the close function, let go of the handle.
//
//go:noinline
func openPayload(pathname string) (*tar.Reader, deb.Closer, error) {
	d, closer, err := deb.LoadFile(pathname)
	if err != nil {
		return nil, nil, err
	}
	return d.Data, closer, nil
}

// payloadOutlivesHandle: the payload stream and the close function are all that is kept of a
// LoadFile; the garbage collector runs (twice, with time for finalizers) before the stream is read.
func payloadOutlivesHandle(raw []byte, m DebModel) error {
	f, ferr := os.CreateTemp(workDir(), "c14p-*.deb")
	if ferr != nil {
		return errf("HARNESS: %v", ferr)
	}
	defer os.Remove(f.Name())
	f.Write(raw)
	f.Close()
	data, closer, err := openPayload(f.Name())
	if err != nil {
		return errf("LoadFile of a well-formed package failed: %v", err)
	}
	defer closer()
	for k := 0; k < 2; k++ {
		runtime.GC()
		time.Sleep(2 * time.Millisecond)
	}
	n := 0
	for {
		h, err := data.Next()
		if err == io.EOF {
			break
		}
		if err != nil {
			return errf("the payload stream of LoadFile, read after the *Deb itself was dropped and the garbage collector had run: %v", err)
		}
		if n >= len(m.DataFiles) {
			return errf("payload stream lists more entries than were packaged")
		}
		w := m.DataFiles[n]
		var b []byte
		if tarTypeName(h.Typeflag) == "reg" {
			if b, err = io.ReadAll(data); err != nil {
				return errf("the payload stream of LoadFile, read after the *Deb itself was dropped and the garbage collector had run: reading %s: %v", h.Name, err)
			}
		}
		if h.Name != w.Name || !bytes.Equal(b, w.Content) {
			return errf("payload entry %d read after the *Deb was dropped = (%s, %d bytes), packaged (%s, %d bytes)", n, h.Name, len(b), w.Name, len(w.Content))
		}
		n++
	}
	if n != len(m.DataFiles) {
		return errf("payload stream read after the *Deb was dropped lists %d entries, %d were packaged", n, len(m.DataFiles))
	}
	return nil
}

type DebCase struct {
	M       DebModel `json:"m"`
	ViaFile bool     `json:"viaFile"`
}

func debCaseClasses(m DebModel) (bool, []string) {
	cl := []string{"codec:" + m.CtlCodec + "/" + m.DataCodec}
	ctlIdx, ctlEntries := -1, 0
	for i, f := range m.CtlFiles {
		if f.Type == "reg" {
			ctlEntries++
		}
		if strings.TrimPrefix(f.Name, "./") == "control" {
			ctlIdx = i
		}
	}
	nt := false
	if ctlEntries >= 2 && ctlIdx > 0 {
		nt = true
		cl = append(cl, "control-not-first")
	}
	if m.CtlCodec != m.DataCodec {
		nt = true
		cl = append(cl, "mixed-codecs")
	}
	if len(m.Extra) > 0 {
		cl = append(cl, "extra-members")
	}
	if m.Slash {
		cl = append(cl, "slash-names")
	}
	return nt, cl
}

func checkDebCase(c DebCase, r *Recorder) error {
	nt, cl := debCaseClasses(c.M)
	raw, members, err := buildDeb(c.M)
	if err != nil {
		if cu, ok := err.(codecUnavailable); ok {
			r.Count("skipped_external:"+cu.codec, 1)
			return nil
		}
		return errf("HARNESS: cannot build package: %v", err)
	}
	r.Case(string(raw), nt, cl...)
	if nt {
		names := []string{}
		for _, m := range members {
			names = append(names, m.Name)
		}
		r.Sample(map[string]interface{}{"members": names, "controlTar": tarNames(c.M.CtlFiles), "dataTar": tarNames(c.M.DataFiles), "control": c.M.ControlText})
	}
	if len(raw)%5 == 0 && !concMode.Load() {
		// the documented knob for the xz decoder: 0 = default dictionary limit, or a generous explicit one
		deb.SetXZMaxDict(uint32((len(raw) % 2) * (1 << 26)))
	}
	first, err := loadAndCheck(raw, c.M, members, c.ViaFile, len(raw)%3 == 0)
	if err != nil {
		return err
	}
	if c.ViaFile {
		if err := payloadOutlivesHandle(raw, c.M); err != nil {
			return err
		}
	}
	for k := 0; k < 2; k++ {
		again, err := loadAndCheck(raw, c.M, members, false)
		if err != nil {
			return errf("repeated load %d: %v", k+2, err)
		}
		if again.ctlExt != first.ctlExt || again.dataExt != first.dataExt || len(again.files) != len(first.files) {
			return errf("repeated load %d gives a different result", k+2)
		}
	}
	return nil
}

func tarNames(fs []TarFile) []string {
	out := []string{}
	for _, f := range fs {
		out = append(out, f.Name)
	}
	return out
}

var specC14Load = Register(&Spec[DebCase]{
	Prop: "C14", Name: "load",
	Rule:  "format-2.0 .deb packages built by an independent builder from a model: control paragraph (C10 DEBIAN/control generator, incl. X- fields), both tars in the GNU dialect (3/5), plain ustar or pax (every entry behind an extended header: sub-second mtime, atime, a non-ASCII owner name - what `tar --format=posix` and Python's tarfile write); control.tar with optional './' entry, './control' or 'control' at any position among md5sums/conffiles/postinst (containing look-alike 'Package:' text)/control.bak/triggers, data.tar of directories, regular files (0..4 KiB, sizes around the 512-byte tar block) and symlinks, control and data codec each from {none, gz, xz, bz2, lzma, zst} (xz members written with a 1, 8 or 16 MiB dictionary - 64 MiB too in the thorough tier), extra '_*' members after or between, optional GNU '/' name terminators, one package in ten with a member stamped before 1970 (timestamp -3600) or all members owned by -1:-2; loaded with LoadFile or with Load from a bytes.Reader, an io.SectionReader window, or a bare io.ReaderAt that tells no size (plain, or reporting io.EOF together with the last bytes), and twice more, and (LoadFile cases) once more keeping nothing but Deb.Data and the close function while the garbage collector runs before the payload is read. Oracle: typed control fields, unknown fields, SourceName, ControlExt/DataExt, Path, ArContent keys and bytes (in a third of the cases read through the indexed readers themselves, before the payload is touched), IsTarfile() / Tarfile() of the indexed control and data members (same listing and contents as the model), and the exact (name, type, content, link) sequence of the data tar equal the model; repeated loads agree. Non-trivial: control.tar has >= 2 files with control not first, or the two codecs differ; distinct by archive bytes.",
	Check: checkDebCase,
})

func TestC14_Load(t *testing.T) {
	specC14Load.Run(t, func(t *rapid.T) DebCase {
		return DebCase{M: genDebModel(t), ViaFile: rapid.IntRange(0, 5).Draw(t, "viaFile") == 0}
	}, 300, 4000)
}

// all 36 codec pairs for a handful of models
func TestC14_CodecPairsExh(t *testing.T) {
	nModels := pickN(4, 40)
	var models []DebModel
	sink := &Spec[DebModel]{Check: func(m DebModel, r *Recorder) error { models = append(models, m); return nil }}
	rapidCollect(t, sink, genDebModel, nModels)
	specC14Pairs.Enumerate(t, true, func(_ *Recorder, yield func(DebCase) bool) {
		for _, m := range models {
			for _, cc := range codecs {
				for _, dc := range codecs {
					mm := m
					mm.CtlCodec, mm.DataCodec = cc, dc
					if !yield(DebCase{M: mm}) {
						return
					}
				}
			}
		}
	})
}

var specC14Pairs = Register(&Spec[DebCase]{
	Prop: "C14", Name: "codecpairs",
	Rule:  "for each of a few generated package models, ALL 36 (control codec, data codec) pairs over {none, gz, xz, bz2, lzma, zst} are built and loaded; oracle and non-trivial rule as C14/load (exhaustive over the codec pairs, per model).",
	Check: checkDebCase,
})

// ------------------------------------------------------------------ several packages open at once

type OverlapCase struct {
	A         DebModel `json:"a"`
	B         DebModel `json:"b"`
	SameBytes bool     `json:"sameBytes"` // B is A again (same bytes loaded twice)
	ReadOrder []int    `json:"readOrder"` // order in which the open handles are drained (indices 0..2)
}

func drainData(d *deb.Deb, m DebModel) error {
	var got []TarFile
	for {
		h, err := d.Data.Next()
		if err == io.EOF {
			break
		}
		if err != nil {
			return errf("reading the data tar (%s): %v", tarMemberName("data", m.DataCodec), err)
		}
		tf := TarFile{Name: h.Name, Type: tarTypeName(h.Typeflag), Link: h.Linkname}
		if tf.Type == "reg" {
			b, err := io.ReadAll(d.Data)
			if err != nil {
				return errf("reading %s from the data tar: %v", h.Name, err)
			}
			tf.Content = b
		}
		got = append(got, tf)
		if len(got) > len(m.DataFiles)+5 {
			break
		}
	}
	if len(got) != len(m.DataFiles) {
		return errf("data tar (%s) lists %d entries %q, %d were packaged %q", tarMemberName("data", m.DataCodec), len(got), tarNames(got), len(m.DataFiles), tarNames(m.DataFiles))
	}
	for i, w := range m.DataFiles {
		g := got[i]
		if g.Name != w.Name || g.Type != w.Type || g.Link != w.Link || !bytes.Equal(g.Content, w.Content) {
			return errf("data tar entry %d = (%s, %s, %d bytes), packaged (%s, %s, %d bytes)", i, g.Name, g.Type, len(g.Content), w.Name, w.Type, len(w.Content))
		}
	}
	return nil
}

var specC14Overlap = Register(&Spec[OverlapCase]{
	Prop: "C14", Name: "overlap",
	Rule: "two generated packages A and B (codecs drawn independently, often equal), or the same bytes twice, are loaded one after the other, a third handle on A is opened as well, and only then are the three data streams drained, in a generated order. Oracle: every handle exposes its own package's control fields and lists exactly its own packaged files and contents - handles are independent of what else is open. Non-trivial: both packages use a compressed data member; distinct by the two archives and the order.",
	Check: func(c OverlapCase, r *Recorder) error {
		mb := c.B
		if c.SameBytes {
			mb = c.A
		}
		rawA, _, err := buildDeb(c.A)
		if err == nil {
			_, _, err = buildDeb(mb)
		}
		if err != nil {
			if cu, ok := err.(codecUnavailable); ok {
				r.Count("skipped_external:"+cu.codec, 1)
				return nil
			}
			return errf("HARNESS: %v", err)
		}
		rawB, _, _ := buildDeb(mb)
		nt := c.A.DataCodec != "" && mb.DataCodec != ""
		r.Case(string(rawA)+"|"+string(rawB)+jsonKey(c.ReadOrder), nt, "codecs:"+c.A.DataCodec+"+"+mb.DataCodec)
		if nt {
			r.Sample(map[string]interface{}{"a": tarMemberName("data", c.A.DataCodec), "b": tarMemberName("data", mb.DataCodec), "sameBytes": c.SameBytes, "readOrder": c.ReadOrder})
		}
		models := []DebModel{c.A, mb, c.A}
		raws := [][]byte{rawA, rawB, rawA}
		handles := make([]*deb.Deb, 3)
		for i := range handles {
			d, err := deb.Load(bytes.NewReader(raws[i]), "p.deb")
			if err != nil {
				return errf("load %d (%s) failed while other packages are open: %v", i, tarMemberName("data", models[i].DataCodec), err)
			}
			defer d.Close()
			handles[i] = d
		}
		for i, d := range handles {
			if err := compareStruct(reflect.ValueOf(d.Control), models[i].Exp, "Deb.Control"); err != nil {
				return errf("handle %d: %v", i, err)
			}
		}
		order := c.ReadOrder
		if len(order) != 3 {
			order = []int{0, 1, 2}
		}
		for _, i := range order {
			if i < 0 || i > 2 {
				return nil
			}
			if err := drainData(handles[i], models[i]); err != nil {
				return errf("handle %d of 3 open packages (drain order %v): %v", i, order, err)
			}
		}
		return nil
	},
})

func TestC14_Overlap(t *testing.T) {
	specC14Overlap.Run(t, func(t *rapid.T) OverlapCase {
		c := OverlapCase{A: genDebModel(t), SameBytes: rapid.IntRange(0, 3).Draw(t, "same") == 0}
		c.B = genDebModel(t)
		if rapid.Bool().Draw(t, "sameCodec") {
			c.B.DataCodec, c.B.CtlCodec = c.A.DataCodec, c.A.CtlCodec
		}
		c.ReadOrder = rapid.Permutation([]int{0, 1, 2}).Draw(t, "order")
		return c
	}, 150, 2000)
}

// ------------------------------------------------------------------ rejections

type RejectCase struct {
	M     DebModel `json:"m"`
	Class string   `json:"class"`
}

var specC14Reject = Register(&Spec[RejectCase]{
	Prop: "C14", Name: "reject",
	Rule: "well-formed packages (stored or gzip members) changed in exactly one way: debian-binary content '1.0\\n', '3.0\\n', '0.939000\\n', '4.2\\n', '10.0\\n', '22.0\\n', '.0\\n' or a random major other than 2 (0..300) with a random minor, or the debian-binary, control.* or data.* member left out. Oracle: Load returns an error and no *Deb. Every case is non-trivial; distinct by archive bytes.",
	Check: func(c RejectCase, r *Recorder) error {
		raw, _, err := buildDeb(c.M)
		if err != nil {
			return errf("HARNESS: %v", err)
		}
		r.Case(string(raw), true, "reject:"+c.Class)
		r.Sample(map[string]string{"class": c.Class, "debian-binary": c.M.DebianBinary, "omit": c.M.Omit})
		d, err := deb.Load(bytes.NewReader(raw), "x.deb")
		if err == nil {
			if d != nil {
				d.Close()
			}
			return errf("Load accepted a package of class %s (debian-binary %q, omitted %q)", c.Class, c.M.DebianBinary, c.M.Omit)
		}
		if d != nil {
			return errf("Load returned an error AND a *Deb for class %s", c.Class)
		}
		return nil
	},
})

func TestC14_Reject(t *testing.T) {
	specC14Reject.Run(t, func(t *rapid.T) RejectCase {
		m := genDebModel(t)
		m.CtlCodec = rapid.SampledFrom([]string{"", "gz"}).Draw(t, "cc")
		m.DataCodec = rapid.SampledFrom([]string{"", "gz"}).Draw(t, "dc")
		class := rapid.SampledFrom([]string{"version", "version", "no-debian-binary", "no-control", "no-data"}).Draw(t, "class")
		switch class {
		case "version":
			if rapid.Bool().Draw(t, "listed") {
				m.DebianBinary = rapid.SampledFrom([]string{"1.0\n", "3.0\n", "0.939000\n", "4.2\n", "10.0\n", "20.0\n", "0.2\n", "22.0\n", "222.1\n", "12.0\n", "21.0\n", ".0\n", "..5\n", "-2.0\n"}).Draw(t, "ver")
			} else {
				major := rapid.IntRange(0, 300).Draw(t, "major")
				if major == 2 {
					major = 22
				}
				m.DebianBinary = itoa(major) + "." + itoa(rapid.IntRange(0, 30).Draw(t, "minor")) + "\n"
			}
		case "no-debian-binary":
			m.Omit = "debian-binary"
		case "no-control":
			m.Omit = "control"
		default:
			m.Omit = "data"
		}
		return RejectCase{M: m, Class: class}
	}, 400, 4000)
}

// ------------------------------------------------------------------ the same bytes, the same result
//
// Members that are named like the control or data member without being one (control.sig,
// data.sha256, ...) are no part of a well-formed package and the statement does not say whether such
// a file loads - but it says that the same bytes always give the same result.

type SameBytesCase struct {
	M     DebModel `json:"m"`
	Loads int      `json:"loads"`
}

var specC14SameBytes = Register(&Spec[SameBytesCase]{
	Prop: "C14", Name: "samebytes",
	Rule: "well-formed packages (stored, gzip or xz members) with one or two further members named like the control or data member without being a tar archive of any kind (control.sig, control.txt, control, data.sha256, data.sig, data.json, data, control.tar.sig, data.tar.asc) between the two or behind them, loaded 8..16 times from the same bytes. Oracle: every load gives the same outcome - the same error text, or the same extensions, package, version, architecture, member index and relationship fields. Every case is non-trivial; distinct by archive bytes.",
	Check: func(c SameBytesCase, r *Recorder) error {
		raw, _, err := buildDeb(c.M)
		if err != nil {
			return errf("HARNESS: %v", err)
		}
		first, err := debOutcome(raw, false)
		if err != nil {
			return err
		}
		cl := "refused"
		if strings.HasPrefix(first, "ok ") {
			cl = "loaded"
		}
		r.Case(string(raw), true, "look-alike-member:"+cl)
		names := []string{}
		for _, e := range c.M.Extra {
			names = append(names, e.Name)
		}
		r.Sample(map[string]interface{}{"extra": names, "pos": c.M.ExtraPos, "first": first})
		for i := 1; i < c.Loads; i++ {
			again, err := debOutcome(raw, false)
			if err != nil {
				return err
			}
			if again != first {
				return errf("the same %d bytes (further members %q) loaded %d times: load 1 gives %q, load %d gives %q", len(raw), names, c.Loads, first, i+1, again)
			}
		}
		return nil
	},
})

func TestC14_SameBytes(t *testing.T) {
	specC14SameBytes.Run(t, func(t *rapid.T) SameBytesCase {
		m := genDebModel(t)
		m.CtlCodec = rapid.SampledFrom([]string{"", "gz", "xz"}).Draw(t, "cc")
		m.DataCodec = rapid.SampledFrom([]string{"", "gz", "xz"}).Draw(t, "dc")
		m.Extra = nil
		for i := rapid.IntRange(1, 2).Draw(t, "nlook"); i > 0; i-- {
			name := rapid.SampledFrom([]string{"control.sig", "control.txt", "control", "data.sha256", "data.sig", "data.json", "data", "control.tar.sig", "data.tar.asc"}).Draw(t, "look")
			if len(m.Extra) == 1 && m.Extra[0].Name == name {
				continue
			}
			m.Extra = append(m.Extra, ArMember{Name: name, SlashTerm: m.Slash, MTime: 1700000000, Mode: "100644", Data: rapid.SampledFrom([][]byte{[]byte("-----BEGIN PGP SIGNATURE-----\n"), {}, []byte("0123456789abcdef  data.tar\n"), bytes.Repeat([]byte{0}, 1024)}).Draw(t, "lookData")})
		}
		m.ExtraPos = rapid.IntRange(0, 1).Draw(t, "extrapos")
		return SameBytesCase{M: m, Loads: rapid.IntRange(8, 16).Draw(t, "loads")}
	}, 300, 3000)
}

// ------------------------------------------------------------------ real dpkg-deb

type DpkgDebCase struct {
	Raw     []byte            `json:"raw"` // the package dpkg-deb built
	Exp     Exp               `json:"exp"`
	Files   map[string][]byte `json:"files"` // path (./usr/...) -> content
	Z       string            `json:"z"`
	Uniform bool              `json:"uniform"`
}

var specC14Dpkg = Register(&Spec[DpkgDebCase]{
	Prop: "C14", Name: "dpkgdeb",
	Rule: "directories materialised on disk from generated models and built by the REAL dpkg-deb (-Zgzip|xz|zstd|none, with and without --uniform-compression); the resulting bytes are stored in the case. Oracle: Load succeeds, typed control fields equal the model, extensions match the compressor, and the data tar contains every packaged regular file with identical content. Non-trivial: every case; distinct by package bytes.",
	Check: func(c DpkgDebCase, r *Recorder) error {
		r.Case(string(c.Raw), true, "Z:"+c.Z)
		r.Sample(map[string]interface{}{"Z": c.Z, "uniform": c.Uniform, "bytes": len(c.Raw)})
		d, err := deb.Load(bytes.NewReader(c.Raw), "real.deb")
		if err != nil {
			return errf("Load of a package built by dpkg-deb -Z%s failed: %v", c.Z, err)
		}
		defer d.Close()
		if err := compareStruct(reflect.ValueOf(d.Control), c.Exp, "Deb.Control"); err != nil {
			return err
		}
		wantExt := map[string]string{"gzip": "tar.gz", "xz": "tar.xz", "zstd": "tar.zst", "none": "tar"}[c.Z]
		if d.DataExt != wantExt {
			return errf("DataExt = %q for dpkg-deb -Z%s, want %q", d.DataExt, c.Z, wantExt)
		}
		if c.Uniform && d.ControlExt != wantExt {
			return errf("ControlExt = %q for dpkg-deb -Z%s --uniform-compression, want %q", d.ControlExt, c.Z, wantExt)
		}
		if _, ok := d.ArContent["debian-binary"]; !ok || len(d.ArContent) != 3 {
			return errf("ArContent has %d members", len(d.ArContent))
		}
		seen := map[string]bool{}
		for {
			h, err := d.Data.Next()
			if err == io.EOF {
				break
			}
			if err != nil {
				return errf("data tar: %v", err)
			}
			if h.Typeflag == tar.TypeReg {
				b, _ := io.ReadAll(d.Data)
				want, ok := c.Files[h.Name]
				if !ok {
					return errf("data tar lists %q which was not packaged", h.Name)
				}
				if !bytes.Equal(b, want) {
					return errf("data tar file %q has different content", h.Name)
				}
				seen[h.Name] = true
			}
		}
		for k := range c.Files {
			if !seen[k] {
				return errf("packaged file %q missing from the data tar", k)
			}
		}
		return nil
	},
})

func TestC14_DpkgDebExt(t *testing.T) {
	if !haveTool("dpkg-deb") {
		t.Skip("dpkg-deb not available")
	}
	n := pickN(4, 60)
	var models []DebModel
	sink := &Spec[DebModel]{Check: func(m DebModel, r *Recorder) error { models = append(models, m); return nil }}
	rapidCollect(t, sink, genDpkgFriendlyModel, n)
	zs := []string{"gzip", "xz", "zstd", "none"}
	specC14Dpkg.Enumerate(t, false, func(r *Recorder, yield func(DpkgDebCase) bool) {
		for i, m := range models {
			dir, err := os.MkdirTemp(workDir(), "c14dpkg")
			if err != nil {
				return
			}
			files := map[string][]byte{}
			os.MkdirAll(filepath.Join(dir, "DEBIAN"), 0o755)
			os.WriteFile(filepath.Join(dir, "DEBIAN", "control"), []byte(m.ControlText), 0o644)
			for _, f := range m.DataFiles {
				p := filepath.Join(dir, f.Name)
				switch f.Type {
				case "dir":
					os.MkdirAll(p, 0o755)
				case "reg":
					os.MkdirAll(filepath.Dir(p), 0o755)
					os.WriteFile(p, f.Content, 0o644)
					files[f.Name] = f.Content
				}
			}
			z := zs[i%len(zs)]
			uniform := (i/len(zs))%2 == 0
			out := filepath.Join(dir, "..", filepath.Base(dir)+".deb")
			args := []string{"--root-owner-group", "-Z" + z}
			if uniform {
				args = append(args, "--uniform-compression")
			} else {
				args = append(args, "--no-uniform-compression")
			}
			args = append(args, "-b", dir, out)
			cmd := exec.Command("dpkg-deb", args...)
			var stderr bytes.Buffer
			cmd.Stderr = &stderr
			err = cmd.Run()
			raw, rerr := os.ReadFile(out)
			os.RemoveAll(dir)
			os.Remove(out)
			if err != nil || rerr != nil {
				// dpkg-deb refuses the model (e.g. a package name it dislikes): generator-soundness
				// information, not a verdict about the library
				r.Count("guard_rejected", 1)
				continue
			}
			if !yield(DpkgDebCase{Raw: raw, Exp: m.Exp, Files: files, Z: z, Uniform: uniform}) {
				return
			}
		}
	})
}

// genDpkgFriendlyModel restricts the control paragraph to what dpkg-deb -b
// itself accepts in DEBIAN/control (no substvars, profiles or arch lists).
func genDpkgFriendlyModel(t *rapid.T) DebModel {
	b, e := newDocBuilder(), newExp()
	pn := rapid.SampledFrom(pkgNames).Draw(t, "pkg")
	b.scalar("Package", pn)
	e.Scalars["Package"] = pn
	w := genWellFormedCore(t, "ver")
	if w.HasEpoch && w.Epoch > 100 {
		w.Epoch, w.EpochTxt = 7, "7"
	}
	b.scalar("Version", w.canonical())
	e.Versions["Version"] = wfParts(w)
	arch := rapid.SampledFrom([]string{"amd64", "all", "i386", "arm64"}).Draw(t, "arch")
	b.scalar("Architecture", arch)
	e.Archs["Architecture"] = []string{arch}
	b.scalar("Maintainer", "A B <a@b.c>")
	e.Scalars["Maintainer"] = "A B <a@b.c>"
	is := rapid.IntRange(0, 1<<20).Draw(t, "isize")
	b.scalar("Installed-Size", itoa(is))
	e.Ints["InstalledSize"] = is
	for _, f := range [][2]string{{"Depends", "Depends"}, {"Recommends", "Recommends"}, {"Breaks", "Breaks"}} {
		if rapid.Bool().Draw(t, "has"+f[0]) {
			ast := DepAST{}
			for i := rapid.IntRange(1, 3).Draw(t, "nrel"); i > 0; i-- {
				rel := RelAST{}
				nalt := rapid.IntRange(1, 2).Draw(t, "nalt")
				if f[0] == "Breaks" {
					nalt = 1
				}
				for j := 0; j < nalt; j++ {
					a := AltAST{Name: rapid.SampledFrom(pkgNames).Draw(t, "dn")}
					if rapid.Bool().Draw(t, "dv") {
						a.HasVer, a.Op, a.Ver, a.Order = true, rapid.SampledFrom(operators).Draw(t, "dop"), "1."+itoa(rapid.IntRange(0, 99).Draw(t, "dvn")), []string{"v"}
					}
					rel.Alts = append(rel.Alts, a)
				}
				ast.Rels = append(ast.Rels, rel)
			}
			b.line(f[0] + ": " + renderDep(ast, fixedSchemes["S1-minimal"]))
			e.Deps[f[1]] = ast
		}
	}
	b.scalar("Section", "utils")
	e.Scalars["Section"] = "utils"
	b.scalar("Priority", "optional")
	e.Scalars["Priority"] = "optional"
	e.Scalars["Description"] = genDescription(t, b)
	m := DebModel{ControlText: b.sb.String(), Exp: e, SourceName: pn, DebianBinary: "2.0\n"}
	m.DataFiles = genDataFiles(t)
	return m
}
