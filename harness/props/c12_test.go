package props

import (
	"bytes"
	"crypto/md5"
	"crypto/sha1"
	"crypto/sha256"
	"crypto/sha512"
	"encoding/hex"
	"fmt"
	"io"
	"strconv"
	"strings"
	"testing"

	"pault.ag/go/debian/control"
	"pault.ag/go/debian/hashio"
	"pgregory.net/rapid"
)

func trueDigest(algo string, data []byte) string {
	switch algo {
	case "md5":
		s := md5.Sum(data)
		return hex.EncodeToString(s[:])
	case "sha1":
		s := sha1.Sum(data)
		return hex.EncodeToString(s[:])
	case "sha256":
		s := sha256.Sum256(data)
		return hex.EncodeToString(s[:])
	case "sha512":
		s := sha512.Sum512(data)
		return hex.EncodeToString(s[:])
	}
	return ""
}

var hashAlgos = []string{"md5", "sha1", "sha256", "sha512"}

func genData(t *rapid.T, label string) []byte {
	var n int
	switch rapid.IntRange(0, 5).Draw(t, label+"k") {
	case 0:
		n = rapid.SampledFrom([]int{0, 1, 55, 56, 63, 64, 65, 111, 112, 127, 128, 129, 119, 120}).Draw(t, label+"edge")
	case 1, 2, 3:
		n = rapid.IntRange(0, 300).Draw(t, label+"small")
	case 4:
		n = rapid.IntRange(300, 8192).Draw(t, label+"mid")
	default:
		n = rapid.IntRange(8192, 65536).Draw(t, label+"big")
	}
	seedB := rapid.IntRange(0, 255).Draw(t, label+"seed")
	mode := rapid.IntRange(0, 2).Draw(t, label+"mode")
	b := make([]byte, n)
	x := uint32(seedB)*2654435761 + 1
	for i := range b {
		switch mode {
		case 0:
			x = x*1664525 + 1013904223
			b[i] = byte(x >> 24)
		case 1:
			b[i] = byte(seedB)
		default:
			b[i] = byte(i + seedB)
		}
	}
	if n <= 32 && n > 0 {
		// let rapid own (and shrink) small contents entirely
		return rapid.SliceOfN(rapid.Byte(), n, n).Draw(t, label+"bytes")
	}
	return b
}

func genCuts(t *rapid.T, label string, n int) []int {
	k := rapid.IntRange(0, 6).Draw(t, label+"k")
	cuts := []int{}
	for i := 0; i < k; i++ {
		cuts = append(cuts, rapid.IntRange(0, n).Draw(t, label+"c"))
	}
	// sort
	for i := 1; i < len(cuts); i++ {
		for j := i; j > 0 && cuts[j] < cuts[j-1]; j-- {
			cuts[j], cuts[j-1] = cuts[j-1], cuts[j]
		}
	}
	return cuts
}

func chunksOf(data []byte, cuts []int) [][]byte {
	out := [][]byte{}
	prev := 0
	for _, c := range cuts {
		if c < prev || c > len(data) {
			continue
		}
		out = append(out, data[prev:c])
		prev = c
	}
	out = append(out, data[prev:])
	return out
}

type StreamCase struct {
	Data   []byte   `json:"data"`
	Cuts   []int    `json:"cuts"`
	Algos  []string `json:"algos"`
	Reader bool     `json:"reader"`
	Multi  bool     `json:"multi"` // NewHasherWriters/Readers vs the single variants
	// EndMode shapes how the source reader ends: 0 = data, then (0, EOF);
	// 1 = the last chunk comes together with io.EOF; 2 = after chunk ErrAt the
	// source fails with (n>0, error): what was delivered until then is the stream.
	EndMode int `json:"endMode,omitempty"`
	ErrAt   int `json:"errAt,omitempty"`
}

func genStreamCase(t *rapid.T) StreamCase {
	d := genData(t, "d")
	c := StreamCase{Data: d, Cuts: genCuts(t, "cut", len(d)), Reader: rapid.Bool().Draw(t, "reader"), Multi: rapid.Bool().Draw(t, "multi")}
	c.ErrAt = rapid.IntRange(0, 6).Draw(t, "errAt")
	if c.Reader {
		c.EndMode = rapid.SampledFrom([]int{0, 0, 1, 1, 2}).Draw(t, "endMode")
	}
	n := 1
	if c.Multi {
		n = rapid.IntRange(0, 5).Draw(t, "nalgos")
	}
	for i := 0; i < n; i++ {
		c.Algos = append(c.Algos, rapid.SampledFrom(hashAlgos).Draw(t, "algo"))
	}
	return c
}

// chunkReader delivers data in the given chunk sizes.
type chunkReader struct {
	chunks  [][]byte
	endMode int
	errAt   int // endMode 2: fail together with the data of this chunk index
	idx     int
	failed  bool
}

var errSourceBroke = fmt.Errorf("source reader broke")

func (c *chunkReader) Read(p []byte) (int, error) {
	if c.failed {
		return 0, errSourceBroke
	}
	for len(c.chunks) > 0 && len(c.chunks[0]) == 0 {
		c.chunks = c.chunks[1:]
		c.idx++
	}
	if len(c.chunks) == 0 {
		return 0, io.EOF
	}
	n := copy(p, c.chunks[0])
	c.chunks[0] = c.chunks[0][n:]
	done := len(c.chunks[0]) == 0
	last := done
	for _, rest := range c.chunks[1:] {
		if len(rest) > 0 {
			last = false
		}
	}
	if c.endMode == 2 && done && c.idx == c.errAt {
		c.failed = true
		return n, errSourceBroke
	}
	if c.endMode == 1 && last {
		c.chunks = nil
		return n, io.EOF
	}
	return n, nil
}

var specC12Stream = Register(&Spec[StreamCase]{
	Prop: "C12", Name: "stream",
	Rule: "byte strings of 0..64 KiB (block-boundary lengths 55,56,63,64,65,111,112,119,120,127,128,129 in a dedicated class; small contents fully rapid-owned) x up to 6 cut points (empty chunks allowed) x an ordered list of 0..5 algorithm names with repetition x {writer, reader} x {single, plural constructor}; source readers end with (0, EOF), deliver their last chunk together with io.EOF, or fail with (n>0, error) after a generated chunk (the stream is then what was delivered). Oracle: the bytes arriving at the target / delivered by the reader equal the input; per hasher Name() is the requested name in order, Size() the byte count so far after every chunk and the total at the end, Sum(nil) the crypto/md5, sha1, sha256, sha512 digest of the whole input, also when every hasher's digest is collected first and looked at only after the others (and two unrelated hashers) were asked; FileHashFromHasher taken in the middle of a written stream describes the prefix and does not disturb the rest, and taken twice at the end (before Sum) gives the true digest both times. Non-trivial: >= 1 byte in >= 2 chunks (and >= 2 algorithms for the plural constructors); distinct by case.",
	Check: func(c StreamCase, r *Recorder) error {
		chunks := chunksOf(c.Data, c.Cuts)
		nonEmpty := 0
		for _, ch := range chunks {
			if len(ch) > 0 {
				nonEmpty++
			}
		}
		nt := len(c.Data) >= 1 && nonEmpty >= 2 && (!c.Multi || len(c.Algos) >= 2)
		cl := []string{}
		if c.Reader {
			cl = append(cl, "reader")
		} else {
			cl = append(cl, "writer")
		}
		if c.Multi {
			cl = append(cl, "plural")
		}
		if c.Reader {
			cl = append(cl, errf("endmode:%d", c.EndMode).Error())
		}
		r.Case(jsonKey(c), nt, cl...)
		if nt {
			r.Sample(map[string]interface{}{"len": len(c.Data), "cuts": c.Cuts, "algos": c.Algos, "reader": c.Reader, "multi": c.Multi})
		}
		if !c.Multi && len(c.Algos) != 1 {
			return nil
		}
		var hashers []*hashio.Hasher
		var got bytes.Buffer
		checkSizes := func(sofar int) error {
			for i, h := range hashers {
				if h.Size() != int64(sofar) {
					return errf("hasher %d (%s): Size() = %d after %d bytes", i, c.Algos[i], h.Size(), sofar)
				}
			}
			return nil
		}
		if !c.Reader {
			var w io.Writer
			var err error
			if c.Multi {
				w, hashers, err = hashio.NewHasherWriters(c.Algos, &got)
			} else {
				var h *hashio.Hasher
				w, h, err = hashio.NewHasherWriter(c.Algos[0], &got)
				hashers = []*hashio.Hasher{h}
			}
			if err != nil {
				return errf("constructor failed for %v: %v", c.Algos, err)
			}
			sofar := 0
			for ci, ch := range chunks {
				var n int
				var err error
				switch (ci + c.ErrAt) % 3 { // the three ways bytes reach an io.Writer
				case 0:
					n, err = w.Write(ch)
				case 1:
					n, err = io.WriteString(w, string(ch))
				default:
					var n64 int64
					n64, err = io.Copy(w, strings.NewReader(string(ch)))
					n = int(n64)
				}
				if err != nil || n != len(ch) {
					return errf("writing %d bytes (Write / io.WriteString / io.Copy from a strings.Reader) returned %d, %v", len(ch), n, err)
				}
				sofar += len(ch)
				if err := checkSizes(sofar); err != nil {
					return err
				}
				if ci == c.ErrAt%len(chunks) {
					// an entry taken from a hasher in the middle of the stream describes the bytes so far,
					// and taking it must not disturb what follows
					for i, h := range hashers {
						fh := control.FileHashFromHasher("mid", *h)
						if fh.Hash != trueDigest(c.Algos[i], c.Data[:sofar]) || fh.Size != int64(sofar) {
							return errf("FileHashFromHasher(%s) after %d of %d bytes = (%s, %d), true digest of the prefix is %s", c.Algos[i], sofar, len(c.Data), fh.Hash, fh.Size, trueDigest(c.Algos[i], c.Data[:sofar]))
						}
					}
				}
			}
		} else {
			src := &chunkReader{chunks: append([][]byte{}, chunks...), endMode: c.EndMode, errAt: c.ErrAt}
			var rd io.Reader
			var err error
			if c.Multi {
				rd, hashers, err = hashio.NewHasherReaders(c.Algos, src)
			} else {
				var h *hashio.Hasher
				rd, h, err = hashio.NewHasherReader(c.Algos[0], src)
				hashers = []*hashio.Hasher{h}
			}
			if err != nil {
				return errf("constructor failed for %v: %v", c.Algos, err)
			}
			buf := make([]byte, 1+len(c.Data)/3)
			sofar := 0
			for {
				n, err := rd.Read(buf)
				got.Write(buf[:n])
				sofar += n
				if e := checkSizes(sofar); e != nil {
					return e
				}
				if err == io.EOF {
					break
				}
				if err == errSourceBroke {
					// the stream is what was delivered before the source failed
					c.Data = c.Data[:sofar]
					break
				}
				if err != nil {
					return errf("Read: %v", err)
				}
			}
		}
		if !bytes.Equal(got.Bytes(), c.Data) {
			return errf("bytes passed through differ from the input (%d vs %d bytes)", got.Len(), len(c.Data))
		}
		if len(hashers) != len(c.Algos) {
			return errf("%d hashers for %d requested algorithms", len(hashers), len(c.Algos))
		}
		for i, h := range hashers {
			// entries first, twice, and only then Sum: none of these may change the hasher's answer
			for rep := 0; rep < 2; rep++ {
				fh0 := control.FileHashFromHasher("p", *h)
				if fh0.Hash != trueDigest(c.Algos[i], c.Data) {
					return errf("FileHashFromHasher(%s) call %d on the finished stream gives %s, true digest %s (%d bytes)", c.Algos[i], rep+1, fh0.Hash, trueDigest(c.Algos[i], c.Data), len(c.Data))
				}
			}
			if h.Name() != c.Algos[i] {
				return errf("hasher %d: Name() = %q, requested %q", i, h.Name(), c.Algos[i])
			}
			if h.Size() != int64(len(c.Data)) {
				return errf("hasher %d (%s): Size() = %d, stream has %d bytes", i, c.Algos[i], h.Size(), len(c.Data))
			}
			sum := h.Sum(nil)
			if got, want := hex.EncodeToString(sum), trueDigest(c.Algos[i], c.Data); got != want {
				return errf("hasher %d (%s): digest %s, true digest %s (%d bytes)", i, c.Algos[i], got, want, len(c.Data))
			}
			// Sum appends to what it is given and hands the digest out for keeps: asking again (into a
			// prefix of the caller's) neither changes the first answer nor the prefix
			again := h.Sum([]byte("prefix-"))
			if hex.EncodeToString(sum) != trueDigest(c.Algos[i], c.Data) || !bytes.HasPrefix(again, []byte("prefix-")) || hex.EncodeToString(again[7:]) != trueDigest(c.Algos[i], c.Data) {
				return errf("hasher %d (%s): a second Sum(prefix) gives %x and leaves the first answer as %x, true digest %s", i, c.Algos[i], again, sum, trueDigest(c.Algos[i], c.Data))
			}
			fh := control.FileHashFromHasher("some/path", *h)
			if fh.Algorithm != c.Algos[i] || fh.Hash != trueDigest(c.Algos[i], c.Data) || fh.Size != int64(len(c.Data)) || fh.Filename != "some/path" {
				return errf("FileHashFromHasher(%s) = %+v, want true digest %s size %d", c.Algos[i], fh, trueDigest(c.Algos[i], c.Data), len(c.Data))
			}
		}
		// digests are the caller's to keep: all of them collected first (one per hasher, then one of
		// an unrelated hasher over other bytes), compared afterwards
		held := make([][]byte, len(hashers))
		for i, h := range hashers {
			held[i] = h.Sum(nil)
		}
		for _, other := range []string{"sha512", "md5"} {
			if x, err := hashio.NewHasher(other); err == nil {
				x.Write([]byte("some other stream"))
				_ = x.Sum(nil)
			}
		}
		// the bare hash.Hash behind a name is the standard library's
		for _, algo := range c.Algos {
			h, err := hashio.GetHash(algo)
			if err != nil {
				return errf("GetHash(%q): %v", algo, err)
			}
			h.Write(c.Data)
			if got, want := hex.EncodeToString(h.Sum(nil)), trueDigest(algo, c.Data); got != want {
				return errf("GetHash(%q) over %d bytes gives %s, true digest %s", algo, len(c.Data), got, want)
			}
		}
		for i := range hashers {
			if got, want := hex.EncodeToString(held[i]), trueDigest(c.Algos[i], c.Data); got != want {
				return errf("hasher %d (%s): the digest handed out by Sum(nil) reads %s after %d more Sum(nil) calls on other hashers, true digest %s", i, c.Algos[i], got, len(hashers)-i+1, want)
			}
		}
		return nil
	},
})

func TestC12_Stream(t *testing.T) {
	specC12Stream.Run(t, genStreamCase, 12000, 60000)
}

type AlgoName struct {
	Name string `json:"name"`
}

var specC12Unknown = Register(&Spec[AlgoName]{
	Prop: "C12", Name: "unknownalgo",
	Rule: "algorithm names that are not one of md5, sha1, sha256, sha512 (case variants, sha224, sha384, sha3, empty, blanks): every constructor must return an error and no writer/reader/hasher. Each case is non-trivial; distinct by name.",
	Check: func(c AlgoName, r *Recorder) error {
		r.Case(c.Name, true)
		r.Sample(c.Name)
		if w, h, err := hashio.NewHasherWriter(c.Name, io.Discard); err == nil || w != nil || h != nil {
			return errf("NewHasherWriter(%q) = %v, %v, %v; want an error and nothing else", c.Name, w, h, err)
		}
		if w, hs, err := hashio.NewHasherWriters([]string{"sha256", c.Name}, io.Discard); err == nil || w != nil || hs != nil {
			return errf("NewHasherWriters([sha256 %q]) did not fail cleanly: %v %v %v", c.Name, w, hs, err)
		}
		if rd, h, err := hashio.NewHasherReader(c.Name, strings.NewReader("x")); err == nil || rd != nil || h != nil {
			return errf("NewHasherReader(%q) did not fail cleanly", c.Name)
		}
		if rd, hs, err := hashio.NewHasherReaders([]string{c.Name, "md5"}, strings.NewReader("x")); err == nil || rd != nil || hs != nil {
			return errf("NewHasherReaders([%q md5]) did not fail cleanly", c.Name)
		}
		if h, err := hashio.NewHasher(c.Name); err == nil || h != nil {
			return errf("NewHasher(%q) did not fail cleanly", c.Name)
		}
		if h, err := hashio.GetHash(c.Name); err == nil || h != nil {
			return errf("GetHash(%q) did not fail cleanly", c.Name)
		}
		return nil
	},
})

func TestC12_UnknownAlgoExh(t *testing.T) {
	specC12Unknown.Enumerate(t, true, func(_ *Recorder, yield func(AlgoName) bool) {
		for _, n := range []string{"", " ", "MD5", "SHA1", "Sha256", "SHA512", "sha224", "sha384", "sha3", "sha512/256", "sha-256", "sha256 ", " md5", "crc32", "blake2b", "sha25", "sha2566", "md4"} {
			if !yield(AlgoName{n}) {
				return
			}
		}
	})
}

// ------------------------------------------------------------------ verification

type best struct {
	control.BestChecksums
}

type sha256Field struct {
	Sums []control.SHA256FileHash `control:"Checksums-Sha256" delim:"\n" strip:"\n\r\t "`
}

// the same list declared with pointer elements (whether the decoder fills such a member is its
// business; if it does, every entry is the entry of its own line)
type sha256PtrField struct {
	Sums []*control.SHA256FileHash `control:"Checksums-Sha256" delim:"\n" strip:"\n\r\t "`
}

// BestChecksums reached through an embedded struct whose type name is not exported (a package's
// own "common members" struct)
type bestInner struct {
	control.BestChecksums
}

type bestDeep struct {
	bestInner
}

type sha512Field struct {
	Sums []control.SHA512FileHash `control:"Checksums-Sha512" delim:"\n" strip:"\n\r\t "`
}

type VerifyCase struct {
	Data     []byte `json:"data"`
	Cuts     []int  `json:"cuts"`
	Source   string `json:"source"`   // field256 | field512 | best256 | best512 | bestboth | hasher256 | hasher512
	Recorded string `json:"recorded"` // true | other | nibble | truncated-even | truncated-odd | otheralgo | upper
	Which    int    `json:"which"`    // which nibble / how much truncated
	// SizeDelta: the entry's recorded Size differs from the stream's length by this much (the
	// statement makes the digest the criterion, not the size column). Extra: the stream is the
	// recorded content followed by this many further bytes (digest and Size recorded for the
	// content alone) - must be rejected.
	SizeDelta int `json:"sizeDelta,omitempty"`
	Extra     int `json:"extra,omitempty"`
}

func genVerifyCase(t *rapid.T) VerifyCase {
	d := genData(t, "d")
	return VerifyCase{Data: d, Cuts: genCuts(t, "cut", len(d)),
		Source:    rapid.SampledFrom([]string{"field256", "field512", "best256", "best512", "bestboth", "hasher256", "hasher512", "hashermd5", "hashersha1"}).Draw(t, "source"),
		Recorded:  rapid.SampledFrom([]string{"true", "true", "other", "nibble", "nibble", "truncated-even", "truncated-odd", "otheralgo", "upper", "extended", "zero-tail"}).Draw(t, "recorded"),
		Which:     rapid.IntRange(0, 127).Draw(t, "which"),
		SizeDelta: rapid.SampledFrom([]int{0, 0, 0, 0, -1, 1, -5, 100, -1000000}).Draw(t, "sizeDelta"),
		Extra:     rapid.SampledFrom([]int{0, 0, 0, 0, 1, 2, 64, 4096}).Draw(t, "extra")}
}

var specC12Verify = Register(&Spec[VerifyCase]{
	Prop: "C12", Name: "verify",
	Rule: "(content, recorded hash) pairs; the entry comes from a Checksums-Sha256 / Checksums-Sha512 field (a third of the documents end without a line end) parsed into []SHA256FileHash / []SHA512FileHash, from control.BestChecksums (embedded directly, or one level down inside a struct of unexported type name) with only the 256 field, only the 512 field or both present (via Checksums()), or from FileHashFromHasher over any of the four hashers (md5, sha1, sha256, sha512); the recorded hash is the true digest, the digest of other content, one flipped nibble, truncated (even / odd length; also cut by the zero byte a digest happens to end in), extended by zero or other bytes, the other algorithm's digest of the same content, or upper-case hex; the entry's Size column equals the stream length or is off by -1, +1, -5, +100 or far less, and in some cases the stream is the recorded content followed by 1..4096 further bytes. Oracle (the digest decides, not the size column; parsing the line into a variable that held other entries gives the same entry, a copy of the decoded struct kept by the caller still shows its own paragraph's entry after the next paragraph has been decoded into the same variable, a rejected line leaves the variable empty; once Verifier() has returned, the entry variable is overwritten with another entry - the verdict is about the entry the verifier was made from): the entry's Algorithm is that of the field it came from; writing the content in chunks and Close() returns nil iff digest_{entry algorithm}(content) == recorded hash (a malformed hex string may already be rejected by Verifier()). An entry that names an algorithm the library does not implement (sha384, sha224, sha512-256, sha3-*, blake2b, md4, ripemd160, crc32) and records the content's sha256 / sha512 / md5 / sha1 digest never gets a verifier that accepts the content. An entry built from an md5 or sha1 hasher is an entry built from a hasher like any other (Verifier() used to end the process with log.Fatalf for it - F52); md5/sha1 entries parsed from Files / Checksums-Sha1 fields are not named by the statement and not generated. Non-trivial: hash wrong in exactly one nibble, right under the wrong algorithm, or true with content in >= 2 chunks; distinct by case.",
	Check: func(c VerifyCase, r *Recorder) error {
		algo := "sha256"
		switch c.Source {
		case "field512", "best512", "hasher512":
			algo = "sha512"
		case "hashermd5":
			algo = "md5"
		case "hashersha1":
			algo = "sha1"
		}
		if c.Recorded == "zero-tail" {
			// content whose digest ends in a zero byte (found by counting), recorded without it: a
			// comparison that pads the shorter side with zeros calls the two equal
			base := c.Data
			if len(base) > 256 {
				base = base[:256]
			}
			for k := 0; k < 5000; k++ {
				cand := append(append([]byte{}, base...), []byte(strconv.Itoa(k))...)
				if strings.HasSuffix(trueDigest(algo, cand), "00") {
					c.Data = cand
					break
				}
			}
		}
		trueHex := trueDigest(algo, c.Data)
		rec := trueHex
		switch c.Recorded {
		case "zero-tail":
			if strings.HasSuffix(trueHex, "00") {
				rec = trueHex[:len(trueHex)-2]
			} else {
				rec = trueHex[:len(trueHex)-2] // (no such content found: an ordinary truncation)
			}
		case "extended":
			rec = trueHex + []string{"00", "0000", "ab", "0", "00000000"}[c.Which%5]
		case "other":
			rec = trueDigest(algo, append([]byte("x"), c.Data...))
		case "nibble":
			i := c.Which % len(trueHex)
			b := []byte(trueHex)
			if b[i] == 'f' {
				b[i] = '0'
			} else if b[i] == '9' {
				b[i] = 'a'
			} else {
				b[i]++
			}
			rec = string(b)
		case "truncated-even":
			rec = trueHex[:len(trueHex)-2*(1+c.Which%8)]
		case "truncated-odd":
			rec = trueHex[:len(trueHex)-1-2*(c.Which%8)]
		case "otheralgo":
			rec = trueDigest(map[string]string{"sha256": "sha512", "sha512": "sha256", "md5": "sha1", "sha1": "md5"}[algo], c.Data)
		case "upper":
			rec = strings.ToUpper(trueHex)
		}
		stream := c.Data
		recSize := len(c.Data) + c.SizeDelta
		if recSize < 0 {
			recSize = 0
		}
		if c.Extra > 0 && c.Recorded == "true" {
			// content + trailing bytes under the digest of the content alone
			stream = append(append([]byte{}, c.Data...), bytes.Repeat([]byte{'T'}, c.Extra)...)
		}
		chunks := chunksOf(stream, c.Cuts)
		nt := c.Recorded == "nibble" || c.Recorded == "otheralgo" || (c.Recorded == "true" && len(chunks) >= 2 && len(c.Data) > 0)
		r.Case(jsonKey(c), nt, "source:"+c.Source, "recorded:"+c.Recorded)
		if nt {
			r.Sample(map[string]interface{}{"len": len(c.Data), "source": c.Source, "recorded": c.Recorded, "hash": rec})
		}
		line := fmt.Sprintf(" %s %d file.tar.gz\n", rec, recSize)
		docEnd := func(doc string) string {
			if (c.Which+len(c.Data))%3 == 0 {
				return strings.TrimSuffix(doc, "\n") // a file whose last byte is not a line end
			}
			return doc
		}
		var fh control.FileHash
		switch c.Source {
		case "field256":
			var s sha256Field
			if err := control.Unmarshal(&s, strings.NewReader(docEnd("Checksums-Sha256:\n"+line))); err != nil || len(s.Sums) != 1 {
				return errf("cannot parse Checksums-Sha256 %q: %v", line, err)
			}
			fh = s.Sums[0].FileHash
			// the caller keeps what it read (a copy of the struct, as in `all = append(all, cur)`) and
			// decodes the next paragraph into the same variable: the kept entry is still the entry of
			// its own paragraph
			kept := s
			if err := control.Unmarshal(&s, strings.NewReader("Checksums-Sha256:\n "+trueDigest("sha256", []byte("the next paragraph"))+" 18 next.tar.gz\n")); err != nil || len(s.Sums) != 1 || s.Sums[0].Filename != "next.tar.gz" {
				return errf("a second paragraph decoded into the same variable gives %+v (err %v)", s.Sums, err)
			}
			if len(kept.Sums) != 1 || kept.Sums[0].FileHash != fh {
				return errf("the entry read from the paragraph %q was %+v; after the next paragraph was decoded into the same variable the caller's copy of the struct shows %+v", line, fh, kept.Sums)
			}
			// the same line through the entry's own method, into a variable that held another entry
			// (and a two-column one) before: nothing of those may survive; a rejected line leaves nothing
			used := control.SHA256FileHash{}
			fresh2 := control.SHA256FileHash{}
			_ = fresh2.UnmarshalControl("/etc/conffile bbbb")
			_ = used.UnmarshalControl("aaaa 12 first.dsc")
			if err := used.UnmarshalControl("/etc/conffile bbbb"); err != nil || used != fresh2 {
				return errf("a two-column line parsed into a SHA256FileHash that held a three-column entry gives %+v (err %v), into a fresh one %+v", used.FileHash, err, fresh2.FileHash)
			}
			if err := used.UnmarshalControl(strings.TrimSpace(line)); err != nil || used.FileHash != fh {
				return errf("UnmarshalControl(%q) into a used SHA256FileHash gives %+v (err %v), a fresh one %+v", line, used.FileHash, err, fh)
			}
			if err := used.UnmarshalControl("cccc notanumber third.dsc"); err == nil || used.FileHash != (control.FileHash{}) {
				return errf("UnmarshalControl of a malformed line returned %v and left %+v in the receiver", err, used.FileHash)
			}
			ch := control.FileListChangesFileHash{}
			_ = ch.UnmarshalControl("aaaa 12 devel optional first.dsc")
			if err := ch.UnmarshalControl("bbbb x devel optional second.dsc"); err == nil || ch != (control.FileListChangesFileHash{}) {
				return errf("FileListChangesFileHash.UnmarshalControl of a malformed line returned %v and left %+v in the receiver", err, ch)
			}
		case "field512":
			var s sha512Field
			if err := control.Unmarshal(&s, strings.NewReader(docEnd("Checksums-Sha512:\n"+line))); err != nil || len(s.Sums) != 1 {
				return errf("cannot parse Checksums-Sha512 %q: %v", line, err)
			}
			fh = s.Sums[0].FileHash
			kept := s
			if err := control.Unmarshal(&s, strings.NewReader("Checksums-Sha512:\n "+trueDigest("sha512", []byte("the next paragraph"))+" 18 next.tar.gz\n")); err != nil || len(s.Sums) != 1 || s.Sums[0].Filename != "next.tar.gz" {
				return errf("a second paragraph decoded into the same variable gives %+v (err %v)", s.Sums, err)
			}
			if len(kept.Sums) != 1 || kept.Sums[0].FileHash != fh {
				return errf("the entry read from the paragraph %q was %+v; after the next paragraph was decoded into the same variable the caller's copy of the struct shows %+v", line, fh, kept.Sums)
			}
		case "best256", "best512", "bestboth":
			doc := ""
			if c.Source == "best256" {
				doc = "Checksums-Sha256:\n" + line
			} else if c.Source == "best512" {
				doc = "Checksums-Sha512:\n" + line
			} else {
				// both present: the selector may pick either, each must verify under its own algorithm
				doc = "Checksums-Sha256:\n" + line + "Checksums-Sha512:\n" + fmt.Sprintf(" %s %d file.tar.gz\n", trueDigest("sha512", c.Data), recSize)
			}
			var b best
			doc = docEnd(doc)
			if err := control.Unmarshal(&b, strings.NewReader(doc)); err != nil {
				return errf("cannot parse %q: %v", doc, err)
			}
			cs := b.Checksums()
			if len(cs) != 1 {
				return errf("BestChecksums.Checksums() returned %d entries for %q", len(cs), doc)
			}
			fh = cs[0]
			// the same variable filled with another document of the same shape: Checksums() shows
			// the new entries, not what it worked out the first time
			otherHash := trueDigest(map[bool]string{true: "sha512", false: "sha256"}[c.Source == "best512"], []byte("another document"))
			doc2 := map[bool]string{true: "Checksums-Sha512:\n", false: "Checksums-Sha256:\n"}[c.Source == "best512"] + fmt.Sprintf(" %s 16 other.tar.gz\n", otherHash)
			keptBest := b
			if err := control.Unmarshal(&b, strings.NewReader(doc2)); err == nil {
				if cs2 := b.Checksums(); len(cs2) != 1 || cs2[0].Hash != otherHash || cs2[0].Filename != "other.tar.gz" {
					return errf("after decoding a second document into the same BestChecksums, Checksums() = %+v, want the new entry %s other.tar.gz", cs2, otherHash)
				}
				// what the caller took away before (the list, a copy of the struct) is still the first document's
				if cs[0] != fh {
					return errf("the list Checksums() returned for %q shows %+v after another document was decoded into the same variable, it was %+v", doc, cs[0], fh)
				}
				if c.Source != "bestboth" {
					if kc := keptBest.Checksums(); len(kc) != 1 || kc[0] != fh {
						return errf("a copy of the BestChecksums read from %q answers Checksums() = %+v after another document was decoded into the original variable, it was %+v", doc, kc, fh)
					}
				}
			}
			// ... and as one element of a list: an index of several paragraphs, the one in front of
			// this one listing its file under the OTHER algorithm only - each element answers for its
			// own paragraph
			if c.Source != "bestboth" {
				otherField, otherAlgo := "Checksums-Sha512", "sha512"
				if c.Source == "best512" {
					otherField, otherAlgo = "Checksums-Sha256", "sha256"
				}
				stream := otherField + ":\n " + trueDigest(otherAlgo, []byte("neighbour")) + " 9 neighbour.tar.gz\n\n" + doc
				var bs []best
				if err := control.Unmarshal(&bs, strings.NewReader(stream)); err != nil || len(bs) != 2 {
					return errf("cannot parse the two-paragraph index %q: %d elements, %v", stream, len(bs), err)
				}
				if cs := bs[1].Checksums(); len(cs) != 1 || cs[0] != fh {
					return errf("the second element of a two-paragraph index %q answers Checksums() = %+v, its own paragraph says %+v", stream, cs, fh)
				}
				if cs := bs[0].Checksums(); len(cs) != 1 || cs[0].Filename != "neighbour.tar.gz" || cs[0].Algorithm != otherAlgo {
					return errf("the first element of a two-paragraph index %q answers Checksums() = %+v", stream, cs)
				}
			}
			if c.Source == "bestboth" {
				// whichever was selected: its algorithm decides
				if fh.Algorithm == "sha512" {
					algo, trueHex, rec = "sha512", trueDigest("sha512", c.Data), trueDigest("sha512", c.Data)
				} else if fh.Algorithm != "sha256" {
					return errf("BestChecksums selected an entry with algorithm %q", fh.Algorithm)
				}
			}
		default:
			h, err := hashio.NewHasher(algo)
			if err != nil {
				return errf("NewHasher(%s): %v", algo, err)
			}
			h.Write(c.Data)
			fh = control.FileHashFromHasher("file.tar.gz", *h)
			if fh.Hash != trueHex {
				return errf("FileHashFromHasher(%s).Hash = %s, true digest %s", algo, fh.Hash, trueHex)
			}
			fh.Hash = rec // then tamper as requested
			fh.Size = int64(recSize)
		}
		if fh.Algorithm != algo {
			return errf("entry from %s is tagged with algorithm %q, want %q", c.Source, fh.Algorithm, algo)
		}
		if fh.Size != int64(recSize) || fh.Filename != "file.tar.gz" {
			return errf("entry from %s = %+v, want size %d name file.tar.gz", c.Source, fh, recSize)
		}
		wantOK := strings.EqualFold(rec, trueHex) && len(stream) == len(c.Data) // hex decoding is case-insensitive; trailing bytes change the digest
		v, err := fh.Verifier()
		if err != nil {
			if wantOK {
				return errf("Verifier() rejected the correct hash %q: %v", rec, err)
			}
			return nil // malformed hex rejected up front
		}
		// the verifier judges against the entry it was made from, as it was then: the variable goes
		// on to hold the next entry of the list (a range loop under go 1.19 semantics, a struct
		// parsed into again) while the stream is still being written
		if wantOK {
			fh.Hash = strings.Repeat("0", len(fh.Hash))
		} else {
			fh.Hash = trueDigest(fh.Algorithm, stream)
		}
		fh.Filename, fh.Size = "next-entry.tar.gz", int64(len(stream))+7
		for _, ch := range chunks {
			if n, err := v.Write(ch); err != nil || n != len(ch) {
				return errf("verifier Write returned %d, %v", n, err)
			}
		}
		cerr := v.Close()
		if wantOK && cerr != nil {
			return errf("verifier (%s entry from %s) rejected content whose %s digest equals the recorded hash: %v", fh.Algorithm, c.Source, algo, cerr)
		}
		if !wantOK && cerr == nil {
			return errf("verifier (%s entry from %s) accepted content although recorded hash %q != true %s digest %q (%s)", fh.Algorithm, c.Source, rec, algo, trueHex, c.Recorded)
		}
		// two lines through a list of POINTERS, and the selector one embedding level down
		{
			otherLine := fmt.Sprintf(" %s 11 second.tar.gz\n", trueDigest("sha256", []byte("second file")))
			if algo == "sha256" && strings.HasPrefix(c.Source, "field") {
				var ps sha256PtrField
				if err := control.Unmarshal(&ps, strings.NewReader("Checksums-Sha256:\n"+line+otherLine)); err == nil {
					if len(ps.Sums) != 2 || ps.Sums[0] == nil || ps.Sums[1] == nil || ps.Sums[0].Hash != rec || ps.Sums[0].Filename != "file.tar.gz" || ps.Sums[1].Filename != "second.tar.gz" {
						return errf("a two-line Checksums-Sha256 field decoded into a []*SHA256FileHash member gives %d entries, the first %+v (its line says %s file.tar.gz)", len(ps.Sums), ps.Sums[0], rec)
					}
				} else {
					r.Count("pointer-list-member-refused", 1)
				}
			}
			if c.Source == "best256" || c.Source == "best512" {
				field := map[bool]string{true: "Checksums-Sha512:\n", false: "Checksums-Sha256:\n"}[c.Source == "best512"]
				var bd bestDeep
				if err := control.Unmarshal(&bd, strings.NewReader(field+line)); err != nil {
					return errf("cannot parse %q into a struct that embeds BestChecksums one level down: %v", field+line, err)
				}
				if cs := bd.Checksums(); len(cs) != 1 || cs[0].Hash != rec || cs[0].Algorithm != algo {
					return errf("BestChecksums embedded one level down (in a struct of unexported type name): Checksums() = %+v for %q", cs, field+line)
				}
			}
		}
		// an entry that names an algorithm the library has no implementation of (a Checksums-Sha384
		// field of tomorrow, read by the caller's own code): whatever is recorded - the SHA-256 or
		// SHA-512 of the content, say - is not the content's digest under THAT algorithm
		other := []string{"sha384", "sha224", "sha512-256", "sha3-256", "sha3-512", "blake2b", "md4", "ripemd160", "crc32"}[(len(c.Data)+c.Which)%9]
		for _, known := range []string{"sha256", "sha512", "md5", "sha1"} {
			odd := control.FileHash{Algorithm: other, Hash: trueDigest(known, c.Data), Size: int64(len(c.Data)), Filename: "file.tar.gz"}
			if ov, err := odd.Verifier(); err == nil {
				ov.Write(c.Data)
				if ov.Close() == nil {
					return errf("an entry naming the algorithm %q and recording the content's %s digest got a verifier that accepts the content", other, known)
				}
			}
		}
		return nil
	},
})

func TestC12_Verify(t *testing.T) {
	specC12Verify.Run(t, genVerifyCase, 25000, 120000)
}
