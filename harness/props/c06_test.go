package props

import (
	"strings"
	"testing"

	"pault.ag/go/debian/dependency"
	"pault.ag/go/debian/version"
	"pgregory.net/rapid"
)

// refArchMatch is the Debian semantics the property states, on model triples.
func refArchMatch(c, p Triple3) bool {
	cAll := c.ABI == "all" && c.OS == "all" && c.CPU == "all"
	pAll := p.ABI == "all" && p.OS == "all" && p.CPU == "all"
	if pAll || cAll {
		return pAll && cAll
	}
	comp := func(pc, cc string) bool { return pc == "any" || pc == cc }
	return comp(p.ABI, c.ABI) && comp(p.OS, c.OS) && comp(p.CPU, c.CPU)
}

// abiUndecided: the answer hinges on the default ABI of a two-part concrete
// name ("?OS"), which the statement leaves open - such pairs are not asserted.
func abiUndecided(c, p Triple3) bool {
	und := func(x, y string) bool { return strings.HasPrefix(x, "?") && y != "any" && y != x }
	if !und(c.ABI, p.ABI) && !und(p.ABI, c.ABI) {
		return false
	}
	comp := func(pc, cc string) bool { return pc == "any" || cc == "any" || pc == cc }
	return comp(p.OS, c.OS) && comp(p.CPU, c.CPU)
}

func altUndecided(a AltAST, c Triple3) bool {
	for _, n := range a.Archs {
		m, _ := archModel(n)
		if abiUndecided(c, m) {
			return true
		}
	}
	return false
}

func (t Triple3) wildcard() bool { return t.ABI == "any" || t.OS == "any" || t.CPU == "any" }
func (t Triple3) arch() dependency.Arch {
	return dependency.Arch{ABI: t.ABI, OS: t.OS, CPU: t.CPU}
}
func (t Triple3) name3() string {
	if t.ABI == "all" {
		return "all"
	}
	return t.ABI + "-" + t.OS + "-" + t.CPU
}

var (
	genericABI = []string{"gnu", "musl", "uclibc"}
	genericOS  = []string{"linux", "kfreebsd", "hurd"}
	genericCPU = []string{"amd64", "i386", "arm64"}
	atomAll    = Triple3{"all", "all", "all"}
)

func allConcretes() []Triple3 {
	out := []Triple3{atomAll}
	for _, a := range genericABI {
		for _, o := range genericOS {
			for _, c := range genericCPU {
				out = append(out, Triple3{a, o, c})
			}
		}
	}
	return out
}

func allPatterns() []Triple3 {
	out := []Triple3{atomAll}
	for _, a := range append([]string{"any"}, genericABI...) {
		for _, o := range append([]string{"any"}, genericOS...) {
			for _, c := range append([]string{"any"}, genericCPU...) {
				out = append(out, Triple3{a, o, c})
			}
		}
	}
	return out
}

type ArchPair struct {
	C      Triple3 `json:"c"`
	P      Triple3 `json:"p"`
	Parsed bool    `json:"parsed"` // operands built by ParseArch of the 3-part (or shortest) name instead of struct literals
	Short  bool    `json:"short"`  // use the shortest Debian spelling (amd64, linux-any, any) when parsing
	// Via: 0 ParseArch; 1 UnmarshalControl into a zero Arch; 2 UnmarshalControl into an Arch variable
	// that read the other operand's name before
	Via int `json:"via,omitempty"`
}

func shortestName(t Triple3) string {
	switch {
	case t == atomAll:
		return "all"
	case t.ABI == "any" && t.OS == "any" && t.CPU == "any":
		return "any"
	case t.ABI == "gnu" && t.OS == "linux" && t.CPU != "any":
		return t.CPU
	case t.ABI == "any" && (t.OS == "any" || t.CPU == "any"):
		return t.OS + "-" + t.CPU // the wildcards OS-any / any-CPU; OS-CPU itself names a concrete architecture
	}
	return t.name3()
}

func buildArch(t Triple3, parsed, short bool, via int, other Triple3) (dependency.Arch, error) {
	if !parsed {
		return t.arch(), nil
	}
	n := t.name3()
	if short {
		n = shortestName(t)
	}
	if via > 0 {
		var a dependency.Arch
		if via == 2 {
			if err := a.UnmarshalControl(other.name3()); err != nil {
				return a, errf("Arch.UnmarshalControl(%q) failed: %v", other.name3(), err)
			}
		}
		if err := a.UnmarshalControl(n); err != nil {
			return a, errf("Arch.UnmarshalControl(%q) failed: %v", n, err)
		}
		return a, nil
	}
	a, err := dependency.ParseArch(n)
	if err != nil {
		return dependency.Arch{}, errf("ParseArch(%q) failed: %v", n, err)
	}
	return *a, nil
}

var specC06Match = Register(&Spec[ArchPair]{
	Prop: "C06", Name: "match",
	Rule: "bounded-exhaustive: ALL 28 concrete architectures (atomic 'all' + 3 abi x 3 os x 3 cpu generic names) x ALL 65 patterns (atomic 'all' + each component 'any' or one of the three names) = 1820 pairs, each built seven ways (struct literals; the 3-part name and the shortest Debian spelling through ParseArch, through Arch.UnmarshalControl into a zero Arch, and through Arch.UnmarshalControl into a variable that read the other operand's name before) and evaluated in both call directions. Oracle: c.Is(p) == p.Is(c) == [p=all => c=all; c=all => p=all; else every component of p is 'any' or equal]; IsWildcard() is true exactly for the patterns with an 'any' component. Non-trivial: pattern has >= 1 'any' component or an atom 'all' is involved; distinct by (c,p,construction).",
	Check: func(c ArchPair, r *Recorder) error {
		nt := c.P.wildcard() || c.P == atomAll || c.C == atomAll
		r.Case(jsonKey(c), nt)
		if nt {
			r.Sample(c)
		}
		ca, err := buildArch(c.C, c.Parsed, c.Short, c.Via, c.P)
		if err != nil {
			return err
		}
		pa, err := buildArch(c.P, c.Parsed, c.Short, c.Via, c.C)
		if err != nil {
			return err
		}
		// IsWildcard says of an architecture what the model says of its triple: some component is
		// 'any' (the atom 'all' is no wildcard, a concrete architecture neither)
		if got, wantW := pa.IsWildcard(), c.P.wildcard() && c.P != atomAll; got != wantW {
			return errf("pattern %s: IsWildcard() = %v, the triple says %v", c.P.name3(), got, wantW)
		}
		if ca.IsWildcard() {
			return errf("concrete %s: IsWildcard() = true", c.C.name3())
		}
		want := refArchMatch(c.C, c.P)
		if got := ca.Is(&pa); got != want {
			return errf("concrete %s .Is(pattern %s) = %v, Debian semantics say %v", c.C.name3(), c.P.name3(), got, want)
		}
		if got := pa.Is(&ca); got != want {
			return errf("pattern %s .Is(concrete %s) = %v, Debian semantics say %v (matching must be symmetric)", c.P.name3(), c.C.name3(), got, want)
		}
		return nil
	},
})

func TestC06_MatchExh(t *testing.T) {
	specC06Match.Enumerate(t, true, func(_ *Recorder, yield func(ArchPair) bool) {
		for _, c := range allConcretes() {
			for _, p := range allPatterns() {
				for mode := 0; mode < 7; mode++ {
					ap := ArchPair{C: c, P: p, Parsed: mode > 0, Short: mode == 2 || mode == 4 || mode == 6}
					if mode >= 3 {
						ap.Via = (mode-3)/2 + 1
					}
					if !yield(ap) {
						return
					}
				}
			}
		}
	})
}

// ------------------------------------------------------------------ lists

type ArchListCase struct {
	C    Triple3   `json:"c"`
	Not  bool      `json:"not"`
	List []Triple3 `json:"list"`
}

func refListAdmits(list []Triple3, not bool, c Triple3) bool {
	if len(list) == 0 {
		return true
	}
	any := false
	for _, e := range list {
		if refArchMatch(c, e) {
			any = true
		}
	}
	return any != not
}

var specC06List = Register(&Spec[ArchListCase]{
	Prop: "C06", Name: "list",
	Rule: "bounded-exhaustive: all architecture lists of length 0..3 over a 9-pattern subset (all, any-any-any, gnu-linux-amd64, musl-linux-amd64, any-linux-any, any-any-amd64, gnu-kfreebsd-any, any-hurd-i386, uclibc-any-any) x {negated, plain} x all 28 concrete architectures. Oracle: ArchSet.Matches(c) == (list empty) or ((some entry matches c) != negated). Non-trivial: list has >= 2 entries; distinct by (list, negation, c).",
	Check: func(c ArchListCase, r *Recorder) error {
		r.Case(jsonKey(c), len(c.List) >= 2)
		if len(c.List) >= 2 {
			r.Sample(c)
		}
		set := dependency.ArchSet{Not: c.Not}
		for _, e := range c.List {
			set.Architectures = append(set.Architectures, e.arch())
		}
		ca := c.C.arch()
		want := refListAdmits(c.List, c.Not, c.C)
		if got := set.Matches(&ca); got != want {
			return errf("list %v (negated=%v) .Matches(%s) = %v, want %v", c.List, c.Not, c.C.name3(), got, want)
		}
		return nil
	},
})

func TestC06_ListExh(t *testing.T) {
	sub := []Triple3{atomAll, {"any", "any", "any"}, {"gnu", "linux", "amd64"}, {"musl", "linux", "amd64"}, {"any", "linux", "any"},
		{"any", "any", "amd64"}, {"gnu", "kfreebsd", "any"}, {"any", "hurd", "i386"}, {"uclibc", "any", "any"}}
	specC06List.Enumerate(t, true, func(_ *Recorder, yield func(ArchListCase) bool) {
		var lists [][]Triple3
		lists = append(lists, []Triple3{})
		for _, a := range sub {
			lists = append(lists, []Triple3{a})
			for _, b := range sub {
				lists = append(lists, []Triple3{a, b})
				for _, c := range sub {
					lists = append(lists, []Triple3{a, b, c})
				}
			}
		}
		for _, l := range lists {
			for _, not := range []bool{false, true} {
				for _, c := range allConcretes() {
					if !yield(ArchListCase{C: c, Not: not, List: l}) {
						return
					}
				}
			}
		}
	})
}

// ------------------------------------------------------------------ real names

type RealPair struct {
	A string `json:"a"`
	B string `json:"b"`
}

var realArchNames = []string{"all", "any", "amd64", "i386", "arm64", "armhf", "armel", "mips64el", "mipsel", "ppc64el", "ppc64", "powerpc", "riscv64", "s390x", "sparc64", "x32", "alpha", "hppa", "ia64", "m68k", "sh4", "loong64",
	"linux-any", "kfreebsd-any", "hurd-any", "any-amd64", "any-i386", "any-arm64", "any-arm", "kfreebsd-amd64", "kfreebsd-i386", "hurd-i386", "hurd-amd64", "linux-amd64", "linux-i386",
	"gnu-linux-amd64", "gnu-linux-i386", "musl-linux-amd64", "musl-linux-arm64", "gnu-kfreebsd-amd64", "gnu-hurd-i386", "gnu-any-any", "musl-any-any", "any-linux-any", "any-any-amd64", "gnu-linux-any", "any-any-any", "uclibc-linux-armel", "gnueabihf-linux-arm", "musleabihf-linux-arm",
	// ... two-part names of the other kernels in dpkg's ostable, and their wildcards
	"uclinux-armel", "mint-m68k", "aix-powerpc", "darwin-arm64", "freebsd-amd64", "netbsd-i386", "openbsd-sparc64", "solaris-sparc", "kopensolaris-amd64", "knetbsd-i386", "dragonflybsd-amd64",
	"freebsd-any", "darwin-any", "solaris-any", "uclinux-any", "netbsd-any", "any-sparc", "any-powerpc", "any-m68k", "any-armel"}

var specC06Real = Register(&Spec[RealPair]{
	Prop: "C06", Name: "realnames",
	Rule: "random pairs of ~70 real Debian architecture names (all kernels of dpkg's ostable among the two-part ones) and wildcards (1-, 2- and 3-part), parsed with ParseArch; the oracle is applied to the independent name model (1 part: atoms any/all or gnu-linux-CPU; 2 parts: a wildcard with unconstrained ABI when a component is 'any', otherwise the concrete architecture of that OS - hurd-i386, kfreebsd-amd64, linux-amd64 (= amd64) - which matches itself, any, OS-any and any-CPU; 3 parts: literal). Pairs where both names contain an 'any' component are outside the statement and are counted as skipped, as are pairs whose answer would hinge on which ABI is the default of a non-linux OS; for the rest a.Is(b) == b.Is(a) == model. Non-trivial: exactly one side is a wildcard; distinct by (a,b).",
	Check: func(c RealPair, r *Recorder) error {
		ma, _ := archModel(c.A)
		mb, _ := archModel(c.B)
		if ma.wildcard() && mb.wildcard() {
			r.Case(c.A+"|"+c.B, false, "skipped-both-wildcards")
			return nil
		}
		if abiUndecided(ma, mb) {
			r.Case(c.A+"|"+c.B, false, "skipped-default-abi-undecided")
			return nil
		}
		nt := ma.wildcard() != mb.wildcard()
		r.Case(c.A+"|"+c.B, nt)
		if nt {
			r.Sample(c)
		}
		a, err := dependency.ParseArch(c.A)
		if err != nil {
			return errf("ParseArch(%q): %v", c.A, err)
		}
		b, err := dependency.ParseArch(c.B)
		if err != nil {
			return errf("ParseArch(%q): %v", c.B, err)
		}
		var want bool
		if mb.wildcard() {
			want = refArchMatch(ma, mb)
		} else {
			want = refArchMatch(mb, ma)
		}
		if got := a.Is(b); got != want {
			return errf("%q.Is(%q) = %v, Debian semantics say %v", c.A, c.B, got, want)
		}
		if got := b.Is(a); got != want {
			return errf("%q.Is(%q) = %v, Debian semantics say %v", c.B, c.A, got, want)
		}
		return nil
	},
})

func TestC06_RealNames(t *testing.T) {
	specC06Real.Run(t, func(t *rapid.T) RealPair {
		return RealPair{rapid.SampledFrom(realArchNames).Draw(t, "a"), rapid.SampledFrom(realArchNames).Draw(t, "b")}
	}, 6000, 30000)
}

// ------------------------------------------------------------------ possibilities selection

type SelectCase struct {
	AST  DepAST `json:"ast"`
	Text string `json:"text"`
	Arch string `json:"arch"` // concrete architecture name
}

var concreteNames = []string{"amd64", "i386", "arm64", "armhf", "all", "gnu-kfreebsd-amd64", "gnu-hurd-i386", "musl-linux-arm64", "musl-linux-amd64", "s390x", "hurd-i386", "kfreebsd-amd64", "linux-i386"}

func genSelectCase(t *rapid.T) SelectCase {
	ast := genDepAST(t, "d", 5, 4, true)
	// alternatives of one relation written by the same hand: later lists are sub- or supersets of
	// earlier ones, same polarity, over the architectures that are queried
	for ri := range ast.Rels {
		alts := ast.Rels[ri].Alts
		if len(alts) < 2 || rapid.IntRange(0, 1).Draw(t, "corr") == 1 {
			continue
		}
		n := rapid.IntRange(2, 4).Draw(t, "corrN")
		base := []string{}
		for i := 0; i < n; i++ {
			base = append(base, rapid.SampledFrom([]string{"amd64", "i386", "arm64", "armhf", "kfreebsd-any", "hurd-any", "linux-any", "any-amd64", "musl-any-any"}).Draw(t, "corrA"))
		}
		not := rapid.Bool().Draw(t, "corrNot")
		for ai := range alts {
			if alts[ai].Substvar {
				continue
			}
			k := rapid.IntRange(1, len(base)).Draw(t, "corrK")
			sub := append([]string{}, rapid.Permutation(base).Draw(t, "corrP")[:k]...)
			alts[ai].Archs, alts[ai].ArchNot = sub, not
			has := false
			for _, o := range alts[ai].Order {
				if o == "a" {
					has = true
				}
			}
			if !has {
				alts[ai].Order = append(alts[ai].Order, "a")
			}
		}
	}
	// bias arch lists towards names that interact with the concrete arch
	// (the field as a folded control field carries it: line ends, tabs, CR LF wherever a blank may stand)
	scheme := rapid.SampledFrom([]string{"S0-canonical", "S0-canonical", "S1-minimal", "S3-folded", "S5-tabs", "S6-newlines", "S7-nl-indent", "S8-crlf", "S2-double"}).Draw(t, "scheme")
	return SelectCase{AST: ast, Text: renderDep(ast, fixedSchemes[scheme]), Arch: rapid.SampledFrom(concreteNames).Draw(t, "arch")}
}

func altAdmits(a AltAST, c Triple3) bool {
	list := []Triple3{}
	for _, n := range a.Archs {
		m, _ := archModel(n)
		list = append(list, m)
	}
	return refListAdmits(list, a.ArchNot, c)
}

var specC06Select = Register(&Spec[SelectCase]{
	Prop: "C06", Name: "select",
	Rule: "random dependency ASTs (C04 generator; canonical spacing, or minimal, doubled, folded, tabs, line ends, line end + indent, CR LF wherever a blank may stand) parsed and queried for one of 13 concrete architectures (one-part, three-part and two-part OS-CPU names such as hurd-i386). Oracle on the AST: GetPossibilities returns, per relation and in order, the first non-substvar alternative whose architecture list admits the architecture (nothing for a relation with none); GetAllPossibilities returns every non-substvar alternative in order; GetSubstvars the substvars in order; the same relations built as struct literals (no architecture list = nil) select the same alternatives; the same Dependency queried for four more architectures and the first one again answers each according to the field as written, and the first results, kept meanwhile, still say the same afterwards. Non-trivial: some relation selects a later alternative or selects nothing although it has package alternatives; distinct by (text, arch).",
	Check: func(c SelectCase, r *Recorder) error {
		cm, _ := archModel(c.Arch)
		for _, rel := range c.AST.Rels {
			for _, a := range rel.Alts {
				if altUndecided(a, cm) {
					r.Case(c.Text+"|"+c.Arch, false, "skipped-default-abi-undecided")
					return nil
				}
			}
		}
		var want, all, sv []AltAST
		later := false
		for _, rel := range c.AST.Rels {
			found := false
			pk := 0
			for _, a := range rel.Alts {
				if a.Substvar {
					sv = append(sv, a)
					continue
				}
				all = append(all, a)
				if !found && altAdmits(a, cm) {
					want = append(want, a)
					found = true
					if pk > 0 {
						later = true
					}
				}
				pk++
			}
			if !found && pk > 0 {
				later = true
			}
		}
		r.Case(c.Text+"|"+c.Arch, later)
		if later {
			r.Sample(c.Text + " @ " + c.Arch)
		}
		dep, err := dependency.Parse(c.Text)
		if err != nil {
			return nil // C04's business
		}
		arch, err := dependency.ParseArch(c.Arch)
		if err != nil {
			return errf("ParseArch(%q): %v", c.Arch, err)
		}
		cmp := func(what string, got []dependency.Possibility, want []AltAST) error {
			if len(got) != len(want) {
				names := []string{}
				for _, g := range got {
					names = append(names, g.Name)
				}
				wn := []string{}
				for _, w := range want {
					wn = append(wn, w.Name)
				}
				return errf("%s of %q for %s returned %d possibilities %v, want %d %v", what, c.Text, c.Arch, len(got), names, len(want), wn)
			}
			for i := range got {
				if err := comparePossiToAlt(got[i], want[i]); err != nil {
					return errf("%s of %q for %s: entry %d: %v", what, c.Text, c.Arch, i, err)
				}
			}
			return nil
		}
		// a result is the caller's: it is kept here while every other query below is made (other
		// architectures included) and judged once more at the end
		held := dep.GetPossibilities(*arch)
		heldAll := dep.GetAllPossibilities()
		if err := cmp("GetPossibilities", held, want); err != nil {
			return err
		}
		// the same Dependency asked for other architectures, and then for the first one again: every
		// answer is about the field as written (a query must not wear the Dependency down)
		for _, other := range []string{"amd64", "hurd-i386", "armhf", "sparc", c.Arch} {
			oa, oerr := dependency.ParseArch(other)
			if oerr != nil {
				continue
			}
			om, _ := archModel(other)
			var owant []AltAST
			undecided := false
			for _, rel := range c.AST.Rels {
				for _, a := range rel.Alts {
					if a.Substvar {
						continue
					}
					if altUndecided(a, om) {
						undecided = true
					}
					if altAdmits(a, om) {
						owant = append(owant, a)
						break
					}
				}
			}
			got := dep.GetPossibilities(*oa)
			if undecided {
				continue
			}
			if err := cmp("GetPossibilities (asked for "+other+" after "+c.Arch+")", got, owant); err != nil {
				return err
			}
		}
		if err := cmp("GetAllPossibilities", dep.GetAllPossibilities(), all); err != nil {
			return err
		}
		if err := cmp("GetSubstvars", dep.GetSubstvars(), sv); err != nil {
			return err
		}
		// the same relations put together by hand, the way a program builds a dependency it did not
		// parse: an alternative without an architecture list simply has none (nil), which admits
		// everything just like an empty one
		built := dependency.Dependency{}
		for _, rel := range c.AST.Rels {
			br := dependency.Relation{}
			for _, a := range rel.Alts {
				p := dependency.Possibility{Name: a.Name, Substvar: a.Substvar}
				if len(a.Archs) > 0 {
					set := &dependency.ArchSet{Not: a.ArchNot}
					for _, n := range a.Archs {
						pa, err := dependency.ParseArch(n)
						if err != nil {
							return nil
						}
						set.Architectures = append(set.Architectures, *pa)
					}
					p.Architectures = set
				}
				br.Possibilities = append(br.Possibilities, p)
			}
			built.Relations = append(built.Relations, br)
		}
		got := built.GetPossibilities(*arch)
		if len(got) != len(want) {
			return errf("GetPossibilities of the hand-built form of %q for %s returned %d possibilities, want %d", c.Text, c.Arch, len(got), len(want))
		}
		for i := range got {
			if got[i].Name != want[i].Name {
				return errf("GetPossibilities of the hand-built form of %q for %s: entry %d is %q, want %q", c.Text, c.Arch, i, got[i].Name, want[i].Name)
			}
		}
		if err := cmp("GetPossibilities (the result of the first call, looked at again after the other queries)", held, want); err != nil {
			return err
		}
		if err := cmp("GetAllPossibilities (the result of the first call, looked at again after the other queries)", heldAll, all); err != nil {
			return err
		}
		return nil
	},
})

func TestC06_Select(t *testing.T) {
	specC06Select.Run(t, genSelectCase, 25000, 150000)
}

// ------------------------------------------------------------------ SatisfiedBy

type SatCase struct {
	Op string   `json:"op"`
	N  string   `json:"n"`         // the constraint's version text
	NP VerParts `json:"np"`        // its parts by the renderer (when parsable)
	OK bool     `json:"nParsable"` // whether N is a well-formed version
	V  VerParts `json:"v"`         // the candidate version
	K  string   `json:"kind,omitempty"`
}

func genSatCase(t *rapid.T) SatCase {
	c := SatCase{}
	if rapid.IntRange(0, 7).Draw(t, "opk") == 0 {
		c.Op = rapid.SampledFrom([]string{"<", ">", "==", "!=", "", "=>", "=<", "~", "><", " >=", ">= ", "lt", "≥"}).Draw(t, "badop")
	} else {
		c.Op = rapid.SampledFrom(operators).Draw(t, "op")
	}
	if rapid.IntRange(0, 9).Draw(t, "nk") == 0 {
		c.N = rapid.SampledFrom([]string{"", "abc", "1 2", "a:1", ":1", "1:", "-1:2", "1_0", "v1.0", "99999999999999999999:1", " ", "1.0 beta", "1:-1", "1:-", "0:-5", "3:-1.0~rc1", "-", "-1", ":", "0:", "1:-a", "1::2", "1: 2", "1 :2", "1.0:2", "٣:1", "1:٣", "1:2 3", "~1", ".1", "+1"}).Draw(t, "badn")
		c.OK = false
		c.V = genVerParts(t, "v")
		c.K = "unparsable-N"
		if rapid.Bool().Draw(t, "oversized") {
			// an epoch no Version can hold (C03: oversized epochs are rejected), of any size above
			// the platform's uint - not only the 20 nines above
			c.N = beyondUint(t, "nEpoch") + ":" + genSimpleVersion(t, "nRest")
			if i := strings.Index(c.N[strings.Index(c.N, ":")+1:], ":"); i >= 0 {
				c.N = c.N[:strings.Index(c.N, ":")+1] + "1.0-1"
			}
			c.K = "unparsable-N-oversized-epoch"
			if rapid.Bool().Draw(t, "vAnyEpoch") {
				c.V.E = rapid.Uint64Range(0, uint64(^uint(0))).Draw(t, "vEpoch")
			}
		}
		return c
	}
	w := genWellFormed(t, "n")
	c.N, c.OK = w.Text, true
	c.NP = wfParts(w)
	switch rapid.IntRange(0, 5).Draw(t, "vk") {
	case 0:
		c.V, c.K = c.NP, "identical"
	case 1, 2, 3:
		c.V, c.K = genNeighbour(t, "nb", c.NP), "neighbour"
	case 4:
		// equivalent respelling
		c.V = c.NP
		if c.V.R == "" {
			c.V.R = "0"
		} else if len(c.V.V) > 0 {
			c.V.V = "0" + c.V.V
		}
		c.K = "respelled"
	default:
		c.V, c.K = genVerParts(t, "v"), "independent"
	}
	return c
}

var specC06Sat = Register(&Spec[SatCase]{
	Prop: "C06", Name: "satisfied",
	Rule: "(op, N, V): op from the five operators (7/8) or an unknown operator string; N a Policy-grammar version text (9/10, with surrounding blanks sometimes) or an unparsable string (half of those: an epoch above the platform's uint - just above, a multiple of 2^32 / 2^64 plus a little, 11..26 digits - in front of a plain version, with V's epoch anywhere in the uint range); V identical to N, a one-edit neighbour (C01 edit set), an equivalent respelling (leading zero / revision 0) or independent. Oracle: SatisfiedBy(V) == (reference_compare(V, N) rel 0) for << <= = >= >>, and false for an unknown operator or unparsable N. Non-trivial: V ~ N (boundary) or V a neighbour of N, or the rejecting classes; distinct by (op,N,V).",
	Check: func(c SatCase, r *Recorder) error {
		known := false
		for _, o := range operators {
			if o == c.Op {
				known = true
			}
		}
		cl := []string{"kind:" + c.K}
		boundary := c.OK && refCompare(c.V, c.NP) == 0
		if boundary {
			cl = append(cl, "boundary")
		}
		if !known {
			cl = append(cl, "unknown-op")
		}
		nt := boundary || c.K == "neighbour" || !known || !c.OK
		r.Case(c.Op+"|"+c.N+"|"+c.V.key(), nt, cl...)
		if nt {
			r.Sample(c)
		}
		vr := dependency.VersionRelation{Operator: c.Op, Number: c.N}
		got := vr.SatisfiedBy(c.V.ver())
		want := false
		if known && c.OK {
			q := refCompare(c.V, c.NP)
			switch c.Op {
			case "<<":
				want = q < 0
			case "<=":
				want = q <= 0
			case "=":
				want = q == 0
			case ">=":
				want = q >= 0
			case ">>":
				want = q > 0
			}
		}
		if got != want {
			return errf("(%s %q).SatisfiedBy(%+v) = %v, want %v", c.Op, c.N, c.V.ver(), got, want)
		}
		_ = version.Version{}
		_ = strings.TrimSpace
		return nil
	},
})

func TestC06_Satisfied(t *testing.T) {
	specC06Sat.Run(t, genSatCase, 60000, 300000)
}
