package props

import (
	"bufio"
	"bytes"
	"errors"
	"fmt"
	"io"
	"os"
	"os/exec"
	"strings"
	"syscall"
	"testing"
	"testing/iotest"
	"time"

	"pault.ag/go/debian/changelog"
	"pgregory.net/rapid"
)

type ClEntry struct {
	Source  string     `json:"source"`
	Version WellFormed `json:"version"`
	Dists   []string   `json:"dists"`
	OptKeys []string   `json:"optKeys"`
	// OptStyle: how the options are laid out (0: "k=v, k=v"): 1 "k=v,k=v"; 2 "k=v,  k=v"; 3 "k=v , k=v";
	// 4 a tab behind the comma; 5 "k= v" (dpkg reads the value with \s* in front); 6 blanks behind the last
	OptStyle int               `json:"optStyle,omitempty"`
	Opts     map[string]string `json:"opts"`
	Body     string            `json:"body"` // exact bytes between header line and trailer line
	Who      string            `json:"who"`
	Unix     int64             `json:"unix"`
	OffMin   int               `json:"offMin"` // zone offset in minutes
	Gap      int               `json:"gap"`    // blank lines before this entry's header
	// GapLines, when set, replaces Gap: the blank lines before the header, each possibly carrying
	// blanks or a tab (dpkg's notion of a blank line is ^\s*$)
	GapLines []string `json:"gapLines,omitempty"`
	// DayStyle: "" = two-digit day (date -R), "1" = no leading zero, "_" = space padded
	// (Policy: "a one- or two-digit day of the month, where the leading zero is optional")
	DayStyle string `json:"dayStyle,omitempty"`
}

func gapText(e ClEntry) string {
	if e.GapLines == nil {
		return strings.Repeat("\n", e.Gap)
	}
	var sb strings.Builder
	for _, l := range e.GapLines {
		sb.WriteString(l + "\n")
	}
	return sb.String()
}

type ClDoc struct {
	Entries      []ClEntry `json:"entries"`
	FinalNewline bool      `json:"finalNewline"`
	Trailing     int       `json:"trailing"` // blank lines after the last entry
	// Footer: the comment lines debhelper appends to a trimmed changelog ("# Older entries have
	// been removed from this changelog."), after the trailing blank lines
	Footer bool `json:"footer,omitempty"`
}

const clFooter = "# Older entries have been removed from this changelog.\n# To read the complete changelog use `apt changelog hello`.\n"

func clWhen(e ClEntry) time.Time {
	return time.Unix(e.Unix, 0).In(time.FixedZone("", e.OffMin*60))
}

func renderClEntry(e ClEntry) (header, body, trailer string) {
	opts := []string{}
	eq := "="
	if e.OptStyle == 5 {
		eq = "= "
	}
	for _, k := range e.OptKeys {
		opts = append(opts, k+eq+e.Opts[k])
	}
	sep := []string{", ", ",", ",  ", " , ", ",\t", ", ", ", "}[e.OptStyle%7]
	header = fmt.Sprintf("%s (%s) %s; %s\n", e.Source, e.Version.canonical(), strings.Join(e.Dists, " "), strings.Join(opts, sep))
	if e.OptStyle == 6 {
		header = strings.TrimSuffix(header, "\n") + "  \n"
	}
	if len(opts) == 0 {
		header = fmt.Sprintf("%s (%s) %s;\n", e.Source, e.Version.canonical(), strings.Join(e.Dists, " "))
	}
	layout := "Mon, 02 Jan 2006 15:04:05 -0700"
	switch e.DayStyle {
	case "1":
		layout = "Mon, 2 Jan 2006 15:04:05 -0700"
	case "_":
		layout = "Mon, _2 Jan 2006 15:04:05 -0700"
	case ",":
		layout = "Mon,02 Jan 2006 15:04:05 -0700" // deb-changelog(5): zero or more blanks after the comma
	case ",,":
		layout = "Mon,   2 Jan 2006 15:04:05 -0700"
	}
	trailer = fmt.Sprintf(" -- %s  %s\n", e.Who, clWhen(e).Format(layout))
	return header, e.Body, trailer
}

func renderClDoc(d ClDoc) string {
	var sb strings.Builder
	for _, e := range d.Entries {
		sb.WriteString(gapText(e))
		h, b, tr := renderClEntry(e)
		sb.WriteString(h + b + tr)
	}
	s := sb.String()
	if !d.FinalNewline {
		return strings.TrimSuffix(s, "\n")
	}
	s += strings.Repeat("\n", d.Trailing)
	if d.Footer {
		s += clFooter
	}
	return s
}

func genClEntry(t *rapid.T, first bool) ClEntry {
	e := ClEntry{Opts: map[string]string{}}
	e.Source = genPkgName(t, "src")
	e.Version = genWellFormedCore(t, "ver")
	nd := rapid.SampledFrom([]int{1, 1, 1, 2, 3}).Draw(t, "nd")
	for i := 0; i < nd; i++ {
		e.Dists = append(e.Dists, rapid.SampledFrom([]string{"unstable", "experimental", "UNRELEASED", "bookworm-security", "stable-proposed-updates", "jammy"}).Draw(t, "dist"))
	}
	pool := [][2]string{{"urgency", "low"}, {"urgency", "medium"}, {"urgency", "high"}, {"binary-only", "yes"}, {"xb-foo", "bar-1"}, {"urgency", "critical"}}
	no := rapid.SampledFrom([]int{1, 1, 2, 3, 0}).Draw(t, "no") // deb-changelog(5): zero or more key=value items
	for i := 0; i < no; i++ {
		kv := rapid.SampledFrom(pool).Draw(t, "opt")
		if _, dup := e.Opts[kv[0]]; dup {
			continue
		}
		e.OptKeys = append(e.OptKeys, kv[0])
		e.Opts[kv[0]] = kv[1]
	}
	if len(e.OptKeys) > 0 && rapid.IntRange(0, 2).Draw(t, "optStyleOn") == 0 {
		// dpkg splits the items at /\s*,\s*/ and reads each as key=\s*value
		e.OptStyle = rapid.IntRange(1, 6).Draw(t, "optStyle")
	}
	var body strings.Builder
	body.WriteString(strings.Repeat("\n", rapid.SampledFrom([]int{1, 1, 1, 0, 2}).Draw(t, "blankAfterHeader")))
	nl := rapid.IntRange(0, 10).Draw(t, "nlines")
	for i := 0; i < nl; i++ {
		// the change text is verbatim: blanks at the end of a line and lines of nothing but blanks
		// are part of it
		tr := rapid.SampledFrom([]string{"", "", "", "", " ", "  ", "\t"}).Draw(t, "ltrail")
		switch rapid.IntRange(0, 10).Draw(t, "lk") {
		case 10:
			body.WriteString(rapid.SampledFrom([]string{" ", "  ", "   ", " \t"}).Draw(t, "wsline") + "\n")
		case 0:
			body.WriteString("\n")
		case 1:
			body.WriteString("  [ " + strings.Fields(rapid.SampledFrom(personNames).Draw(t, "sect"))[0] + " ]\n")
		case 2, 3:
			body.WriteString("    " + genLineText(t, "cont", false) + tr + "\n")
		case 4:
			body.WriteString("  * Closes: #" + itoa(rapid.IntRange(1, 999999).Draw(t, "bug")) + " -- really; urgency=none (1.0)\n")
		default:
			body.WriteString("  * " + genLineText(t, "item", false) + tr + "\n")
		}
	}
	body.WriteString(strings.Repeat("\n", rapid.SampledFrom([]int{1, 1, 1, 0, 2}).Draw(t, "blankBeforeTrailer")))
	e.Body = body.String()
	e.Who = rapid.SampledFrom(personNames).Draw(t, "who")
	if rapid.IntRange(0, 7).Draw(t, "whoDouble") == 0 {
		// two blanks inside the name, or in front of the address: the date begins after ">  "
		e.Who = rapid.SampledFrom([]string{"John  Doe <j@d.org>", "Jane Roe  <jane@roe.example>", "A  B  C <abc@x.y>",
			// ... a comma in the name (the date has one too, behind the weekday); no weekday or month names,
			// which the malformed-date classes look for by text
			"Vila, Santiago <sanvila@debian.org>", "Doe, John,Jr. <j@d.org>", "A,B <a@b.c>", "Key, M <m@k.org>", "x,y,z <w@p.org>", ",a <c@d.e>"}).Draw(t, "whoD")
	}
	e.Unix = int64(rapid.Int64Range(0, 4102444800).Draw(t, "unix"))
	e.OffMin = rapid.SampledFrom([]int{0, 0, 60, 120, -300, -420, 330, 345, 570, -720, 840, -210, 1, 765, 825}).Draw(t, "off") // (765 / 825: the two offsets of Pacific/Chatham, the zone of the ambient pass)
	if !first {
		e.Gap = rapid.IntRange(1, 3).Draw(t, "gap")
	} else {
		e.Gap = rapid.SampledFrom([]int{0, 0, 0, 1}).Draw(t, "gap0")
	}
	if e.Gap > 0 && rapid.IntRange(0, 5).Draw(t, "gapws") == 0 {
		e.GapLines = []string{}
		for i := 0; i < e.Gap; i++ {
			e.GapLines = append(e.GapLines, rapid.SampledFrom([]string{"", " ", "  ", "\t", " \t", "# a comment line", "#", "# vim: set ft=debchangelog:", "/* an old-style comment */", "$Id: changelog,v 1.2 2006/01/02 15:04:05 joe Exp $"}).Draw(t, "gapl"))
		}
	}
	e.DayStyle = rapid.SampledFrom([]string{"", "", "", "1", "_", ",", ",,"}).Draw(t, "daystyle")
	return e
}

func genClDoc(t *rapid.T) ClDoc {
	n := rapid.SampledFrom([]int{1, 1, 2, 2, 3, 4, 6}).Draw(t, "n")
	d := ClDoc{FinalNewline: rapid.IntRange(0, 3).Draw(t, "final") != 0}
	for i := 0; i < n; i++ {
		e := genClEntry(t, i == 0)
		if i > 0 && rapid.IntRange(0, 3).Draw(t, "likePrev") == 0 {
			// uploads in quick succession: same source, same maintainer, same timestamp, maybe same version / body
			p := d.Entries[i-1]
			e.Source, e.Who, e.Unix, e.OffMin = p.Source, p.Who, p.Unix, p.OffMin
			switch rapid.IntRange(0, 2).Draw(t, "alsoSame") {
			case 0:
				e.Version = p.Version
			case 1:
				e.Body = p.Body
			}
		}
		d.Entries = append(d.Entries, e)
	}
	if d.FinalNewline {
		d.Trailing = rapid.SampledFrom([]int{0, 0, 1, 2}).Draw(t, "trailing")
		d.Footer = rapid.IntRange(0, 3).Draw(t, "footer") == 0
	}
	return d
}

func clEntryMatches(got changelog.ChangelogEntry, e ClEntry, i int) error {
	if got.Source != e.Source {
		return errf("entry %d: source %q, want %q", i, got.Source, e.Source)
	}
	if partsOf(got.Version) != wfParts(e.Version) {
		return errf("entry %d: version %#v, want %+v", i, got.Version, wfParts(e.Version))
	}
	if got.Target != strings.Join(e.Dists, " ") {
		return errf("entry %d: target %q, want %q", i, got.Target, strings.Join(e.Dists, " "))
	}
	if len(got.Arguments) != len(e.Opts) {
		return errf("entry %d: options %v, want %v", i, got.Arguments, e.Opts)
	}
	for k, v := range e.Opts {
		if got.Arguments[k] != v {
			return errf("entry %d: option %q = %q, want %q (all: %v)", i, k, got.Arguments[k], v, got.Arguments)
		}
	}
	if got.Changelog != e.Body {
		return errf("entry %d: change text %q, want %q", i, got.Changelog, e.Body)
	}
	if got.ChangedBy != e.Who {
		return errf("entry %d: maintainer %q, want %q", i, got.ChangedBy, e.Who)
	}
	want := clWhen(e)
	_, goff := got.When.Zone()
	if !got.When.Equal(want) || goff != e.OffMin*60 {
		return errf("entry %d: timestamp %v (offset %ds), want %v (offset %ds)", i, got.When, goff, want, e.OffMin*60)
	}
	return nil
}

func entriesMatch(got changelog.ChangelogEntries, want []ClEntry) error {
	if len(got) != len(want) {
		return errf("%d entries returned, %d written", len(got), len(want))
	}
	for i := range want {
		if err := clEntryMatches(got[i], want[i], i); err != nil {
			return err
		}
	}
	return nil
}

var specC17Model = Register(&Spec[ClDoc]{
	Prop: "C17", Name: "model",
	Rule: "changelogs rendered from an entry-list model: 1..6 entries; source [a-z0-9][a-z0-9+.-]+, Policy-grammar version, 1..3 distributions, 0..3 key=value options (joined by ', ' - in a third of the headers by ',', ',  ', ' , ', a comma and a tab, with a blank behind '=' or blanks at the end of the line: dpkg splits at /\\s*,\\s*/ and reads key=\\s*value), body of blank lines after the header, '  * item', deeper continuation, '  [ Name ]', blank lines, lines of blanks only, lines ending in blanks or a tab, and lines containing ' -- ', ';', '(' in the middle, blank lines before the trailer; maintainer 'Name <mail>' (one in eight with two blanks inside or a comma in the name - 'Vila, Santiago', 'A,B'); timestamp from a generated instant and zone offset (-12:00..+14:00 incl. half/quarter hours, +00:01 and the winter and summer offsets of the ambient pass's own zone, +12:45 / +13:45) rendered like date -R, or with the day's leading zero left out or replaced by a blank (Policy allows a one-digit day); 0..3 blank lines between entries, in 1/6 of the cases carrying blanks or a tab (dpkg reads ^\\s*$ as blank) or being '#', '/* */' or '$Keyword: $' lines, which the format says are ignored; final newline present or absent; trailing blank lines, in a quarter of the cases followed by the two-line '# Older entries have been removed ...' footer of a trimmed changelog. Oracle: changelog.Parse returns one entry per block in order with Source, Version (parts), Target (distributions joined by one blank), Arguments, Changelog == exact bytes between header and trailer line, ChangedBy, When equal as instant AND zone offset; ParseOne returns the first; parsing the same text again right after three failing parses (document cut inside a body, trailer without date) gives the same entries; when the source FAILS (an error other than io.EOF) right behind a complete entry that is not the last, Parse returns an error - not the entries so far. Non-trivial: >= 2 entries, >= 2 options, or no final newline; distinct by text.",
	Check: func(d ClDoc, r *Recorder) error {
		text := renderClDoc(d)
		nt := len(d.Entries) >= 2 || !d.FinalNewline
		cl := []string{}
		for _, e := range d.Entries {
			if len(e.Opts) >= 2 {
				nt = true
				cl = append(cl, "multi-option")
			}
			if len(e.Dists) >= 2 {
				cl = append(cl, "multi-dist")
			}
		}
		if !d.FinalNewline {
			cl = append(cl, "no-final-newline")
		}
		r.Case(text, nt, cl...)
		if nt {
			r.Sample(text)
		}
		got, err := changelog.Parse(strings.NewReader(text))
		if err != nil {
			return errf("Parse rejected a well-formed changelog %q: %v", text, err)
		}
		if err := entriesMatch(got, d.Entries); err != nil {
			return errf("%v (changelog %q)", err, text)
		}
		// the outcome depends on the input only: the same document parsed right after failed
		// parses (cut inside a body, damaged trailer) must give the same entries
		h0, b0, _ := renderClEntry(d.Entries[0])
		for _, poison := range []string{h0 + b0, h0 + b0 + " -- nobody\n", h0 + "  * left over\n" + b0[:len(b0)/2]} {
			_, _ = changelog.Parse(strings.NewReader(poison))
		}
		again, err := changelog.Parse(strings.NewReader(text))
		if err != nil {
			return errf("Parse rejected %q when it was parsed again after failed parses: %v", text, err)
		}
		if err := entriesMatch(again, d.Entries); err != nil {
			return errf("after failed parses of other input: %v (changelog %q)", err, text)
		}
		for name, mk := range oddReaders {
			g, err := changelog.Parse(mk(strings.NewReader(text)))
			if err != nil {
				return errf("Parse over a %s rejected a well-formed changelog %q: %v", name, text, err)
			}
			if err := entriesMatch(g, d.Entries); err != nil {
				return errf("Parse over a %s: %v (changelog %q)", name, err, text)
			}
		}
		// a source that fails (not: ends) after a complete entry - a truncated gzip stream, a dropped
		// connection - has not delivered the changelog: the entries so far with a nil error would be
		// a silently shortened list
		if len(d.Entries) >= 2 {
			broken := errors.New("verif: the source broke")
			for p := 1; p < len(text); p++ {
				if text[p-1] != '\n' {
					continue
				}
				ls := strings.LastIndex(text[:p-1], "\n") + 1
				if !strings.HasPrefix(text[ls:p], " -- ") {
					continue
				}
				rest := strings.TrimLeft(text[p:], "\n")
				if !strings.Contains(rest, "\n -- ") {
					break // the last entry's trailer: everything has been delivered
				}
				for _, cut := range []int{p, len(text) - len(rest)} {
					g, err := changelog.Parse(io.MultiReader(strings.NewReader(text[:cut]), iotest.ErrReader(broken)))
					if err == nil {
						return errf("the source failed with %q after %d of %d bytes (right behind a complete entry), Parse returned %d of %d entries and no error (changelog %q)", broken, cut, len(text), len(g), len(d.Entries), text)
					}
				}
			}
		}
		// the file-based entry points see the same entries
		if len(text)%3 == 0 {
			if f, ferr := os.CreateTemp(workDir(), "c17-*.changelog"); ferr == nil {
				f.WriteString(text)
				f.Close()
				fromFile, err := changelog.ParseFile(f.Name())
				firstFromFile, err1 := changelog.ParseFileOne(f.Name())
				os.Remove(f.Name())
				if err != nil {
					return errf("ParseFile rejected a well-formed changelog %q: %v", text, err)
				}
				if err := entriesMatch(fromFile, d.Entries); err != nil {
					return errf("ParseFile: %v (changelog %q)", err, text)
				}
				if err1 != nil || firstFromFile == nil {
					return errf("ParseFileOne failed on %q: %v", text, err1)
				}
				if err := clEntryMatches(*firstFromFile, d.Entries[0], 0); err != nil {
					return errf("ParseFileOne: %v", err)
				}
			}
		}
		// ... also when the path names a pipe rather than a regular file (size unknown in advance)
		if len(text)%7 == 0 {
			if dir, derr := os.MkdirTemp(workDir(), "c17fifo"); derr == nil {
				fifo := dir + "/changelog.fifo"
				if syscall.Mkfifo(fifo, 0o600) == nil {
					go func() {
						if w, err := os.OpenFile(fifo, os.O_WRONLY, 0); err == nil {
							w.WriteString(text)
							w.Close()
						}
					}()
					type res struct {
						es  changelog.ChangelogEntries
						err error
					}
					ch := make(chan res, 1)
					go func() { es, err := changelog.ParseFile(fifo); ch <- res{es, err} }()
					select {
					case rr := <-ch:
						if rr.err != nil {
							os.RemoveAll(dir)
							return errf("ParseFile on a named pipe rejected a well-formed changelog: %v", rr.err)
						}
						if err := entriesMatch(rr.es, d.Entries); err != nil {
							os.RemoveAll(dir)
							return errf("ParseFile on a named pipe: %v (changelog %q)", err, text)
						}
					case <-time.After(30 * time.Second):
						// unblock a writer that nobody read from, then report
						if rd, err := os.OpenFile(fifo, os.O_RDONLY|syscall.O_NONBLOCK, 0); err == nil {
							rd.Close()
						}
						os.RemoveAll(dir)
						return errf("ParseFile on a named pipe did not return within 30 s")
					}
				}
				os.RemoveAll(dir)
			}
		}
		one, err := changelog.ParseOne(bufio.NewReader(strings.NewReader(text)))
		if err != nil || one == nil {
			return errf("ParseOne failed on %q: %v", text, err)
		}
		if err := clEntryMatches(*one, d.Entries[0], 0); err != nil {
			return errf("ParseOne: %v", err)
		}
		return nil
	},
})

func TestC17_Model(t *testing.T) {
	specC17Model.Run(t, genClDoc, 10000, 60000)
}

// ------------------------------------------------------------------ every prefix

type ClPrefix struct {
	Doc ClDoc `json:"doc"`
	Cut int   `json:"cut"`
}

func checkClPrefix(c ClPrefix, r *Recorder) error {
	full := renderClDoc(c.Doc)
	if c.Cut < 0 || c.Cut > len(full) {
		return nil
	}
	prefix := full[:c.Cut]
	// entries whose trailer line (newline included) lies inside the prefix
	k, pos := 0, 0
	ends := []int{}
	{
		off := 0
		for _, e := range c.Doc.Entries {
			h, b, tr := renderClEntry(e)
			off += len(gapText(e)) + len(h) + len(b) + len(tr)
			ends = append(ends, off)
		}
	}
	for _, end := range ends {
		if end <= c.Cut {
			k++
			pos = end
		}
	}
	rest := prefix[pos:]
	inside := false // does anything but blank lines and '#' comment lines follow the last complete entry?
	for _, l := range strings.Split(rest, "\n") {
		t := strings.Trim(l, "\n\r\t ")
		ignored := strings.HasPrefix(l, "#") || (strings.HasPrefix(l, "/*") && strings.HasSuffix(t, "*/")) || (strings.HasPrefix(l, "$") && strings.HasSuffix(t, "$") && strings.Contains(t, ":"))
		if t != "" && !ignored {
			inside = true
		}
	}
	r.Case(prefix, inside, map[bool]string{true: "cut-inside-entry", false: "cut-at-boundary"}[inside])
	if inside && c.Cut%97 == 0 {
		r.Sample(prefix)
	}
	got, err := changelog.Parse(strings.NewReader(prefix))
	if !inside {
		if err != nil {
			return errf("prefix holding %d complete entries and only blank lines after them was rejected: %v (prefix %q)", k, err, prefix)
		}
		if e := entriesMatch(got, c.Doc.Entries[:k]); e != nil {
			return errf("prefix with %d complete entries: %v (prefix %q)", k, e, prefix)
		}
		return nil
	}
	if err != nil {
		return nil // an error is the honest answer for input that ends inside an entry
	}
	// no error: then nothing may be missing
	if len(got) == k+1 && k < len(c.Doc.Entries) {
		if e := entriesMatch(got, c.Doc.Entries[:k+1]); e == nil {
			return nil // only the final newline was missing
		}
	}
	return errf("input ends inside entry %d but Parse returned %d entries and no error: silently shortened (prefix %q)", k+1, len(got), prefix)
}

var specC17Prefix = Register(&Spec[ClPrefix]{
	Prop: "C17", Name: "prefix",
	Rule:  "EVERY prefix (cut point) of generated changelogs. With k = number of entries whose trailer line incl. newline lies inside the prefix: if only blank lines follow them the result must be exactly those k entries and no error; otherwise the result must be an error, or k+1 entries the last of which equals the model (possible only when just the final newline is missing) - never k entries without an error. Non-trivial: the cut lies inside an entry; distinct by prefix text.",
	Check: checkClPrefix,
})

func TestC17_PrefixExh(t *testing.T) {
	n := pickN(40, 600)
	var docs []ClDoc
	sink := &Spec[ClDoc]{Check: func(d ClDoc, r *Recorder) error { docs = append(docs, d); return nil }}
	rapidCollect(t, sink, func(t *rapid.T) ClDoc {
		d := genClDoc(t)
		if len(d.Entries) > 3 {
			d.Entries = d.Entries[:3]
		}
		d.FinalNewline = true
		return d
	}, n)
	specC17Prefix.Enumerate(t, true, func(_ *Recorder, yield func(ClPrefix) bool) {
		for _, d := range docs {
			full := renderClDoc(d)
			for cut := 0; cut <= len(full); cut++ {
				if !yield(ClPrefix{Doc: d, Cut: cut}) {
					return
				}
			}
		}
	})
}

// ------------------------------------------------------------------ malformed

type ClBad struct {
	Doc   ClDoc  `json:"doc"`
	Text  string `json:"text"`
	Class string `json:"class"`
}

func genClBad(t *rapid.T) ClBad {
	d := genClDoc(t)
	d.FinalNewline = true
	i := rapid.IntRange(0, len(d.Entries)-1).Draw(t, "which")
	class := rapid.SampledFrom([]string{"header-no-open-paren", "header-no-close-paren", "header-indented", "bad-version", "trailer-single-space", "bad-month", "day-out-of-range", "unindented-body-line", "trailer-no-date", "bad-zone", "stray-line-at-heading"}).Draw(t, "class")
	var sb strings.Builder
	for j, e := range d.Entries {
		sb.WriteString(gapText(e))
		h, b, tr := renderClEntry(e)
		if j == i {
			switch class {
			case "stray-line-at-heading":
				// a line where a heading is due that is none - and no complete ignorable line either: half
				// a comment, half a keyword, an editor's mode line. Whatever is made of it, the entries
				// behind it do not silently go missing
				h = rapid.SampledFrom([]string{"/* unclosed comment", "/*", "*/", "$Id", "$", "$ ", "#!", ";; Local variables:", "vim: set ts=8:", "Old Changelog:", "-- ", "("}).Draw(t, "stray") + "\n" + h
			case "header-indented":
				// a heading that got a blank (or two, or a tab) in front: not a heading any more
				h = rapid.SampledFrom([]string{" ", "  ", "\t", " \t"}).Draw(t, "hind") + h
			case "header-no-open-paren":
				h = strings.Replace(h, "(", "", 1)
			case "header-no-close-paren":
				h = strings.Replace(h, ")", "", 1)
			case "bad-version":
				h = strings.Replace(h, "("+e.Version.canonical()+")", "("+rapid.SampledFrom([]string{"a.b", "1 2", "", "1:", "x"}).Draw(t, "bv")+")", 1)
			case "trailer-single-space":
				tr = strings.Replace(tr, ">  ", "> ", 1)
			case "bad-month":
				tr = strings.Replace(tr, clWhen(e).Format(" Jan "), " Foo ", 1)
			case "day-out-of-range":
				tm := clWhen(e)
				tr = fmt.Sprintf(" -- %s  %s\n", e.Who, tm.Format("Mon, ")+"32"+tm.Format(" Jan 2006 15:04:05 -0700"))
			case "unindented-body-line":
				b = b + "oops this line is not indented\n"
			case "trailer-no-date":
				tr = " -- " + e.Who + "  \n"
			case "bad-zone":
				tr = strings.TrimSuffix(tr, "\n")
				tr = tr[:len(tr)-5] + "UTC\n"
			}
		}
		sb.WriteString(h + b + tr)
	}
	return ClBad{Doc: d, Text: sb.String(), Class: class}
}

var specC17Malformed = Register(&Spec[ClBad]{
	Prop: "C17", Name: "malformed",
	Rule: "one entry of a generated changelog is damaged in one way: header without '(' or without ')', header pushed in by a blank or tab, unparsable version, trailer with a single space before the date, month 'Foo', day 32, an unindented body line, trailer without date, zone written 'UTC', a stray line where a heading is due ('/*' without '*/', '$Id', a lone '$', an editor's mode line, 'Old Changelog:'). Oracle: Parse returns an error, or all entries of the model - never fewer entries without an error. Every case is non-trivial; distinct by text.",
	Check: func(c ClBad, r *Recorder) error {
		r.Case(c.Text, true, "malformed:"+c.Class)
		r.Sample(map[string]string{"class": c.Class, "text": c.Text})
		got, err := changelog.Parse(strings.NewReader(c.Text))
		if err != nil {
			if len(got) != 0 {
				return errf("Parse returned an error AND %d entries", len(got))
			}
			return nil
		}
		if e := entriesMatch(got, c.Doc.Entries); e != nil {
			return errf("%s: Parse returned %d entries without an error, but not the written ones: %v (text %q)", c.Class, len(got), e, c.Text)
		}
		return nil
	},
})

func TestC17_Malformed(t *testing.T) {
	specC17Malformed.Run(t, genClBad, 10000, 60000)
}

// ------------------------------------------------------------------ generator soundness vs dpkg-parsechangelog

var specC17Guard = Register(&Spec[ClDoc]{
	Prop: "C17", Name: "dpkgguard",
	Rule:  "generated changelogs (C17/model generator, final newline present) are first shown to dpkg-parsechangelog --all: documents it rejects or warns about are dropped and counted as guard_rejected (generator soundness); the rest is decided by the C17/model oracle. The dpkg verdict is only a filter, so replay needs no dpkg.",
	Check: func(d ClDoc, r *Recorder) error { return specC17Model.Check(d, r) },
})

func TestC17_DpkgGuardExt(t *testing.T) {
	if !haveTool("dpkg-parsechangelog") {
		t.Skip("dpkg-parsechangelog not available")
	}
	n := pickN(25, 400)
	var docs []ClDoc
	sink := &Spec[ClDoc]{Check: func(d ClDoc, r *Recorder) error { docs = append(docs, d); return nil }}
	rapidCollect(t, sink, func(t *rapid.T) ClDoc { d := genClDoc(t); d.FinalNewline = true; return d }, n)
	specC17Guard.Enumerate(t, false, func(r *Recorder, yield func(ClDoc) bool) {
		for _, d := range docs {
			f, err := os.CreateTemp(workDir(), "c17-*.changelog")
			if err != nil {
				return
			}
			f.WriteString(renderClDoc(d))
			f.Close()
			cmd := exec.Command("dpkg-parsechangelog", "-l", f.Name(), "--all", "--format", "rfc822")
			var stderr bytes.Buffer
			cmd.Stderr = &stderr
			out, err := cmd.Output()
			os.Remove(f.Name())
			if err != nil || stderr.Len() > 0 || strings.Count(string(out), "\nVersion: ")+strings.Count(string(out[:min(9, len(out))]), "Version: ") == 0 {
				r.Count("guard_rejected", 1)
				if stderr.Len() > 0 && r != nil {
					r.Count("guard_rejected_with_warning", 1)
				}
				continue
			}
			if !yield(d) {
				return
			}
		}
	})
}

// ------------------------------------------------------------------ I/O buffer edges

var specC17Edge = Register(&Spec[ClDoc]{
	Prop: "C17", Name: "bufferedge",
	Rule: "bounded-exhaustive over buffer alignment: for a few generated changelogs with >= 2 entries, a padding change line '  * xxxx...' is added to the first entry with a length chosen so that each line boundary of the document in turn lands at 4096-1, 4096, 4096+1, 8192-1, 8192, 8192+1 bytes from the start (changelog.Parse reads through a 4096-byte bufio.Reader). Oracle as C17/model. Non-trivial: every case; distinct by text.",
	Check: func(d ClDoc, r *Recorder) error {
		text := renderClDoc(d)
		r.Case(text, true)
		if len(text)%53 == 0 {
			r.Sample(map[string]interface{}{"bytes": len(text), "entries": len(d.Entries)})
		}
		got, err := changelog.Parse(strings.NewReader(text))
		if err != nil {
			return errf("Parse rejected a well-formed changelog of %d bytes: %v", len(text), err)
		}
		if err := entriesMatch(got, d.Entries); err != nil {
			return errf("changelog of %d bytes (first entry %d bytes): %v", len(text), len(d.Entries[0].Body), err)
		}
		return nil
	},
})

func TestC17_BufferEdgeExh(t *testing.T) {
	n := pickN(3, 20)
	var docs []ClDoc
	sink := &Spec[ClDoc]{Check: func(d ClDoc, r *Recorder) error { docs = append(docs, d); return nil }}
	rapidCollect(t, sink, func(t *rapid.T) ClDoc {
		for {
			d := genClDoc(t)
			if len(d.Entries) >= 2 {
				if len(d.Entries) > 3 {
					d.Entries = d.Entries[:3]
				}
				return d
			}
		}
	}, n)
	withPad := func(d ClDoc, pad int) ClDoc {
		out := d
		out.Entries = append([]ClEntry{}, d.Entries...)
		e := out.Entries[0]
		e.Body = "  * " + strings.Repeat("x", pad) + "\n" + e.Body
		out.Entries[0] = e
		return out
	}
	specC17Edge.Enumerate(t, true, func(_ *Recorder, yield func(ClDoc) bool) {
		for _, d := range docs {
			zero := renderClDoc(withPad(d, 0))
			for pos := 0; pos < len(zero); pos++ {
				if zero[pos] != '\n' {
					continue
				}
				end := pos + 1
				for _, mark := range []int{4096, 8192} {
					for dd := -1; dd <= 1; dd++ {
						pad := mark + dd - end
						if pad < 1 {
							continue
						}
						if !yield(withPad(d, pad)) {
							return
						}
					}
				}
			}
		}
	})
}
