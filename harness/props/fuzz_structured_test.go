package props

import (
	"testing"

	"pgregory.net/rapid"
)

// Structured native fuzz targets (thorough tier): the rapid generators of the
// main sub-checks driven by go's coverage-guided fuzzer.

func FuzzC04_Random(f *testing.F)    { specC04Random.FuzzWith(f, genDepCase) }
func FuzzC04_Malformed(f *testing.F) { specC04Malformed.FuzzWith(f, genBadDep) }
func FuzzC07_Model(f *testing.F) {
	specC07Model.FuzzWith(f, func(t *rapid.T) DocCase { return genDocCase(t, 4) })
}
func FuzzC08_Write(f *testing.F) { specC08Write.FuzzWith(f, genWriteCase) }
func FuzzC08_Cycle(f *testing.F) {
	specC08Cycle.FuzzWith(f, func(t *rapid.T) DocCase { return genDocCase(t, 3) })
}
func FuzzC09_PassThrough(f *testing.F) { specC09Pass.FuzzWith(f, genPassCase) }
func FuzzC09_Lists(f *testing.F)       { specC09Lists.FuzzWith(f, genListsCase) }
func FuzzC10_Typed(f *testing.F)       { specC10.FuzzWith(f, genTypedDoc) }
func FuzzC13_Members(f *testing.F)     { specC13.FuzzWith(f, genArCase) }
func FuzzC15_Corrupt(f *testing.F)     { specC15Corrupt.FuzzWith(f, genCorruptArchive) }
func FuzzC17_Model(f *testing.F)       { specC17Model.FuzzWith(f, genClDoc) }
func FuzzC17_Malformed(f *testing.F)   { specC17Malformed.FuzzWith(f, genClBad) }
func FuzzC19_Order(f *testing.F)       { specC19.FuzzWith(f, genOrderCase) }
func FuzzC01_Model(f *testing.F)       { specC01Model.FuzzWith(f, genVerPair) }
func FuzzC02_Laws(f *testing.F)        { specC02Laws.FuzzWith(f, genTriple) }
func FuzzC06_Select(f *testing.F)      { specC06Select.FuzzWith(f, genSelectCase) }
func FuzzC06_Satisfied(f *testing.F)   { specC06Sat.FuzzWith(f, genSatCase) }
func FuzzC12_Verify(f *testing.F)      { specC12Verify.FuzzWith(f, genVerifyCase) }
