#!/usr/bin/env python3
"""Evaluate independently written breaking changes kept under seeded/<id>/.

For each seeded/<id>/ (patch.diff, demo test, meta.json):
  1. scratch copy of /repo + patch: builds, repository suite passes
  2. demo test fails with the patch and passes without it
  3. ./check <property> <tier> against the patched copy (VERIF_REPO_DIR): red?
usage: tools/seeded.py [-k regex] [--tier quick|thorough] [--confirm-only]
Scratch copies live under /tmp/vseed-* and are removed straight away.
"""
import argparse, glob, json, os, re, shutil, subprocess, sys, time

ROOT = os.path.dirname(os.path.dirname(os.path.abspath(__file__)))
ENV = dict(os.environ, GOFLAGS="-mod=mod", GOPROXY="off", GOSUMDB="off", GOTOOLCHAIN="local")


def sh(cmd, cwd, env=ENV, timeout=3600):
    p = subprocess.run(cmd, cwd=cwd, env=env, stdout=subprocess.PIPE, stderr=subprocess.STDOUT, text=True, timeout=timeout)
    return p.returncode, p.stdout


def copy_repo(tag):
    d = "/tmp/vseed-%s-%d" % (tag, os.getpid())
    shutil.rmtree(d, ignore_errors=True)
    shutil.copytree("/repo", d, ignore=shutil.ignore_patterns(".git"))
    return d


def evaluate(sd, tier, confirm_only):
    meta = json.load(open(os.path.join(sd, "meta.json")))
    name = os.path.basename(sd)
    res = {"id": name, "property": meta["property"]}
    if meta.get("retired"):
        res["status"] = "RETIRED"
        res["detail"] = meta["retired"]
        return res
    demo = meta["demo_file"]
    demo_pkg = meta["demo_pkg_dir"]
    clean, patched = copy_repo(name + "-clean"), copy_repo(name + "-patched")
    try:
        rc, out = sh(["git", "apply", "--whitespace=nowarn", os.path.join(sd, "patch.diff")], patched)
        if rc != 0:
            rc, out = sh(["patch", "-p1", "-i", os.path.join(sd, "patch.diff")], patched)
        if rc != 0:
            res["status"] = "PATCH-DOES-NOT-APPLY"
            res["detail"] = out[-400:]
            return res
        rc, out = sh(["go", "build", "./..."], patched)
        res["builds"] = rc == 0
        rc, out = sh(["go", "test", "-vet=off", "-count=1", "./..."], patched)
        res["suite_passes_with_change"] = rc == 0
        for d in (clean, patched):
            shutil.copy(os.path.join(sd, demo), os.path.join(d, demo_pkg, demo))
        rc_c, out_c = sh(["go", "test", "-vet=off", "-count=1", "-run", meta.get("demo_run", "."), "./" + demo_pkg], clean)
        rc_p, out_p = sh(["go", "test", "-vet=off", "-count=1", "-run", meta.get("demo_run", "."), "./" + demo_pkg], patched)
        res["demo_passes_without"] = rc_c == 0
        res["demo_fails_with"] = rc_p != 0
        os.remove(os.path.join(patched, demo_pkg, demo))
        if not confirm_only:
            checks = {}
            for prop in [meta["property"]] + meta.get("also_check", []):
                env = dict(ENV, VERIF_REPO_DIR=patched)
                t0 = time.time()
                rc, out = sh([os.path.join(ROOT, "check"), prop, tier], ROOT, env)
                first = next((l for l in out.splitlines() if l.startswith("VIOLATION")), "")
                detail = ""
                if first:
                    i = out.splitlines().index(first)
                    detail = " ".join(out.splitlines()[i + 1:i + 2])[:300]
                checks[prop] = {"rc": rc, "s": round(time.time() - t0, 1), "line": first, "detail": detail, "tail": out[-500:] if rc != 1 else ""}
            res["checks"] = checks
            res["caught"] = any(v["rc"] == 1 for v in checks.values())
        return res
    finally:
        shutil.rmtree(clean, ignore_errors=True)
        shutil.rmtree(patched, ignore_errors=True)


def main():
    ap = argparse.ArgumentParser()
    ap.add_argument("-k", default="")
    ap.add_argument("--tier", default="quick")
    ap.add_argument("--confirm-only", action="store_true")
    ap.add_argument("--json", default="")
    a = ap.parse_args()
    bad = 0
    allres = []
    for sd in sorted(glob.glob(os.path.join(ROOT, "seeded", "*"))):
        if not os.path.isdir(sd) or not re.search(a.k, os.path.basename(sd)):
            continue
        r = evaluate(sd, a.tier, a.confirm_only)
        allres.append(r)
        ok_confirm = r.get("builds") and r.get("suite_passes_with_change") and r.get("demo_passes_without") and r.get("demo_fails_with")
        line = "%-14s %s confirm=%s" % (r["id"], r["property"], "ok" if ok_confirm else "NO %s" % {k: r.get(k) for k in ("builds", "suite_passes_with_change", "demo_passes_without", "demo_fails_with", "status")})
        if "checks" in r:
            for p, v in r["checks"].items():
                line += "  %s:rc=%d(%.0fs)" % (p, v["rc"], v["s"])
            line += "  => %s" % ("caught" if r["caught"] else "MISSED")
            if not r["caught"]:
                bad += 1
        print(line, flush=True)
        for p, v in (r.get("checks") or {}).items():
            if v["rc"] == 1:
                print("      " + v["detail"])
            elif v["tail"]:
                print("      " + v["tail"].replace("\n", "\n      "))
    if a.json:
        for r in allres:
            for v in (r.get("checks") or {}).values():
                v.pop("tail", None)
        json.dump(allres, open(a.json, "w"), indent=1)
    return 1 if bad else 0


if __name__ == "__main__":
    sys.exit(main())
