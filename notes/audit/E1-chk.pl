use Dpkg::Version;
my ($n,$bad)=(0,0);
while(<STDIN>){ chomp; my($a,$b,$pa,$pb,$res)=split / /;
  my ($oka,$msga)=version_check($a); my ($okb,$msgb)=version_check($b);
  my $xa=$oka?"ok":"err"; my $xb=$okb?"ok":"err";
  if($xa ne $pa){print "PARSE $a go=$pa perl=$xa ($msga)\n";$bad++}
  if($xb ne $pb){print "PARSE $b go=$pb perl=$xb ($msgb)\n";$bad++}
  if($oka&&$okb&&$res ne "E"){ my $c=version_compare($a,$b); if($c!=$res){print "CMP $a $b go=$res perl=$c\n";$bad++}}
  $n++;
}
print "n=$n bad=$bad\n";
