package props

import (
	"bytes"
	"io"
	"strings"
	"testing"
	"testing/iotest"

	"pault.ag/go/debian/control"
	"pgregory.net/rapid"
)

type paraInner struct {
	control.Paragraph
}

type paraDeepHolder struct {
	paraInner
}

type paraHolder struct {
	control.Paragraph
}

func paraMatches(p control.Paragraph, w ParaWant) error {
	if len(p.Order) != len(w.Order) {
		return errf("field order %q, want %q", p.Order, w.Order)
	}
	for i := range w.Order {
		if p.Order[i] != w.Order[i] {
			return errf("field order %q, want %q", p.Order, w.Order)
		}
	}
	if len(p.Values) != len(w.Values) {
		return errf("%d values %q, want %d", len(p.Values), p.Values, len(w.Values))
	}
	for k, v := range w.Values {
		got, ok := p.Values[k]
		if !ok {
			return errf("field %q has no value", k)
		}
		if got != v {
			if alt, has := w.Alt[k]; has && got == alt {
				continue
			}
			return errf("field %q = %q, want %q", k, got, v)
		}
	}
	return nil
}

func parasMatch(got []control.Paragraph, want []ParaWant, how string) error {
	if len(got) != len(want) {
		return errf("%s returned %d paragraphs, want %d", how, len(got), len(want))
	}
	for i := range want {
		if err := paraMatches(got[i], want[i]); err != nil {
			return errf("%s paragraph %d: %v", how, i, err)
		}
	}
	return nil
}

func readAllWays(text string) (map[string][]control.Paragraph, error) {
	out := map[string][]control.Paragraph{}
	pr, err := control.NewParagraphReader(strings.NewReader(text), nil)
	if err != nil {
		return nil, errf("NewParagraphReader: %v", err)
	}
	all, err := pr.All()
	if err != nil {
		return nil, errf("All(): %v", err)
	}
	out["All()"] = all
	pr2, err := control.NewParagraphReader(strings.NewReader(text), nil)
	if err != nil {
		return nil, errf("NewParagraphReader: %v", err)
	}
	var nx []control.Paragraph
	for {
		p, err := pr2.Next()
		if err == io.EOF {
			break
		}
		if err != nil {
			return nil, errf("Next(): %v", err)
		}
		nx = append(nx, *p)
		if len(nx) > 10000 {
			return nil, errf("Next() does not terminate")
		}
	}
	out["Next() loop"] = nx
	var hs []paraHolder
	if err := control.Unmarshal(&hs, strings.NewReader(text)); err != nil {
		return nil, errf("Unmarshal(&[]T): %v", err)
	}
	us := []control.Paragraph{}
	for _, h := range hs {
		us = append(us, h.Paragraph)
	}
	out["Unmarshal(&[]T)"] = us
	dec, err := control.NewDecoder(strings.NewReader(text), nil)
	if err != nil {
		return nil, errf("NewDecoder: %v", err)
	}
	ds := []control.Paragraph{}
	for {
		var h paraHolder
		err := dec.Decode(&h)
		if err == io.EOF {
			break
		}
		if err != nil {
			return nil, errf("Decoder.Decode(&T): %v", err)
		}
		ds = append(ds, h.Paragraph)
		if len(ds) > 10000 {
			return nil, errf("Decode() does not terminate")
		}
	}
	out["Decoder.Decode(&T) loop"] = ds
	// the paragraph type itself is as good a slice element / target as a struct embedding it
	var direct []control.Paragraph
	if err := control.Unmarshal(&direct, strings.NewReader(text)); err != nil {
		return nil, errf("Unmarshal(&[]control.Paragraph): %v", err)
	}
	if direct == nil {
		direct = []control.Paragraph{}
	}
	out["Unmarshal(&[]control.Paragraph)"] = direct
	dec2, err := control.NewDecoder(strings.NewReader(text), nil)
	if err != nil {
		return nil, errf("NewDecoder: %v", err)
	}
	dp := []control.Paragraph{}
	for {
		var p control.Paragraph
		err := dec2.Decode(&p)
		if err == io.EOF {
			break
		}
		if err != nil {
			return nil, errf("Decoder.Decode(&control.Paragraph): %v", err)
		}
		dp = append(dp, p)
		if len(dp) > 10000 {
			return nil, errf("Decode() does not terminate")
		}
	}
	out["Decoder.Decode(&control.Paragraph) loop"] = dp
	// a slice of pointers is a slice like any other; and a slice that held something before is
	// filled with what the document says, not appended to
	var ptrs []*paraHolder
	if err := control.Unmarshal(&ptrs, strings.NewReader(text)); err != nil {
		return nil, errf("Unmarshal(&[]*T): %v", err)
	}
	pp := []control.Paragraph{}
	for _, h := range ptrs {
		if h == nil {
			return nil, errf("Unmarshal(&[]*T) left a nil element")
		}
		pp = append(pp, h.Paragraph)
	}
	out["Unmarshal(&[]*T)"] = pp
	// the Paragraph one level down, inside an embedded struct whose type name is not exported (a
	// package's own "common members" struct)
	var deep []paraDeepHolder
	if err := control.Unmarshal(&deep, strings.NewReader(text)); err != nil {
		return nil, errf("Unmarshal(&[]T) with the Paragraph embedded one level down: %v", err)
	}
	dd := []control.Paragraph{}
	for _, h := range deep {
		dd = append(dd, h.Paragraph)
	}
	out["Unmarshal(&[]T), Paragraph embedded one level down"] = dd
	var pptrs []*control.Paragraph
	if err := control.Unmarshal(&pptrs, strings.NewReader(text)); err != nil {
		return nil, errf("Unmarshal(&[]*control.Paragraph): %v", err)
	}
	ppp := []control.Paragraph{}
	for _, h := range pptrs {
		if h == nil {
			return nil, errf("Unmarshal(&[]*control.Paragraph) left a nil element")
		}
		ppp = append(ppp, *h)
	}
	out["Unmarshal(&[]*control.Paragraph)"] = ppp
	used := []paraHolder{{Paragraph: control.Paragraph{Order: []string{"Old"}, Values: map[string]string{"Old": "1"}}}, {}}
	if err := control.Unmarshal(&used, strings.NewReader(text)); err != nil {
		return nil, errf("Unmarshal(&[]T) into a used slice: %v", err)
	}
	up := []control.Paragraph{}
	for _, h := range used {
		up = append(up, h.Paragraph)
	}
	out["Unmarshal(&[]T) into a slice that held two elements"] = up
	// ... and what the variable held before is still the caller's: a slice variable decoded into
	// twice, the first result kept (same backing array if the decoder re-used it)
	var twice []paraHolder
	other := "Keep: 1\nAlso: x\n\nKeep: 2\n\nKeep: 3\n\nKeep: 4\n"
	if err := control.Unmarshal(&twice, strings.NewReader(other)); err != nil || len(twice) != 4 {
		return nil, errf("Unmarshal(&[]T) of a four-paragraph document: %d elements, %v", len(twice), err)
	}
	keptFirst := twice
	if err := control.Unmarshal(&twice, strings.NewReader(text)); err != nil {
		return nil, errf("Unmarshal(&[]T) into the same variable again: %v", err)
	}
	for i, h := range keptFirst {
		if h.Paragraph.Values["Keep"] != string(rune('1'+i)) || (i == 0) != (len(h.Paragraph.Order) == 2) {
			return nil, errf("after decoding another document into the same slice variable, element %d of the result the caller kept from the first decode reads %q (Order %q)", i, h.Paragraph.Values, h.Paragraph.Order)
		}
	}
	tw := []control.Paragraph{}
	for _, h := range twice {
		tw = append(tw, h.Paragraph)
	}
	out["Unmarshal(&[]T) into a variable decoded into before"] = tw
	// one reader / decoder asked in different ways in turn: the first paragraph on its own, the
	// rest in one go
	pr3, err := control.NewParagraphReader(strings.NewReader(text), nil)
	if err != nil {
		return nil, errf("NewParagraphReader: %v", err)
	}
	mixed := []control.Paragraph{}
	if p, err := pr3.Next(); err == nil {
		mixed = append(mixed, *p)
		rest, err := pr3.All()
		if err != nil {
			return nil, errf("All() after one Next(): %v", err)
		}
		mixed = append(mixed, rest...)
	} else if err != io.EOF {
		return nil, errf("Next(): %v", err)
	}
	out["Next() then All()"] = mixed
	dec3, err := control.NewDecoder(strings.NewReader(text), nil)
	if err != nil {
		return nil, errf("NewDecoder: %v", err)
	}
	dm := []control.Paragraph{}
	var first paraHolder
	if err := dec3.Decode(&first); err == nil {
		dm = append(dm, first.Paragraph)
		var rest []paraHolder
		if err := dec3.Decode(&rest); err != nil {
			return nil, errf("Decode(&[]T) after one Decode(&T): %v", err)
		}
		for _, h := range rest {
			dm = append(dm, h.Paragraph)
		}
	} else if err != io.EOF {
		return nil, errf("Decoder.Decode(&T): %v", err)
	}
	out["Decode(&T) then Decode(&[]T)"] = dm
	// one Paragraph variable, declared once and decoded into paragraph after paragraph (the usual
	// way of walking an index); it held something before the first call
	dec4, err := control.NewDecoder(strings.NewReader(text), nil)
	if err != nil {
		return nil, errf("NewDecoder: %v", err)
	}
	one := control.Paragraph{Order: []string{"Old"}, Values: map[string]string{"Old": "1"}}
	ov := []control.Paragraph{}
	for {
		err := dec4.Decode(&one)
		if err == io.EOF {
			break
		}
		if err != nil {
			return nil, errf("Decoder.Decode(&p) into a variable used before: %v", err)
		}
		cp := control.Paragraph{Order: append([]string{}, one.Order...), Values: map[string]string{}}
		for k, v := range one.Values {
			cp.Values[k] = v
		}
		ov = append(ov, cp)
		if len(ov) > 10000 {
			return nil, errf("Decode() does not terminate")
		}
	}
	out["Decoder.Decode(&p) loop into one variable"] = ov
	// a reader that has reported the end goes on reporting it, whatever other readers do meanwhile:
	// pr2 (at its end) is asked again while two new readers over the same text are read in turn
	prB, err := control.NewParagraphReader(strings.NewReader(text), nil)
	if err != nil {
		return nil, errf("NewParagraphReader: %v", err)
	}
	atEnd := func(when string) error {
		if p, err := pr2.Next(); err != io.EOF || p != nil {
			return errf("a reader that had reported io.EOF, asked again %s, returned (%v, %v)", when, p, err)
		}
		return nil
	}
	if err := atEnd("after a second reader was created"); err != nil {
		return nil, err
	}
	if err := atEnd("a second time"); err != nil {
		return nil, err
	}
	prC, err := control.NewParagraphReader(strings.NewReader(text), nil)
	if err != nil {
		return nil, errf("NewParagraphReader: %v", err)
	}
	var bs, cs []control.Paragraph
	for doneB, doneC := false, false; !doneB || !doneC; {
		if !doneB {
			p, err := prB.Next()
			if err == io.EOF {
				doneB = true
			} else if err != nil {
				return nil, errf("Next() of the second of three readers: %v", err)
			} else {
				bs = append(bs, *p)
			}
		}
		if err := atEnd("while two other readers were being read"); err != nil {
			return nil, err
		}
		if !doneC {
			p, err := prC.Next()
			if err == io.EOF {
				doneC = true
			} else if err != nil {
				return nil, errf("Next() of the third of three readers: %v", err)
			} else {
				cs = append(cs, *p)
			}
		}
		if len(bs) > 10000 || len(cs) > 10000 {
			return nil, errf("Next() does not terminate")
		}
	}
	out["Next() loop of a second reader, read in turn with a third"] = bs
	out["Next() loop of a third reader, read in turn with the second"] = cs
	return out, nil
}

var specC07Model = Register(&Spec[DocCase]{
	Prop: "C07", Name: "model",
	Rule: "deb822 documents rendered from a model: 0..5 paragraphs of 1..6 uniquely named fields ([A-Za-z0-9][A-Za-z0-9_.+-]*), ':' + 0..3 blanks, first line text (possibly empty; may contain ':' '#' UTF-8) with trailing blanks, 0..6 continuation lines - one field in twelve hundred 150..300 of them, several KiB - (marker space or tab, then ' .' or freely indented text, trailing blanks), '#' comment lines at every kind of line boundary, 1..3 blank lines between paragraphs, 0..2 before/after, LF or CRLF, final newline present or absent. Oracle: All(), a Next() loop, Unmarshal(&[]T) and a Decoder.Decode(&T) loop (T a struct embedding control.Paragraph, and T = control.Paragraph itself), Unmarshal(&[]*T), Unmarshal(&[]*control.Paragraph) and Unmarshal(&[]T) with the Paragraph embedded one level down in a struct of unexported type name, Unmarshal into a slice variable that held two elements before, Unmarshal into a variable that was decoded into before (the earlier result, kept by the caller, must still read as it did), one Next() followed by All(), one Decode(&T) followed by Decode(&[]T) on the same decoder, a Decode loop into ONE control.Paragraph variable that held something before, and two further readers read in turn while the first - at its end - is asked again and again (io.EOF every time) all return exactly the model paragraphs, and so does All() when the source is a one-byte-at-a-time reader, a half reader or a reader that delivers its last data together with io.EOF: Order = names in file order, value = first line if no continuation else logical lines joined by newline + trailing newline (a kept empty first line is accepted too). Non-trivial: >= 2 paragraphs, a continuation, a comment inside a field, CRLF or no final newline; distinct by text.",
	Check: func(c DocCase, r *Recorder) error {
		nt := false
		for _, f := range c.Feats {
			switch f {
			case "multi-paragraph", "continuation", "comment-inside-field", "crlf", "no-final-newline":
				nt = true
			}
		}
		r.Case(c.Text, nt, c.Feats...)
		if nt {
			r.Sample(c.Text)
		}
		ways, err := readAllWays(c.Text)
		if err != nil {
			return errf("well-formed document %q: %v", c.Text, err)
		}
		for _, how := range []string{"All()", "Next() loop", "Unmarshal(&[]T)", "Decoder.Decode(&T) loop", "Unmarshal(&[]control.Paragraph)", "Decoder.Decode(&control.Paragraph) loop", "Next() then All()", "Decode(&T) then Decode(&[]T)", "Unmarshal(&[]*T)", "Unmarshal(&[]*control.Paragraph)", "Unmarshal(&[]T), Paragraph embedded one level down", "Unmarshal(&[]T) into a slice that held two elements", "Decoder.Decode(&p) loop into one variable", "Unmarshal(&[]T) into a variable decoded into before", "Next() loop of a second reader, read in turn with a third", "Next() loop of a third reader, read in turn with the second"} {
			if err := parasMatch(ways[how], c.Want, how); err != nil {
				return errf("document %q: %v", c.Text, err)
			}
		}
		// the source is any io.Reader: one byte at a time, half reads, data delivered together with EOF
		for name, mk := range oddReaders {
			pr, err := control.NewParagraphReader(mk(strings.NewReader(c.Text)), nil)
			if err != nil {
				return errf("NewParagraphReader over a %s: %v", name, err)
			}
			ps, err := pr.All()
			if err != nil {
				return errf("All() over a %s rejected well-formed document %q: %v", name, c.Text, err)
			}
			if err := parasMatch(ps, c.Want, "All() over a "+name); err != nil {
				return errf("document %q: %v", c.Text, err)
			}
		}
		return nil
	},
})

var oddReaders = map[string]func(io.Reader) io.Reader{
	"one-byte reader":      iotest.OneByteReader,
	"half reader":          iotest.HalfReader,
	"data-with-EOF reader": iotest.DataErrReader,
}

func TestC07_Model(t *testing.T) {
	specC07Model.Run(t, func(t *rapid.T) DocCase { return genDocCase(t, 5) }, 15000, 150000)
}

// ------------------------------------------------------------------ invariant on arbitrary input

type RawDoc struct {
	B []byte `json:"b"`
}

func checkParagraphInvariant(b []byte, r *Recorder) error {
	pr, err := control.NewParagraphReader(bytes.NewReader(b), nil)
	if err != nil {
		r.Case(string(b), false, "reader-error")
		return nil
	}
	var paras []control.Paragraph
	for {
		p, err := pr.Next()
		if err != nil {
			break // io.EOF or a parse error: paragraphs returned so far still count
		}
		if p == nil {
			return errf("Next() returned (nil, nil) on %q", b)
		}
		paras = append(paras, *p)
		if len(paras) > len(b)+2 {
			return errf("Next() returned more paragraphs than input bytes on %q", b)
		}
	}
	r.Case(string(b), len(paras) > 0, errf("paragraphs:%d", min(len(paras), 3)).Error())
	if len(paras) > 0 {
		r.Sample(string(b))
	}
	for i, p := range paras {
		seen := map[string]bool{}
		for _, k := range p.Order {
			if seen[k] {
				return errf("input %q: paragraph %d lists field %q twice (Order=%q)", b, i, k, p.Order)
			}
			seen[k] = true
			if _, ok := p.Values[k]; !ok {
				return errf("input %q: paragraph %d lists field %q without a value", b, i, k)
			}
		}
		for k := range p.Values {
			if !seen[k] {
				return errf("input %q: paragraph %d has a value for %q which it does not list (Order=%q)", b, i, k, p.Order)
			}
		}
	}
	// paragraphs put together keep the shape: Update(q) lists p's fields, then q's new ones, each
	// once, with q's values where both have one - and leaves p and q as they were
	for i := 0; i+1 < len(paras) && i < 3; i++ {
		p, q := paras[i], paras[i+1]
		pOrder, qOrder := strings.Join(p.Order, "\x00"), strings.Join(q.Order, "\x00")
		u := p.Update(q)
		seen := map[string]bool{}
		for _, k := range u.Order {
			if seen[k] {
				return errf("input %q: Update of paragraph %d with %d lists %q twice (Order=%q)", b, i, i+1, k, u.Order)
			}
			seen[k] = true
			want, ok := q.Values[k]
			if !ok {
				want, ok = p.Values[k]
			}
			if got, has := u.Values[k]; !ok || !has || got != want {
				return errf("input %q: Update of paragraph %d with %d: field %q = %q (present %v), want %q", b, i, i+1, k, got, has, want)
			}
		}
		if len(u.Values) != len(u.Order) || len(u.Order) < len(p.Order) || len(u.Order) < len(q.Order) || len(u.Order) > len(p.Order)+len(q.Order) {
			return errf("input %q: Update of paragraph %d (%d fields) with %d (%d fields) has %d names and %d values", b, i, len(p.Order), i+1, len(q.Order), len(u.Order), len(u.Values))
		}
		for j, k := range p.Order {
			if u.Order[j] != k {
				return errf("input %q: Update of paragraph %d with %d: Order %q does not start with the receiver's %q", b, i, i+1, u.Order, p.Order)
			}
		}
		if strings.Join(p.Order, "\x00") != pOrder || strings.Join(q.Order, "\x00") != qOrder {
			return errf("input %q: Update changed one of its operands", b)
		}
	}
	// All() must agree with the Next() loop when it succeeds
	pr2, err := control.NewParagraphReader(bytes.NewReader(b), nil)
	if err == nil {
		if all, err := pr2.All(); err == nil {
			if len(all) != len(paras) {
				return errf("input %q: All() gives %d paragraphs, the Next() loop %d", b, len(all), len(paras))
			}
		}
	}
	// whatever that input was, the next document is read as what it says
	canary := "Package: canary\nDescription: short\n long one\n .\n  indented\n\nSecond: 2\n"
	if ps, err := readParas(canary); err != nil || len(ps) != 2 || strings.Join(ps[0].Order, ",") != "Package,Description" || ps[0].Values["Package"] != "canary" ||
		ps[0].Values["Description"] != "short\nlong one\n\n indented\n" || ps[1].Values["Second"] != "2" {
		return errf("after input %q a plain two-paragraph document reads as %+v (err %v)", b, ps, err)
	}
	return nil
}

func genRawDoc(t *rapid.T) RawDoc {
	switch rapid.IntRange(0, 5).Draw(t, "src") {
	case 0:
		return RawDoc{[]byte(genDocCase(t, 3).Text)}
	case 1, 2, 3:
		// line-level mutation of a valid document
		doc := genDocCase(t, 3).Text
		lines := strings.SplitAfter(doc, "\n")
		n := rapid.IntRange(1, 3).Draw(t, "muts")
		for i := 0; i < n && len(lines) > 0; i++ {
			p := rapid.IntRange(0, len(lines)-1).Draw(t, "p")
			switch rapid.IntRange(0, 5).Draw(t, "op") {
			case 0: // duplicate a line
				lines = append(lines[:p+1], append([]string{lines[p]}, lines[p+1:]...)...)
			case 1: // delete a line
				lines = append(lines[:p], lines[p+1:]...)
			case 2: // swap two lines
				q := rapid.IntRange(0, len(lines)-1).Draw(t, "q")
				lines[p], lines[q] = lines[q], lines[p]
			case 3: // continuation at the top
				lines = append([]string{" orphan continuation\n"}, lines...)
			case 4: // duplicate a line further down
				q := rapid.IntRange(0, len(lines)).Draw(t, "q")
				l := lines[p]
				lines = append(lines[:q], append([]string{l}, lines[q:]...)...)
			default: // continuation right after a blank line
				lines = append(lines[:p], append([]string{"\n", "\tcont\n"}, lines[p:]...)...)
			}
		}
		return RawDoc{[]byte(strings.Join(lines, ""))}
	case 4:
		return RawDoc{[]byte(mutateBytes(t, genDocCase(t, 2).Text, ": \t\n\r#.-", 3))}
	default:
		toks := []string{"A", "B", ":", " ", "\n", "\t", "#", ".", "x", "\r\n", "A: 1\n", " c\n", "\n\n", "é"}
		n := rapid.IntRange(0, 14).Draw(t, "n")
		var sb strings.Builder
		for i := 0; i < n; i++ {
			sb.WriteString(rapid.SampledFrom(toks).Draw(t, "tok"))
		}
		return RawDoc{[]byte(sb.String())}
	}
}

var specC07Invariant = Register(&Spec[RawDoc]{
	Prop: "C07", Name: "invariant",
	Rule:  "any input: valid documents, line-level mutations of them (duplicate a field line, delete a line so a continuation is orphaned, swap lines, continuation at the top or right after a blank line), byte-level mutations, token soups. Oracle: every paragraph returned by Next() - also those returned before a later error - has set(keys(Values)) == set(Order) and no duplicate in Order; All() agrees with the Next() loop on the count; a fixed plain document read right afterwards comes out as written. Non-trivial: input yields >= 1 paragraph; distinct by bytes.",
	Check: func(c RawDoc, r *Recorder) error { return checkParagraphInvariant(c.B, r) },
})

func TestC07_Invariant(t *testing.T) {
	specC07Invariant.Run(t, genRawDoc, 30000, 300000)
}

func FuzzC07_Invariant(f *testing.F) {
	for _, s := range []string{"A: b\n", "A: b\n c\n .\n d\n\nB: x\n", " foo\nA: b\n", "A: 1\nA: 2\n", "#c\nA:\n\tb\r\n\r\nC: d", "\n\n", "A\n"} {
		f.Add([]byte(s))
	}
	f.Fuzz(func(t *testing.T, b []byte) {
		if len(b) > 2048 {
			return
		}
		if err := checkParagraphInvariant(b, nil); err != nil {
			t.Fatalf("C07/invariant violated: %v", err)
		}
	})
}

// ------------------------------------------------------------------ I/O buffer edges
//
// The reader works through a bufio.Reader (4096 bytes by default).  For a few
// generated documents a padding field is put in front so that EVERY line
// boundary of the document in turn falls one byte before, exactly on, and one
// byte after the 4096- and 8192-byte marks (the padding line itself is then
// longer than one buffer).

func padDoc(c DocCase, pad int) DocCase {
	out := DocCase{Feats: append([]string{"buffer-edge"}, c.Feats...)}
	eol := "\n"
	if strings.Contains(c.Text, "\r\n") {
		eol = "\r\n"
	}
	val := strings.Repeat("x", pad)
	// the padding field goes in front of the first field line of the document
	lines := strings.SplitAfter(c.Text, "\n")
	at := 0
	for at < len(lines) && (strings.TrimRight(lines[at], "\r\n") == "" || strings.HasPrefix(lines[at], "#")) {
		at++
	}
	padLine := "Pad-Field: " + val + eol
	out.Text = strings.Join(lines[:at], "") + padLine + strings.Join(lines[at:], "")
	for i, w := range c.Want {
		nw := ParaWant{Order: append([]string{}, w.Order...), Values: map[string]string{}, Alt: w.Alt}
		for k, v := range w.Values {
			nw.Values[k] = v
		}
		if i == 0 {
			nw.Order = append([]string{"Pad-Field"}, nw.Order...)
			nw.Values["Pad-Field"] = val
		}
		out.Want = append(out.Want, nw)
	}
	return out
}

var specC07Edge = Register(&Spec[DocCase]{
	Prop: "C07", Name: "bufferedge",
	Rule: "bounded-exhaustive over buffer alignment: for a few generated documents (>= 1 paragraph, no field called Pad-Field) a padding field of n 'x' is inserted as first field, with n chosen so that each line boundary of the document in turn lands at 4096-1, 4096, 4096+1, 8192-1, 8192, 8192+1 bytes from the start (the padding line is itself longer than the 4096-byte bufio buffer). Oracle as C07/model. Non-trivial: every case; distinct by text.",
	Check: func(c DocCase, r *Recorder) error {
		r.Case(c.Text, true, c.Feats...)
		if len(c.Text)%53 == 0 {
			r.Sample(map[string]interface{}{"bytes": len(c.Text), "paragraphs": len(c.Want)})
		}
		ways, err := readAllWays(c.Text)
		if err != nil {
			return errf("well-formed document of %d bytes (padding field in front): %v", len(c.Text), err)
		}
		for _, how := range []string{"All()", "Next() loop", "Unmarshal(&[]T)", "Decoder.Decode(&T) loop", "Unmarshal(&[]control.Paragraph)", "Decoder.Decode(&control.Paragraph) loop", "Next() then All()", "Decode(&T) then Decode(&[]T)", "Unmarshal(&[]*T)", "Unmarshal(&[]*control.Paragraph)", "Unmarshal(&[]T), Paragraph embedded one level down", "Unmarshal(&[]T) into a slice that held two elements", "Decoder.Decode(&p) loop into one variable", "Unmarshal(&[]T) into a variable decoded into before", "Next() loop of a second reader, read in turn with a third", "Next() loop of a third reader, read in turn with the second"} {
			if err := parasMatch(ways[how], c.Want, how); err != nil {
				return errf("document of %d bytes with a %d-byte padding line: %v", len(c.Text), len(c.Want[0].Values["Pad-Field"]), err)
			}
		}
		return nil
	},
})

func TestC07_BufferEdgeExh(t *testing.T) {
	n := pickN(3, 20)
	var bases []DocCase
	sink := &Spec[DocCase]{Check: func(c DocCase, r *Recorder) error { bases = append(bases, c); return nil }}
	rapidCollect(t, sink, func(t *rapid.T) DocCase {
		for {
			c := genDocCase(t, 3)
			ok := len(c.Want) >= 1
			for _, w := range c.Want {
				if _, clash := w.Values["Pad-Field"]; clash {
					ok = false
				}
			}
			if ok {
				return c
			}
		}
	}, n)
	specC07Edge.Enumerate(t, true, func(_ *Recorder, yield func(DocCase) bool) {
		// a one-field document whose only line (no final newline) is 4096*k-1, 4096*k, 4096*k+1 bytes long
		for _, total := range []int{4095, 4096, 4097, 8191, 8192, 8193, 12288, 65535, 65536, 65537, 131072, 200001} {
			for _, nl := range []string{"", "\n", "\r\n"} {
				val := strings.Repeat("y", total-len("Only: "))
				c := DocCase{Text: "Only: " + val + nl, Want: []ParaWant{{Order: []string{"Only"}, Values: map[string]string{"Only": val}}}, Feats: []string{"buffer-edge", "single-line-document"}}
				if !yield(c) {
					return
				}
				// ... and the same as the LAST line of a longer document (continuation line)
				cont := strings.Repeat("z", total-1)
				c2 := DocCase{Text: "A: b\nLong:\n " + cont + nl, Want: []ParaWant{{Order: []string{"A", "Long"}, Values: map[string]string{"A": "b", "Long": cont + "\n"}, Alt: map[string]string{"Long": "\n" + cont + "\n"}}}, Feats: []string{"buffer-edge", "long-last-line"}}
				if !yield(c2) {
					return
				}
			}
		}
		for _, b := range bases {
			zero := padDoc(b, 0)
			// the end of the text is a boundary too (documents without a final newline)
			if !strings.HasSuffix(zero.Text, "\n") {
				for _, mark := range []int{4096, 8192} {
					for d := -1; d <= 1; d++ {
						if pad := mark + d - len(zero.Text); pad >= 1 {
							if !yield(padDoc(b, pad)) {
								return
							}
						}
					}
				}
			}
			// offsets of every line end in the padded document (pad = 0)
			for pos := 0; pos < len(zero.Text); pos++ {
				if zero.Text[pos] != '\n' {
					continue
				}
				end := pos + 1
				for _, mark := range []int{4096, 8192} {
					for d := -1; d <= 1; d++ {
						pad := mark + d - end
						if pad < 1 {
							continue
						}
						if !yield(padDoc(b, pad)) {
							return
						}
					}
				}
			}
		}
	})
}
