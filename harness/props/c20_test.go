package props

import (
	"bufio"
	"bytes"
	"encoding/json"
	"fmt"
	"os"
	"os/exec"
	"path/filepath"
	"sort"
	"strings"
	"syscall"
	"testing"

	"pault.ag/go/debian/control"
	"pgregory.net/rapid"
)

type UpFile struct {
	Name string `json:"name"` // as listed in the control file
	Size int    `json:"size"`
	Seed int    `json:"seed"`
	// Listed: the size the control file claims, when it differs from the file's real size (a
	// control file written before the last rebuild); 0 = the real size
	Listed int `json:"listed,omitempty"`
	// Link: the listed name is a symbolic link in the source directory to the real file in
	// src/sub/ (1 = relative target, 2 = absolute target) - a shared .orig.tar.gz, say -, or (3) an
	// absolute link to the same-named file that already lives in d1 (an upload directory linked into the pool)
	Link int `json:"link,omitempty"`
}

func (f UpFile) listedSize() int {
	if f.Listed != 0 {
		return f.Listed
	}
	return f.Size
}

type UpOp struct {
	Kind string `json:"kind"` // copy | move | remove
	Dest string `json:"dest"` // d1 | d2
	// ViaLink: the destination is named as <symlink>/.., where the symlink leads to a directory
	// INSIDE the destination: the kernel ends up in the destination, a path cleaned as text one
	// level above it
	ViaLink bool `json:"viaLink,omitempty"`
}

type UploadCase struct {
	Handle    string   `json:"handle"` // dsc | changes
	Files     []UpFile `json:"files"`
	Ops       []UpOp   `json:"ops"`
	Fault     string   `json:"fault"`                   // none | src-missing | src-is-dir | src-is-empty-dir | dst-squatted | dst-missing | dst-is-file
	FaultStep int      `json:"faultStep"`               // index into Files, len(Files) = the control file itself
	FilenameF string   `json:"filenameField,omitempty"` // adversarial "Filename:" field ("" = none; value relative to root)
	// Stale: before the first operation, destination d1/d2 already hold files with the names of the
	// upload (same length, different bytes, not older) - a re-upload over leftovers.
	Stale bool `json:"stale,omitempty"`
	// CrossDev: destination d2 lives on another file system (/dev/shm) when the machine has one;
	// a Move there may fail as a whole (rename cannot cross devices) or succeed - never half-succeed.
	CrossDev bool `json:"crossDev,omitempty"`
	// DstLink: before the last operation somebody planted, in its destination directory, a symbolic
	// link to root/outside/victim under the name of referenced file number DstLink-1 (1..n) or of
	// the control file (n+1); 0 = none.  Writing through it would overwrite a file outside.
	DstLink int `json:"dstLink,omitempty"`
	// SelfAt > 0: the control file lists ITSELF among its files, as entry number SelfAt-1
	SelfAt int `json:"selfAt,omitempty"`
	// Layout: "" = Files and Checksums-Sha256 list the same names; "sha256-only" = no Files field at
	// all; "split" = Files lists the plain names only, Checksums-Sha256 all of them (the
	// adversarial ones included). Whatever the library takes "referenced" to mean then, nothing
	// outside may be touched.
	Layout string `json:"layout,omitempty"`
	// NoFinalNL: the control file's last byte is not a line end
	NoFinalNL bool `json:"noFinalNL,omitempty"`
	// CtlLink: the control file in the upload directory is itself a symbolic link, to a copy kept in
	// root/outside/pool - next to which files with the listed names (and other content) lie. The
	// upload is where the link is, not where it leads.
	CtlLink bool `json:"ctlLink,omitempty"`
	// Spelling: how the path given to ParseDscFile / ParseChangesFile spells the control file's
	// location: 0 clean, 1 ".../src/./name", 2 ".../src/../src/name", 3 "...//src/name",
	// 4 "../name" given to Parse*File from a working directory reached through a symbolic link
	Spelling int `json:"spelling,omitempty"`
}

// otherFileSystemDir returns a fresh directory on a file system different from the one of ref, or "".
func otherFileSystemDir(ref string) string {
	var a, b syscall.Stat_t
	if syscall.Stat(ref, &a) != nil {
		return ""
	}
	for _, cand := range []string{"/dev/shm", "/run", "/var/tmp"} {
		if syscall.Stat(cand, &b) == nil && b.Dev != a.Dev {
			if d, err := os.MkdirTemp(cand, "c20x-"); err == nil {
				return d
			}
		}
	}
	return ""
}

// hostileDscText: what a listed .dsc holds when it is a real one - with a Files field of its own
// that reaches out of the directory. Nobody asked for the files a listed file lists.
const hostileDscText = "Format: 3.0 (quilt)\nSource: pkg\nBinary: pkg\nArchitecture: any\nVersion: 1.0-1\nMaintainer: A B <a@b.c>\nFiles:\n 00000000000000000000000000000000 23 ../outside/victim\n 00000000000000000000000000000000 23 ../outside/victim2\n 00000000000000000000000000000000 1 sub/inner\n 00000000000000000000000000000000 5 pkg_1.0.orig.tar.gz\n"

func upContent(f UpFile) []byte {
	if f.Seed == -1 {
		return []byte(hostileDscText)
	}
	b := make([]byte, f.Size)
	x := uint32(f.Seed)*2654435761 + 12345
	for i := range b {
		x = x*1664525 + 1013904223
		b[i] = byte(x >> 24)
	}
	return b
}

// dupListed: some plain name is listed more than once.
func dupListed(c UploadCase) bool {
	seen := map[string]bool{}
	for _, f := range c.Files {
		if seen[f.Name] {
			return true
		}
		seen[f.Name] = true
	}
	return false
}

func plainName(n string) bool { return n != "" && !strings.Contains(n, "/") && n != "." && n != ".." }

func genUploadCase(t *rapid.T) UploadCase {
	c := UploadCase{Handle: rapid.SampledFrom([]string{"dsc", "changes"}).Draw(t, "handle")}
	n := rapid.IntRange(0, 5).Draw(t, "nfiles")
	seen := map[string]bool{}
	adversarial := rapid.IntRange(0, 3).Draw(t, "adversarial") == 0
	for i := 0; i < n; i++ {
		name := fmt.Sprintf("pkg_1.0-%d%s", i, rapid.SampledFrom([]string{".orig.tar.gz", ".debian.tar.xz", "_amd64.deb", ".dsc", ".tar.xz"}).Draw(t, "ext"))
		if adversarial && rapid.IntRange(0, 1).Draw(t, "adv") == 0 {
			name = rapid.SampledFrom([]string{"../outside/victim", "../outside/victim2", "../d1/planted", "sub/inner.tar.gz", "/outside/victim", "../../outside/victim", "sub/../../outside/victim", "./" + name, "..", ".", "/", "//", "/.", "sub/", "../", "../outside/real.dsc", "outlink/victim", "outlink/victim2", "sub/outlink2/victim"}).Draw(t, "advname")
		}
		if !adversarial && rapid.IntRange(0, 19).Draw(t, "longname") == 0 {
			// a legal name close to NAME_MAX (255)
			name = strings.Repeat("n", rapid.SampledFrom([]int{200, 230, 245, 250, 255}).Draw(t, "longlen")-len(name)) + name
		}
		if seen[name] {
			continue
		}
		seen[name] = true
		uf := UpFile{Name: name, Size: rapid.SampledFrom([]int{0, 1, 7, 300, 32767, 32768, 32769, 100000}).Draw(t, "size"), Seed: rapid.IntRange(1, 1<<20).Draw(t, "seed")}
		if rapid.IntRange(0, 9).Draw(t, "sizelie") == 0 {
			uf.Listed = uf.Size + rapid.SampledFrom([]int{1, 100, 4096}).Draw(t, "sizelieBy")
		}
		if plainName(name) && rapid.IntRange(0, 7).Draw(t, "srcLink") == 0 {
			uf.Link = rapid.IntRange(1, 3).Draw(t, "srcLinkKind")
		}
		c.Files = append(c.Files, uf)
	}
	if len(c.Files) >= 2 && !adversarial && rapid.IntRange(0, 9).Draw(t, "dupName") == 0 {
		// the same file listed twice (a .changes put together by hand): names that sort before and
		// after the control file's are both around
		i := rapid.IntRange(0, len(c.Files)-1).Draw(t, "dupWhich")
		c.Files = append(c.Files, c.Files[i])
		c.Files = append(c.Files, UpFile{Name: "zzz_last.tar", Size: 3, Seed: 7}, UpFile{Name: "aaa_first.tar", Size: 3, Seed: 8})
	}
	nops := rapid.SampledFrom([]int{1, 1, 1, 2, 3}).Draw(t, "nops")
	for i := 0; i < nops; i++ {
		k := rapid.SampledFrom([]string{"copy", "move", "remove"}).Draw(t, "op")
		c.Ops = append(c.Ops, UpOp{Kind: k, Dest: rapid.SampledFrom([]string{"d1", "d2"}).Draw(t, "dest"), ViaLink: rapid.IntRange(0, 5).Draw(t, "viaLink") == 0})
		if k == "remove" {
			break
		}
	}
	last := c.Ops[len(c.Ops)-1]
	c.Fault = "none"
	if rapid.IntRange(0, 2).Draw(t, "hasFault") != 0 {
		// a directory under a listed name: its content is not "in the control file's own directory",
		// so it is no more to be moved or deleted than to be copied
		opts := []string{"src-missing", "src-is-dir", "src-is-empty-dir"}
		if last.Kind != "remove" {
			opts = append(opts, "dst-squatted", "dst-squatted", "dst-missing", "dst-is-file")
		}
		c.Fault = rapid.SampledFrom(opts).Draw(t, "fault")
		c.FaultStep = rapid.IntRange(0, len(c.Files)).Draw(t, "faultStep")
	}
	if rapid.IntRange(0, 5).Draw(t, "dstLink") == 0 && last.Kind != "remove" {
		c.DstLink = 1 + rapid.IntRange(0, len(c.Files)).Draw(t, "dstLinkAt")
	}
	if c.Handle == "changes" && rapid.IntRange(0, 2).Draw(t, "realDsc") == 0 {
		for i := range c.Files {
			if strings.HasSuffix(c.Files[i].Name, ".dsc") && plainName(c.Files[i].Name) && c.Files[i].Listed == 0 {
				c.Files[i].Seed, c.Files[i].Size = -1, len(hostileDscText)
				break
			}
		}
	}
	if rapid.IntRange(0, 3).Draw(t, "spelled") == 0 {
		c.Spelling = rapid.IntRange(1, 4).Draw(t, "spelling")
	}
	if rapid.IntRange(0, 7).Draw(t, "selfListed") == 0 {
		if c.Spelling == 0 && rapid.Bool().Draw(t, "selfSpelled") {
			c.Spelling = rapid.IntRange(1, 3).Draw(t, "selfSpelling")
		}
		c.SelfAt = 1 + rapid.IntRange(0, len(c.Files)).Draw(t, "selfAt")
		at := c.SelfAt - 1
		self := UpFile{Name: c.ctlName(), Size: 10, Seed: 1}
		c.Files = append(c.Files[:at], append([]UpFile{self}, c.Files[at:]...)...)
		if c.Fault != "none" && c.FaultStep >= at {
			c.FaultStep++ // keep the fault on the file (or the control file itself) it was drawn for
		}
		if c.DstLink > at {
			c.DstLink++
		}
	}
	if adversarial && rapid.IntRange(0, 2).Draw(t, "layoutk") == 0 {
		c.Layout = rapid.SampledFrom([]string{"sha256-only", "split"}).Draw(t, "layout")
	}
	c.Stale = rapid.IntRange(0, 3).Draw(t, "stale") == 0
	c.CtlLink = c.SelfAt == 0 && rapid.IntRange(0, 7).Draw(t, "ctlLink") == 0
	c.NoFinalNL = rapid.IntRange(0, 5).Draw(t, "noFinalNL") == 0
	c.CrossDev = rapid.IntRange(0, 4).Draw(t, "crossDev") == 0
	if adversarial && rapid.IntRange(0, 2).Draw(t, "fnf") == 0 {
		c.FilenameF = rapid.SampledFrom([]string{"outside/evil", "d1/evil", "/nonexistent/evil"}).Draw(t, "filenameField")
	}
	return c
}

func (c UploadCase) ctlName() string { return "ctl_1.0-1." + c.Handle }

func (c UploadCase) controlText(root string) string {
	var sb strings.Builder
	if c.Handle == "dsc" {
		sb.WriteString("Format: 3.0 (quilt)\nSource: pkg\nBinary: pkg\nArchitecture: any\nVersion: 1.0-1\nMaintainer: A B <a@b.c>\n")
	} else {
		sb.WriteString("Format: 1.8\nDate: Wed, 29 Apr 2015 21:29:13 -0400\nSource: pkg\nBinary: pkg\nArchitecture: source\nVersion: 1.0-1\nDistribution: unstable\nUrgency: low\nMaintainer: A B <a@b.c>\nChanged-By: A B <a@b.c>\nChanges:\n pkg (1.0-1) unstable; urgency=low\n .\n   * x\n")
	}
	if c.FilenameF != "" {
		p := c.FilenameF
		if !strings.HasPrefix(p, "/") {
			p = filepath.Join(root, p)
		}
		sb.WriteString("Filename: " + p + "." + c.Handle + "\n")
	}
	if len(c.Files) == 0 {
		return sb.String() // an upload that references nothing carries no Files field at all
	}
	sb.WriteString("Checksums-Sha256:\n")
	for _, f := range c.Files {
		sb.WriteString(fmt.Sprintf(" %064x %d %s\n", f.Seed, f.listedSize(), f.Name))
	}
	if c.Layout == "sha256-only" {
		return sb.String()
	}
	sb.WriteString("Files:\n")
	for _, f := range c.Files {
		if c.Layout == "split" && !plainName(f.Name) {
			continue
		}
		if c.Handle == "dsc" {
			sb.WriteString(fmt.Sprintf(" %032x %d %s\n", f.Seed, f.listedSize(), f.Name))
		} else {
			sb.WriteString(fmt.Sprintf(" %032x %d devel optional %s\n", f.Seed, f.listedSize(), f.Name))
		}
	}
	return sb.String()
}

type uploadHandle interface {
	Copy(string) error
	Move(string) error
	Remove() error
}

func snapshotTree(dir string) map[string]string {
	out := map[string]string{}
	filepath.Walk(dir, func(p string, info os.FileInfo, err error) error {
		if err != nil {
			return nil
		}
		rel, _ := filepath.Rel(dir, p)
		if info.IsDir() {
			out[rel+"/"] = "dir"
		} else if info.Mode().IsRegular() {
			b, _ := os.ReadFile(p)
			out[rel] = string(b)
		} else {
			out[rel] = "special:" + info.Mode().String()
		}
		return nil
	})
	return out
}

func diffSnap(a, b map[string]string) string {
	keys := map[string]bool{}
	for k := range a {
		keys[k] = true
	}
	for k := range b {
		keys[k] = true
	}
	ks := []string{}
	for k := range keys {
		ks = append(ks, k)
	}
	sort.Strings(ks)
	for _, k := range ks {
		av, aok := a[k]
		bv, bok := b[k]
		switch {
		case aok && !bok:
			return "removed: " + k
		case !aok && bok:
			return "created: " + k
		case av != bv:
			return "changed: " + k
		}
	}
	return ""
}

func isRegular(p string) bool {
	st, err := os.Lstat(p)
	return err == nil && st.Mode().IsRegular()
}

func checkUploadCase(c UploadCase, r *Recorder) error {
	allPlain := c.FilenameF == "" && c.Layout == ""
	for _, f := range c.Files {
		if !plainName(f.Name) {
			allPlain = false
		}
	}
	nt := (len(c.Files) >= 2 && c.Fault != "none" && c.FaultStep >= 1) || !allPlain
	cl := []string{"handle:" + c.Handle, "fault:" + c.Fault, "last:" + c.Ops[len(c.Ops)-1].Kind}
	if !allPlain {
		cl = append(cl, "non-plain-names")
	}
	if len(c.Ops) > 1 {
		cl = append(cl, "multi-op-history")
	}
	if c.Stale {
		cl = append(cl, "stale-files-in-destination")
	}
	if c.CrossDev {
		cl = append(cl, "destination-on-another-filesystem")
	}
	r.Case(jsonKey(c), nt, cl...)
	if nt {
		r.Sample(c)
	}
	root, err := os.MkdirTemp(workDir(), "c20-")
	if err != nil {
		return errf("HARNESS: %v", err)
	}
	defer os.RemoveAll(root)
	root, _ = filepath.EvalSymlinks(root)
	for _, d := range []string{"src", "src/sub", "d1", "d2", "outside"} {
		os.MkdirAll(filepath.Join(root, d), 0o755)
	}
	crossDev := false
	if c.CrossDev {
		if other := otherFileSystemDir(root); other != "" {
			defer os.RemoveAll(other)
			os.Remove(filepath.Join(root, "d2"))
			if os.Symlink(other, filepath.Join(root, "d2")) == nil {
				crossDev = true
			} else {
				os.MkdirAll(filepath.Join(root, "d2"), 0o755)
			}
		} else {
			r.Count("skipped:no-second-filesystem", 1)
		}
	}
	// a sub-directory of the upload directory that is a symbolic link to the outside: a listed name
	// that goes through it has no '..' in it and leaves all the same
	os.MkdirAll(filepath.Join(root, "src", "sub"), 0o755)
	os.Symlink(filepath.Join(root, "outside"), filepath.Join(root, "src", "outlink"))
	os.Symlink("../../outside", filepath.Join(root, "src", "sub", "outlink2"))
	const secret = "OUTSIDE-SECRET-CONTENT-"
	os.WriteFile(filepath.Join(root, "outside", "victim"), []byte(secret+"1"), 0o644)
	os.WriteFile(filepath.Join(root, "outside", "victim2"), []byte(secret+"2"), 0o644)
	os.WriteFile(filepath.Join(root, "outside", "evil.dsc"), []byte(secret+"3"), 0o644)
	os.WriteFile(filepath.Join(root, "outside", "evil.changes"), []byte(secret+"4"), 0o644)
	os.WriteFile(filepath.Join(root, "d1", "planted"), []byte("PLANTED-IN-D1"), 0o644)
	os.WriteFile(filepath.Join(root, "outside", "real.dsc"), []byte("Format: 3.0 (quilt)\nSource: elsewhere\nBinary: elsewhere\nArchitecture: any\nVersion: 1.0-1\nMaintainer: A B <a@b.c>\nFiles:\n 00000000000000000000000000000000 23 victim\n"), 0o644)
	// referenced files: materialise those that resolve inside src
	written := map[string]bool{}
	for fi, f := range c.Files {
		if f.Name == c.ctlName() {
			continue // the control file itself, written below
		}
		if written[f.Name] {
			continue // a name listed twice is one file: the first entry says what is in it
		}
		written[f.Name] = true
		p := filepath.Join(root, "src", f.Name)
		if rel, err := filepath.Rel(filepath.Join(root, "src"), p); err == nil && !strings.HasPrefix(rel, "..") && rel != "." {
			os.MkdirAll(filepath.Dir(p), 0o755)
			if f.Link == 3 && plainName(f.Name) {
				// the pool layout: the real file already lives in d1, the upload directory holds an
				// absolute link to it
				pool := filepath.Join(root, "d1", f.Name)
				os.MkdirAll(filepath.Join(root, "d1"), 0o755)
				os.WriteFile(pool, upContent(f), 0o644)
				os.Symlink(pool, p)
				r.Count("source-symlink-into-a-destination", 1)
				continue
			}
			if f.Link != 0 && plainName(f.Name) {
				real := filepath.Join(root, "src", "sub", fmt.Sprintf("real-%d", fi)) // (a short name: the listed one may be 255 bytes long)
				os.WriteFile(real, upContent(f), 0o644)
				target := fmt.Sprintf("sub/real-%d", fi)
				if f.Link == 2 {
					target = real
				}
				os.Symlink(target, p)
				r.Count("source-symlink", 1)
				continue
			}
			os.WriteFile(p, upContent(f), 0o644)
		}
	}
	// what lies one level above the destinations when their path is cleaned as text
	for _, f := range c.Files {
		if plainName(f.Name) && f.Name != c.ctlName() {
			os.WriteFile(filepath.Join(root, f.Name), []byte("PLANTED-ABOVE-"+f.Name), 0o644)
		}
	}
	os.WriteFile(filepath.Join(root, c.ctlName()), []byte("PLANTED-ABOVE-CTL"), 0o644)
	for _, dd := range []string{"d1", "d2"} {
		os.MkdirAll(filepath.Join(root, dd, "deep"), 0o755)
		os.Symlink(filepath.Join(root, dd, "deep"), filepath.Join(root, "lnk-"+dd))
	}
	ctlPath := filepath.Join(root, "src", c.ctlName())
	ctlText := c.controlText(root)
	if c.NoFinalNL {
		ctlText = strings.TrimSuffix(ctlText, "\n") // the file ends inside its last (folded) field
	}
	os.WriteFile(ctlPath, []byte(ctlText), 0o644)
	if c.CtlLink {
		pool := filepath.Join(root, "outside", "pool")
		os.MkdirAll(pool, 0o755)
		os.Remove(ctlPath)
		os.WriteFile(filepath.Join(pool, c.ctlName()), []byte(ctlText), 0o644)
		if os.Symlink(filepath.Join(pool, c.ctlName()), ctlPath) != nil {
			os.WriteFile(ctlPath, []byte(ctlText), 0o644)
		} else {
			r.Count("control-file-is-a-symlink", 1)
		}
		for _, f := range c.Files {
			if plainName(f.Name) && f.Name != c.ctlName() {
				os.WriteFile(filepath.Join(pool, f.Name), []byte("OUTSIDE-SECRET-CONTENT-P-"+f.Name), 0o644)
			}
		}
	}
	if c.Stale {
		// leftovers of an earlier upload: same names, same lengths, other bytes, written later than the sources
		for _, dd := range []string{"d1", "d2"} {
			for _, f := range c.Files {
				if plainName(f.Name) && f.Name != c.ctlName() {
					os.WriteFile(filepath.Join(root, dd, f.Name), bytes.Repeat([]byte{'S'}, f.Size), 0o644)
				}
			}
			os.WriteFile(filepath.Join(root, dd, c.ctlName()), bytes.Repeat([]byte{'S'}, len(ctlText)), 0o644)
		}
	}

	poolSeen := map[string]bool{}
	for _, f := range c.Files {
		if poolSeen[f.Name] {
			continue // a name listed twice is one file: the first entry says what is in it
		}
		poolSeen[f.Name] = true
		if f.Link == 3 && plainName(f.Name) && f.Name != c.ctlName() {
			if fi, err := os.Lstat(filepath.Join(root, "src", f.Name)); err == nil && fi.Mode()&os.ModeSymlink != 0 {
				os.WriteFile(filepath.Join(root, "d1", f.Name), upContent(f), 0o644) // (over a leftover, if any)
			}
		}
	}

	openPath := ctlPath
	switch c.Spelling {
	case 1:
		openPath = filepath.Join(root, "src") + "/./" + c.ctlName()
	case 2:
		openPath = filepath.Join(root, "src") + "/../src/" + c.ctlName()
	case 3:
		openPath = root + "//src/" + c.ctlName()
	case 4:
		// a relative path, given from a working directory the shell reached through a symbolic link
		// ($PWD is the logical name): "../x.dsc" is the file one level above where the process
		// IS, which is src - not the file next to the link
		cwdLink := filepath.Join(root, "cwdlink")
		if os.Symlink(filepath.Join(root, "src", "sub"), cwdLink) == nil {
			oldWd, werr := os.Getwd()
			oldPwd, hadPwd := os.LookupEnv("PWD")
			if werr == nil && os.Chdir(cwdLink) == nil {
				os.Setenv("PWD", cwdLink)
				defer func() {
					os.Chdir(oldWd)
					if hadPwd {
						os.Setenv("PWD", oldPwd)
					} else {
						os.Unsetenv("PWD")
					}
				}()
				openPath = "../" + c.ctlName()
				r.Count("relative-path-from-a-linked-cwd", 1)
			}
		}
	}
	var h uploadHandle
	var filenameOf func() string
	if c.Handle == "dsc" {
		d, err := control.ParseDscFile(openPath)
		if c.Spelling != 0 && c.Spelling != 4 {
			// ParseDscFile makes the path absolute (and clean); the reader-based entry point keeps
			// the caller's spelling in Filename
			d, err = control.ParseDsc(bufio.NewReader(strings.NewReader(ctlText)), openPath)
		}
		if err != nil {
			return errf("ParseDscFile(%q): %v", ctlText, err)
		}
		h, filenameOf = d, func() string { return d.Filename }
	} else {
		ch, err := control.ParseChangesFile(openPath)
		if c.Spelling != 0 && c.Spelling != 4 {
			ch, err = control.ParseChanges(bufio.NewReader(strings.NewReader(ctlText)), openPath)
		}
		if err != nil {
			return errf("ParseChangesFile(%q): %v", ctlText, err)
		}
		h, filenameOf = ch, func() string { return ch.Filename }
		// the .dsc a .changes refers to lives next to it: a handle on one elsewhere would let
		// Remove / Move loose on files outside the upload's directory
		if d, err := ch.GetDSC(); err == nil && filepath.Clean(filepath.Dir(d.Filename)) != filepath.Join(root, "src") {
			return errf("GetDSC of a .changes listing %v returned a handle on %q, outside the upload's directory", upNames(c.Files), d.Filename)
		}
	}
	outsideBefore := snapshotTree(filepath.Join(root, "outside"))

	loc := "src" // where the upload currently lives according to the model
	for oi, op := range c.Ops {
		lastOp := oi == len(c.Ops)-1
		fault := "none"
		if lastOp {
			fault = c.Fault
		}
		locDir, dstDir := filepath.Join(root, loc), filepath.Join(root, op.Dest)
		if op.Dest == loc && op.Kind != "remove" {
			// copying / moving an upload onto itself: refusing is fine, succeeding is fine - but
			// "success" must not cost a single byte (opening a file for writing over itself
			// truncates it)
			before := snapshotTree(locDir)
			destArg := locDir
			if len(c.Files)%2 == 1 {
				destArg = filepath.Join(root, "d1", "..", loc) + "/." // another spelling of the same directory
			}
			var operr error
			if op.Kind == "copy" {
				operr = h.Copy(destArg)
			} else {
				operr = h.Move(destArg)
			}
			r.Count("onto-itself", 1)
			if d := diffSnap(before, snapshotTree(locDir)); d != "" && !(c.SelfAt > 0 || !allPlain) {
				return errf("%s of an upload into the directory it already lives in (given as %q) returned %v and left the directory changed (%s)", op.Kind, destArg, operr, d)
			}
			return nil
		}
		stepName := c.ctlName()
		if fault != "none" && c.FaultStep < len(c.Files) {
			stepName = filepath.Base(c.Files[c.FaultStep].Name)
			if !plainName(c.Files[c.FaultStep].Name) || c.Layout == "sha256-only" {
				fault = "none" // faults are planted on plain names only, and on files the library has reason to touch
			}
		}
		if fault == "dst-squatted" && op.Dest == "d1" && c.FaultStep < len(c.Files) && c.Files[c.FaultStep].Link == 3 {
			fault = "none" // the listed file is a link to this very place: squatting on it would replace the source, not block the destination
		}
		if (fault == "src-is-dir" || fault == "src-is-empty-dir") && op.Kind == "move" && c.FaultStep >= len(c.Files) {
			fault = "none" // the control file's own path turned into a directory after parsing: renaming it is what was asked for
		}
		if fault == "src-is-empty-dir" && c.FaultStep >= len(c.Files) {
			fault = "none" // the control file's own path: removing / renaming what stands there is what was asked for
		}
		switch fault {
		case "src-missing":
			os.Remove(filepath.Join(locDir, stepName))
		case "src-is-dir":
			os.Remove(filepath.Join(locDir, stepName))
			os.MkdirAll(filepath.Join(locDir, stepName, "inner"), 0o755)
			os.WriteFile(filepath.Join(locDir, stepName, "inner", "f"), []byte("x"), 0o644)
		case "src-is-empty-dir":
			// an empty directory is what os.Remove deletes and os.Rename moves without complaint
			os.Remove(filepath.Join(locDir, stepName))
			os.Mkdir(filepath.Join(locDir, stepName), 0o755)
		case "dst-squatted":
			os.RemoveAll(filepath.Join(dstDir, stepName)) // an earlier copy of this history may have left a file there
			os.MkdirAll(filepath.Join(dstDir, stepName), 0o755)
			os.WriteFile(filepath.Join(dstDir, stepName, "squatter"), []byte("x"), 0o644)
		case "dst-missing":
			os.RemoveAll(dstDir)
		case "dst-is-file":
			os.RemoveAll(dstDir)
			os.WriteFile(dstDir, []byte("i am a file"), 0o644)
		}
		if lastOp && c.DstLink > 0 && op.Kind != "remove" && fault != "dst-missing" && fault != "dst-is-file" {
			ln := c.ctlName()
			if c.DstLink-1 < len(c.Files) {
				ln = c.Files[c.DstLink-1].Name
			}
			poolLinked := false
			for _, f := range c.Files {
				if f.Name == ln && f.Link == 3 {
					poolLinked = true // the source is a link to this very place: a link planted here would be the source
				}
			}
			if plainName(ln) && !poolLinked && !(fault == "dst-squatted" && ln == stepName) {
				os.RemoveAll(filepath.Join(dstDir, ln))
				if os.Symlink(filepath.Join(root, "outside", "victim"), filepath.Join(dstDir, ln)) == nil {
					r.Count("destination-symlink-planted", 1)
				}
			}
		}
		ctlBefore, _ := os.ReadFile(filepath.Join(locDir, c.ctlName()))
		ctlInDstBefore, ctlInDstErr := os.ReadFile(filepath.Join(dstDir, c.ctlName())) // an earlier copy of this history may have put one there
		var operr error
		destArg := dstDir
		if c.Stale || len(c.Files)%2 == 1 {
			destArg += "/" // a directory may be named with a trailing slash
		}
		if op.ViaLink && op.Kind != "remove" {
			destArg = filepath.Join(root, "lnk-"+op.Dest) + "/.."
		}
		switch op.Kind {
		case "copy":
			operr = h.Copy(destArg)
		case "move":
			operr = h.Move(destArg)
		default:
			operr = h.Remove()
		}
		// ---- containment, always
		if d := diffSnap(outsideBefore, snapshotTree(filepath.Join(root, "outside"))); d != "" {
			return errf("%s of %s touched a file outside the source and destination directories (%s); listed names %v, Filename field %q", op.Kind, c.Handle, d, upNames(c.Files), c.FilenameF)
		}
		for _, dd := range []string{"d1", "d2"} {
			for p, content := range snapshotTree(filepath.Join(root, dd)) {
				if strings.HasPrefix(content, secret) {
					return errf("%s of %s read a file from outside the source directory into %s/%s; listed names %v, Filename field %q", op.Kind, c.Handle, dd, p, upNames(c.Files), c.FilenameF)
				}
			}
		}
		for _, f := range c.Files {
			if plainName(f.Name) && f.Name != c.ctlName() {
				if b, err := os.ReadFile(filepath.Join(root, f.Name)); err != nil || string(b) != "PLANTED-ABOVE-"+f.Name {
					return errf("%s of %s (destination given as %q) touched %s one level above the directories involved (now %q, err %v)", op.Kind, c.Handle, destArg, f.Name, b, err)
				}
			}
		}
		if b, err := os.ReadFile(filepath.Join(root, c.ctlName())); err != nil || string(b) != "PLANTED-ABOVE-CTL" {
			return errf("%s of %s (destination given as %q) touched %s one level above the directories involved (now %q, err %v)", op.Kind, c.Handle, destArg, c.ctlName(), b, err)
		}
		d1Involved := loc == "d1" || (op.Kind != "remove" && op.Dest == "d1")
		if b, err := os.ReadFile(filepath.Join(root, "d1", "planted")); !d1Involved && (err != nil || string(b) != "PLANTED-IN-D1") {
			return errf("%s of %s changed a file in a directory that is neither source nor destination (d1/planted); listed names %v", op.Kind, c.Handle, upNames(c.Files))
		}
		if !d1Involved {
			for p, content := range snapshotTree(filepath.Join(root, "d2")) {
				if content == "PLANTED-IN-D1" {
					return errf("%s of %s read d1/planted (neither source nor destination directory) into d2/%s; listed names %v", op.Kind, c.Handle, p, upNames(c.Files))
				}
			}
		}
		ctlInDst := filepath.Join(dstDir, c.ctlName())
		if fault == "src-is-dir" {
			if b, err := os.ReadFile(filepath.Join(locDir, stepName, "inner", "f")); err != nil || string(b) != "x" {
				return errf("%s met a directory under the listed name %s (error: %v) and its content is gone from where it was (%v)", op.Kind, stepName, operr, err)
			}
		}
		if fault == "src-is-empty-dir" {
			if fi, err := os.Lstat(filepath.Join(locDir, stepName)); err != nil || !fi.IsDir() {
				return errf("%s met an empty directory under the listed name %s (error: %v) and the directory is gone from where it was (%v)", op.Kind, stepName, operr, err)
			}
		}
		if fault != "none" {
			// ---- a failing step: error, and the control file is not in the destination
			if operr == nil {
				return errf("%s with fault %s at step %d (%s) returned no error", op.Kind, fault, c.FaultStep, stepName)
			}
			if b, _ := os.ReadFile(ctlInDst); op.Kind != "remove" && isRegular(ctlInDst) && (ctlInDstErr != nil || !bytes.Equal(b, ctlInDstBefore)) {
				return errf("%s failed (%v; fault %s at %s) but the control file %s is in the destination (%d bytes)", op.Kind, operr, fault, stepName, c.ctlName(), len(b))
			}
			if op.Kind != "copy" && !(fault != "none" && c.FaultStep == len(c.Files) && (fault == "src-missing" || fault == "src-is-dir" || fault == "src-is-empty-dir")) {
				if b, err := os.ReadFile(filepath.Join(locDir, c.ctlName())); err != nil || !bytes.Equal(b, ctlBefore) {
					return errf("%s failed (%v; fault %s at %s) but the control file is no longer intact at its source", op.Kind, operr, fault, stepName)
				}
			}
			return nil
		}
		if crossDev && op.Kind == "move" && (op.Dest == "d2") != (loc == "d2") && operr != nil {
			// a rename cannot cross file systems: failing is fine, but then nothing may have happened
			if b, err := os.ReadFile(filepath.Join(locDir, c.ctlName())); err != nil || !bytes.Equal(b, ctlBefore) {
				return errf("move to another file system failed (%v) but the control file is no longer intact at its source", operr)
			}
			if isRegular(ctlInDst) && ctlInDstErr != nil {
				return errf("move to another file system failed (%v) but a control file appeared in the destination", operr)
			}
			return nil
		}
		if !allPlain {
			// names that leave the directory: refusing is fine, succeeding is fine - containment was checked above;
			// but a refusal is a failure like any other: the control file stays where it was and is not in the destination
			if operr != nil {
				if b, err := os.ReadFile(filepath.Join(locDir, c.ctlName())); op.Kind != "copy" && (err != nil || !bytes.Equal(b, ctlBefore)) {
					return errf("%s of an upload listing %v failed (%v) and the control file is no longer intact at its source", op.Kind, upNames(c.Files), operr)
				}
				if isRegular(ctlInDst) && op.Kind != "remove" && ctlInDstErr != nil {
					return errf("%s of an upload listing %v failed (%v) but the control file is in the destination", op.Kind, upNames(c.Files), operr)
				}
				return nil
			}
		} else if (c.SelfAt > 0 || sizeLie(c)) && operr != nil {
			// a control file that lists itself, or whose size column is wrong: refusing is fine - as long as nothing has happened
			if isRegular(ctlInDst) && op.Kind != "remove" && ctlInDstErr != nil {
				return errf("%s of a control file that lists itself failed (%v) but the control file is in the destination", op.Kind, operr)
			}
			if b, err := os.ReadFile(filepath.Join(locDir, c.ctlName())); op.Kind != "copy" && (err != nil || !bytes.Equal(b, ctlBefore)) {
				return errf("%s of a control file that lists itself failed (%v) and the control file is no longer intact at its source", op.Kind, operr)
			}
			return nil
		} else if dupListed(c) && operr != nil && op.Kind != "copy" {
			// a name listed twice: the second rename / unlink finds nothing - failing is fine, with the
			// control file where it was and not in the destination
			if b, err := os.ReadFile(filepath.Join(locDir, c.ctlName())); err != nil || !bytes.Equal(b, ctlBefore) {
				return errf("%s of an upload that lists %v (a name twice) failed (%v) and the control file is no longer intact at its source", op.Kind, upNames(c.Files), operr)
			}
			if isRegular(ctlInDst) && op.Kind != "remove" && ctlInDstErr != nil {
				return errf("%s of an upload that lists %v (a name twice) failed (%v) but the control file is in the destination", op.Kind, upNames(c.Files), operr)
			}
			return nil
		} else if operr != nil {
			return errf("%s %d of a plain upload (%d files) failed: %v", op.Kind, oi, len(c.Files), operr)
		}
		// ---- success
		switch op.Kind {
		case "copy", "move":
			if want := filepath.Join(dstDir, c.ctlName()); allPlain && filepath.Clean(filenameOf()) != want {
				// (a destination named through a symbolic link is the same place under another name)
				got, _ := filepath.EvalSymlinks(filenameOf())
				phys, _ := filepath.EvalSymlinks(want)
				if got == "" || got != phys {
					return errf("after %s the handle points at %q, want %q", op.Kind, filenameOf(), want)
				}
			}
			if b, err := os.ReadFile(ctlInDst); allPlain && (err != nil || string(b) != ctlText) {
				return errf("after %s the control file in the destination is missing or differs (%v)", op.Kind, err)
			}
			for _, f := range c.Files {
				if !plainName(f.Name) || f.Name == c.ctlName() || c.Layout == "sha256-only" {
					continue
				}
				b, err := os.ReadFile(filepath.Join(dstDir, f.Name))
				for _, g := range c.Files {
					if g.Name == f.Name {
						f = g // (a name listed twice: the first entry says what is in the file)
						break
					}
				}
				if err != nil || !bytes.Equal(b, upContent(f)) {
					return errf("after %s the file %s in the destination is missing or not byte-identical (%d bytes, err %v; want %d bytes)", op.Kind, f.Name, len(b), err, f.Size)
				}
				_, serr := os.Stat(filepath.Join(locDir, f.Name))
				if op.Kind == "move" && serr == nil {
					return errf("after move the file %s is still at its source", f.Name)
				}
				if op.Kind == "copy" && serr != nil {
					return errf("after copy the file %s is gone from its source", f.Name)
				}
			}
			if _, serr := os.Stat(filepath.Join(locDir, c.ctlName())); allPlain && ((op.Kind == "move") == (serr == nil)) {
				return errf("after %s the control file's presence at the source is wrong (stat err %v)", op.Kind, serr)
			}
			loc = op.Dest
		default:
			if _, serr := os.Stat(filepath.Join(locDir, c.ctlName())); allPlain && serr == nil {
				return errf("after remove the control file still exists")
			}
			for _, f := range c.Files {
				if !plainName(f.Name) || f.Name == c.ctlName() || c.Layout == "sha256-only" {
					continue
				}
				if _, serr := os.Stat(filepath.Join(locDir, f.Name)); serr == nil {
					return errf("after remove the file %s still exists", f.Name)
				}
			}
			return nil
		}
	}
	return nil
}

func sizeLie(c UploadCase) bool {
	for _, f := range c.Files {
		if f.Listed != 0 {
			return true
		}
	}
	return false
}

func upNames(fs []UpFile) []string {
	out := []string{}
	for _, f := range fs {
		out = append(out, f.Name)
	}
	return out
}

var specC20 = Register(&Spec[UploadCase]{
	Prop: "C20", Name: "upload",
	Rule:  "histories of 1..3 operations (Copy/Move into d1|d2, Remove) on one .dsc or .changes handle over a fresh scratch tree root/{src,src/sub,d1,d2,outside}; 0..5 referenced files (sizes 0, 1, 7, 300, 32767..32769, 100000; one plain name in twenty is 200..255 bytes long; one file in ten is listed with a size that is not its real one - the hashes are made up anyway, nothing in the statement makes Copy/Move verify either); a quarter of the uploads list adversarial names ('../outside/victim', '../d1/planted', 'sub/x', absolute, '..', '.', '/', '//', '../', 'sub/../../outside/victim', 'outlink/victim' where src/outlink is a symbolic link to root/outside) and/or carry a literal 'Filename:' field pointing elsewhere, and a third of those have no Files field at all (Checksums-Sha256 only) or list the adversarial names in Checksums-Sha256 only; in a quarter of the cases both destinations already hold same-named files of the same length with other bytes (leftovers of an earlier upload); in a fifth of the cases d2 is on another file system (/dev/shm, when there is one), where a Move may fail as a whole but must not half-succeed; in a sixth of the cases the destination of the last operation holds a planted symbolic link to root/outside/victim under the name of a referenced file or of the control file; one listed file in eight is a symbolic link in the source directory to the real file in src/sub (relative or absolute target) or an absolute link to the same-named file that already lives in d1; one control file in six ends without a line end (inside its last, folded, field); in an eighth of the cases the control file in the upload directory is itself a symbolic link to a copy in root/outside/pool, next to which same-named files with other content lie (the upload is where the link is); one destination in six is named as <symlink>/.. with the link leading to a directory inside the destination, and same-named files are planted one level above (where a path cleaned as text would land); one upload in ten lists a name twice (Move / Remove may then fail at the second occurrence - with the control file untouched); in a third of the .changes cases a listed .dsc is a real one whose own Files field names ../outside/victim and sub/inner (nobody asked for the files a listed file lists); in an eighth the control file lists itself (refusing is fine, but then nothing may have moved and the control file is not in the destination); in a quarter (half of the self-listing ones) the handle comes from ParseDsc / ParseChanges(reader, path) with the path spelled src/./x.dsc, src/../src/x.dsc or //src/x.dsc, or from Parse*File of ../x.dsc called in a working directory that was entered through a symbolic link ($PWD logical); an operation whose destination is the directory the upload already lives in (also spelled d1/../src/.) must leave that directory bit-identical whatever it returns; the last operation optionally runs with ONE planted fault at step i in {file 0..n-1, control file}: source deleted, source replaced by a non-empty directory, a non-empty directory squatting on the destination name, destination directory missing or a regular file. Oracle: success (plain names, no fault) => all files and the control file byte-identical in the destination (Move: gone from source; Remove: gone), handle.Filename == dest/base; fault => an error, no regular control file in the destination, for Move/Remove the control file intact at its source; always => root/outside bit-identical, no destination file carries outside content, d1/planted untouched when d1 is not involved. Non-trivial: >= 2 files with a fault at step >= 1, or non-plain names; distinct by case.",
	Check: checkUploadCase,
})

func TestC20_Upload(t *testing.T) {
	specC20.Run(t, genUploadCase, 1500, 15000)
}

// ------------------------------------------------------------------ syscall-level faults (strace)

type helperSpec struct {
	Root   string `json:"root"`
	Handle string `json:"handle"`
	Op     string `json:"op"`
}

// TestC20Helper performs ONE upload operation in a prepared tree; it is run
// as a child process under strace by TestC20_Strace.
func TestC20Helper(t *testing.T) {
	raw := os.Getenv("VERIF_C20_HELPER")
	if raw == "" {
		t.Skip("helper for TestC20_Strace")
	}
	var hs helperSpec
	if err := json.Unmarshal([]byte(raw), &hs); err != nil {
		os.Exit(3)
	}
	ctl := filepath.Join(hs.Root, "src", "ctl_1.0-1."+hs.Handle)
	var h uploadHandle
	var fn func() string
	if hs.Handle == "dsc" {
		d, err := control.ParseDscFile(ctl)
		if err != nil {
			os.Exit(4)
		}
		h, fn = d, func() string { return d.Filename }
	} else {
		c, err := control.ParseChangesFile(ctl)
		if err != nil {
			os.Exit(4)
		}
		h, fn = c, func() string { return c.Filename }
	}
	os.WriteFile(filepath.Join(hs.Root, "started"), []byte("1"), 0o644)
	if f, err := os.Open(filepath.Join(hs.Root, "d1", ".marker")); err == nil { // phase marker in the trace: parsing is over
		f.Close()
	}
	var err error
	switch hs.Op {
	case "copy":
		err = h.Copy(filepath.Join(hs.Root, "d1"))
	case "move":
		err = h.Move(filepath.Join(hs.Root, "d1"))
	default:
		err = h.Remove()
	}
	res := "ok " + fn()
	if err != nil {
		res = "err " + err.Error()
	}
	os.WriteFile(filepath.Join(hs.Root, "result"), []byte(res), 0o644)
	os.Exit(0)
}

type StraceCase struct {
	Handle  string   `json:"handle"`
	Files   []UpFile `json:"files"`
	Op      string   `json:"op"`
	Syscall string   `json:"syscall"` // "" = fault free (history check)
	When    int      `json:"when"`
	Mode    string   `json:"mode"` // error | kill
}

var straceSets = map[string]struct {
	set, errno string
}{
	"openat":          {"openat", "EACCES"},
	"copy_file_range": {"copy_file_range", "ENOSPC"},
	"close":           {"close", "EIO"},
	"rename":          {"rename,renameat,renameat2", "EACCES"},
	"unlink":          {"unlink,unlinkat", "EACCES"},
}

type straceSkip struct{ why string }

func (s straceSkip) Error() string { return "strace unavailable: " + s.why }

// runUnderStrace prepares a fresh tree, runs the helper under strace and
// returns the tree root (caller removes it), the trace and the helper result.
func runUnderStrace(c StraceCase) (root string, trace []string, result string, err error) {
	root, err = os.MkdirTemp(workDir(), "c20s-")
	if err != nil {
		return "", nil, "", errf("HARNESS: %v", err)
	}
	root, _ = filepath.EvalSymlinks(root)
	for _, d := range []string{"src", "d1", "outside"} {
		os.MkdirAll(filepath.Join(root, d), 0o755)
	}
	os.WriteFile(filepath.Join(root, "outside", "victim"), []byte("OUTSIDE"), 0o644)
	uc := UploadCase{Handle: c.Handle, Files: c.Files}
	for _, f := range c.Files {
		os.WriteFile(filepath.Join(root, "src", f.Name), upContent(f), 0o644)
	}
	os.WriteFile(filepath.Join(root, "src", uc.ctlName()), []byte(uc.controlText(root)), 0o644)
	args := []string{"-f", "-qq", "-o", filepath.Join(root, "trace"), "-e", "trace=openat,copy_file_range,read,write,close,rename,renameat,renameat2,unlink,unlinkat,rmdir"}
	for _, f := range c.Files {
		args = append(args, "-P", filepath.Join(root, "src", f.Name), "-P", filepath.Join(root, "d1", f.Name))
	}
	args = append(args, "-P", filepath.Join(root, "d1", uc.ctlName()), "-P", filepath.Join(root, "d1", ".marker"))
	// the control file in src is read by the parser before the operation starts: trace it only for move/remove, where it is acted upon
	if c.Op != "copy" || true {
		args = append(args, "-P", filepath.Join(root, "src", uc.ctlName()))
	}
	if c.Syscall != "" {
		set := straceSets[c.Syscall]
		inj := "inject=" + set.set + ":"
		if c.Mode == "kill" {
			inj += "signal=SIGKILL"
		} else {
			inj += "error=" + set.errno
		}
		inj += fmt.Sprintf(":when=%d", c.When)
		args = append(args, "-e", inj)
	}
	spec, _ := json.Marshal(helperSpec{Root: root, Handle: c.Handle, Op: c.Op})
	args = append(args, os.Args[0], "-test.run", "^TestC20Helper$")
	cmd := exec.Command("strace", args...)
	cmd.Env = append(os.Environ(), "VERIF_C20_HELPER="+string(spec))
	out, runErr := cmd.CombinedOutput()
	tb, terr := os.ReadFile(filepath.Join(root, "trace"))
	if terr != nil || (runErr != nil && !strings.Contains(string(out), "killed") && len(tb) == 0) {
		return root, nil, "", straceSkip{fmt.Sprintf("%v %s", runErr, strings.TrimSpace(string(out)))}
	}
	if _, err := os.Stat(filepath.Join(root, "started")); err != nil {
		return root, nil, "", straceSkip{"helper did not start: " + strings.TrimSpace(string(out))}
	}
	rb, _ := os.ReadFile(filepath.Join(root, "result"))
	return root, strings.Split(string(tb), "\n"), string(rb), nil
}

func checkStraceCase(c StraceCase, r *Recorder) error {
	if !haveTool("strace") {
		r.Count("skipped_external:strace", 1)
		return nil
	}
	root, trace, result, err := runUnderStrace(c)
	if root != "" {
		defer os.RemoveAll(root)
	}
	if err != nil {
		if _, skip := err.(straceSkip); skip {
			r.Count("skipped_external:strace", 1)
			return nil
		}
		return err
	}
	uc := UploadCase{Handle: c.Handle, Files: c.Files}
	nt := c.Syscall != "" && len(c.Files) >= 2
	r.Case(jsonKey(c), nt || c.Syscall == "", "op:"+c.Op, "syscall:"+c.Syscall, "mode:"+c.Mode)
	if nt {
		r.Sample(c)
	}
	dst := filepath.Join(root, "d1")
	ctlDst, ctlSrc := filepath.Join(dst, uc.ctlName()), filepath.Join(root, "src", uc.ctlName())
	filesCompleteInDst := func() bool {
		for _, f := range c.Files {
			b, err := os.ReadFile(filepath.Join(dst, f.Name))
			if err != nil || !bytes.Equal(b, upContent(f)) {
				return false
			}
		}
		return true
	}
	if b, _ := os.ReadFile(filepath.Join(root, "outside", "victim")); string(b) != "OUTSIDE" {
		return errf("%s touched a file outside source and destination", c.Op)
	}
	// did the fault actually hit? (a "when" beyond the last call never fires)
	hit := c.Syscall == ""
	for _, l := range trace {
		if strings.Contains(l, "(INJECTED)") || strings.Contains(l, "+++ killed by SIGKILL") {
			hit = true
		}
	}
	if c.Syscall == "" {
		// ---- fault-free history: success, and the control file is handled last
		if !strings.HasPrefix(result, "ok ") {
			return errf("fault-free %s of a plain upload failed: %q", c.Op, result)
		}
		idxCtl, idxLastFile := -1, -1
		for i, l := range trace {
			creates := strings.Contains(l, "O_CREAT") || strings.Contains(l, "rename") || strings.Contains(l, "unlink")
			if !creates {
				continue
			}
			target := ctlDst
			if c.Op == "remove" {
				target = ctlSrc
			}
			if strings.Contains(l, `"`+target+`"`) && idxCtl < 0 {
				idxCtl = i
			}
			for _, f := range c.Files {
				ft := filepath.Join(dst, f.Name)
				if c.Op == "remove" {
					ft = filepath.Join(root, "src", f.Name)
				}
				if strings.Contains(l, `"`+ft+`"`) {
					idxLastFile = i
				}
			}
		}
		if idxCtl < 0 {
			return errf("fault-free %s: the trace shows no creation/rename/unlink of the control file (trace %d lines)", c.Op, len(trace))
		}
		if idxLastFile > idxCtl {
			return errf("%s handled the control file (trace line %d) before a referenced file (trace line %d): %s", c.Op, idxCtl, idxLastFile, trace[idxLastFile])
		}
		if c.Op != "remove" && !filesCompleteInDst() {
			return errf("fault-free %s: files in the destination are not byte-identical", c.Op)
		}
		return nil
	}
	if !hit {
		r.Count("fault_not_reached", 1)
		return nil
	}
	if c.Mode == "kill" {
		// ---- crash point: if the control file is visible in the destination, every referenced file is complete there
		if c.Op != "remove" && isRegular(ctlDst) && !filesCompleteInDst() {
			return errf("%s killed at %s call %d: the control file is in the destination but a referenced file is missing or incomplete", c.Op, c.Syscall, c.When)
		}
		if c.Op == "remove" {
			if _, err := os.Stat(ctlSrc); err != nil {
				for _, f := range c.Files {
					if _, err := os.Stat(filepath.Join(root, "src", f.Name)); err == nil {
						return errf("remove killed at %s call %d: the control file is gone but %s is still there", c.Syscall, c.When, f.Name)
					}
				}
			}
		}
		if c.Op == "move" {
			if _, err := os.Stat(ctlSrc); err != nil && !isRegular(ctlDst) {
				return errf("move killed at %s call %d: the control file is neither at its source nor in the destination", c.Syscall, c.When)
			}
		}
		return nil
	}
	// ---- injected error: the operation must report it and keep the control file out of the destination
	if !strings.HasPrefix(result, "err ") {
		// an injected close() error on a *source* descriptor is legitimately ignored (defer in.Close())
		if c.Syscall == "close" && (c.Op != "copy" || filesCompleteInDst() && isRegular(ctlDst)) {
			r.Count("close_error_on_source_ignored", 1)
			return nil
		}
		return errf("%s with %s call %d failing (%s) reported %q", c.Op, c.Syscall, c.When, straceSets[c.Syscall].errno, result)
	}
	if c.Op != "remove" && isRegular(ctlDst) {
		b, _ := os.ReadFile(ctlDst)
		return errf("%s failed (%s; %s call %d) but the control file is in the destination (%d bytes)", c.Op, result, c.Syscall, c.When, len(b))
	}
	if c.Op != "copy" {
		if b, err := os.ReadFile(ctlSrc); err != nil || string(b) != uc.controlText(root) {
			return errf("%s failed (%s; %s call %d) but the control file is no longer intact at its source", c.Op, result, c.Syscall, c.When)
		}
	}
	return nil
}

var specC20Strace = Register(&Spec[StraceCase]{
	Prop: "C20", Name: "strace",
	Rule:  "syscall-level fault enumeration: one Copy/Move/Remove of a generated plain upload is executed by a child process under strace -f -P <every source and destination path>; a fault-free run gives the history (the creation/rename/unlink of the control file must come after that of every referenced file, result byte-identical); then for EVERY call index of openat (EACCES), copy_file_range (ENOSPC), close (EIO), rename* (EACCES), unlink* (EACCES) touching those paths the run is repeated with that call failing, and again with the process killed (SIGKILL) at that call. Oracle: injected error => an error is reported (an ignored close() on a source descriptor is tolerated), no regular control file in the destination, for Move/Remove the control file intact at its source; crash => if the control file is visible in the destination every referenced file is complete there (Remove: control gone => all files gone). Skipped and counted when ptrace is unavailable. Non-trivial: a faulted run of an upload with >= 2 files; distinct by (upload, op, syscall, index, mode).",
	Check: checkStraceCase,
})

func TestC20_Strace(t *testing.T) {
	if !haveTool("strace") {
		t.Skip("strace not available")
	}
	n := pickN(1, 8)
	var ups []UploadCase
	sink := &Spec[UploadCase]{Check: func(c UploadCase, r *Recorder) error { ups = append(ups, c); return nil }}
	rapidCollect(t, sink, func(t *rapid.T) UploadCase {
		c := UploadCase{Handle: rapid.SampledFrom([]string{"dsc", "changes"}).Draw(t, "handle")}
		nf := rapid.IntRange(2, 3).Draw(t, "nf")
		for i := 0; i < nf; i++ {
			c.Files = append(c.Files, UpFile{Name: fmt.Sprintf("pkg_1.0-%d.tar.gz", i), Size: rapid.SampledFrom([]int{0, 5, 32769, 100000}).Draw(t, "size"), Seed: rapid.IntRange(1, 1<<20).Draw(t, "seed")})
		}
		return c
	}, n)
	specC20Strace.Enumerate(t, true, func(r *Recorder, yield func(StraceCase) bool) {
		for _, u := range ups {
			for _, op := range []string{"copy", "move", "remove"} {
				base := StraceCase{Handle: u.Handle, Files: u.Files, Op: op}
				root, trace, _, err := runUnderStrace(base)
				if root != "" {
					os.RemoveAll(root)
				}
				if err != nil {
					r.Count("skipped_external:strace", 1)
					t.Logf("strace stage skipped: %v", err)
					return
				}
				if !yield(base) {
					return
				}
				names := []string{}
				for name := range straceSets {
					names = append(names, name)
				}
				sortStrings(names)
				for _, name := range names {
					set := straceSets[name]
					count, before := 0, 0 // calls of this set in total / up to and including the phase marker
					seenMarker := false
					for _, l := range trace {
						isCall := false
						for _, sc := range strings.Split(set.set, ",") {
							if strings.Contains(l, " "+sc+"(") {
								isCall = true
							}
						}
						if isCall {
							count++
							if !seenMarker || strings.Contains(l, ".marker") {
								before++
							}
						}
						if strings.Contains(l, ".marker") {
							seenMarker = true
						}
					}
					for k := before + 1; k <= count; k++ {
						for _, mode := range []string{"error", "kill"} {
							c := base
							c.Syscall, c.When, c.Mode = name, k, mode
							if !yield(c) {
								return
							}
						}
					}
				}
			}
		}
	})
}
