#!/bin/sh
# tools/snapshot_eval.sh <tag> <tool> [args...]  - run tools/seeded.py or tools/mutants.py from a scratch
# copy of /verif (/tmp/verif-snap-<tag>), so that the harness can be edited while the evaluation runs
# (every check rebuilds the harness from the tree it lives in). Results: /tmp/verif-snap-<tag>/out/.
# Remove the copy when done.
tag=$1; tool=$2; shift 2
snap=/tmp/verif-snap-$tag
rm -rf "$snap"
rsync -a --exclude out --exclude .cache --exclude .git "$(dirname "$0")/../" "$snap/"
mkdir -p "$snap/out"
cd "$snap" && exec python3 "tools/$tool" "$@"
