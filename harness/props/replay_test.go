package props

import (
	"encoding/json"
	"fmt"
	"os"
	"strings"
	"testing"
)

// TestReplay feeds saved cases straight to their Spec.Check, bypassing rapid.
// It never fails the test binary for a violating file: the verdict per file is
// printed as a REPLAY line and interpreted by the driver (which knows which
// files are witnesses of recorded known findings).
func TestReplay(t *testing.T) {
	list := strings.Fields(os.Getenv("VERIF_REPLAY_FILES"))
	for _, p := range list {
		raw, err := os.ReadFile(p)
		if err != nil {
			fmt.Printf("REPLAY file=%s result=harness-error msg=%q\n", p, err.Error())
			continue
		}
		var rf replayFile
		if err := json.Unmarshal(raw, &rf); err != nil {
			fmt.Printf("REPLAY file=%s result=harness-error msg=%q\n", p, err.Error())
			continue
		}
		fn, ok := replayers[rf.Property+"/"+rf.Sub]
		if !ok {
			fmt.Printf("REPLAY file=%s result=harness-error msg=%q\n", p, "no spec "+rf.Property+"/"+rf.Sub)
			continue
		}
		fmt.Printf("REPLAY-BEGIN file=%s\n", p)
		if err := fn(rf.Case); err != nil {
			msg := err.Error()
			if len(msg) > 600 {
				msg = msg[:600] + "..."
			}
			res := "violation"
			if strings.HasPrefix(msg, "HARNESS:") {
				res = "harness-error"
			}
			fmt.Printf("REPLAY file=%s property=%s sub=%s result=%s msg=%q\n", p, rf.Property, rf.Sub, res, msg)
		} else {
			fmt.Printf("REPLAY file=%s property=%s sub=%s result=ok\n", p, rf.Property, rf.Sub)
		}
	}
}
