#!/usr/bin/env python3
"""tools/addfinding.py ID PROP fixed|known 'what' witness 'commit-subject-substring'|-  [class]"""
import json,subprocess,sys,os
root=os.path.dirname(os.path.dirname(os.path.abspath(__file__)))
id_,prop,status,what,witness,cm=sys.argv[1:7]
cls=sys.argv[7] if len(sys.argv)>7 else ""
commit=""
if cm!='-':
    out=subprocess.run(['git','-C','/repo','log','--format=%h %s'],capture_output=True,text=True).stdout
    hits=[l.split()[0] for l in out.splitlines() if cm in l]
    if len(hits)!=1: raise SystemExit('commit match count %d for %r'%(len(hits),cm))
    commit=hits[0]
p=os.path.join(root,'known_findings.json')
d=json.load(open(p))
d['findings']=[f for f in d['findings'] if f['id']!=id_]
e={"id":id_,"property":prop,"status":status,"what":what,"class":cls,"witness":witness}
if commit: e["commit"]=commit
d['findings'].append(e)
d['findings'].sort(key=lambda f:f['id'])
d['fixed_lines']=["fixed: property=%s %s %s"%(f['property'],f.get('commit',''),f['what']) for f in d['findings'] if f['status']=='fixed']
json.dump(d,open(p,'w'),indent=1)
assert os.path.exists(os.path.join(root,witness)),witness
print('ok',id_,commit)
