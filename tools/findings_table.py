#!/usr/bin/env python3
"""Regenerates the findings table of DESIGN.md section 4 from known_findings.json
(between the markers <!-- FINDINGS-TABLE-BEGIN --> and <!-- FINDINGS-TABLE-END -->)."""
import json, os, re
root = os.path.dirname(os.path.dirname(os.path.abspath(__file__)))
fs = json.load(open(os.path.join(root, "known_findings.json")))["findings"]
def key(f):
    m = re.match(r"F(\d+)(.*)", f["id"])
    return (int(m.group(1)), m.group(2))
rows = ["| id | prop | status / commit in /repo | what failed | witness |", "|---|---|---|---|---|"]
for f in sorted(fs, key=key):
    st = "known" if f["status"] == "known" else "fixed `%s`" % f.get("commit", "")
    rows.append("| %s | %s | %s | %s | `%s` |" % (f["id"], f["property"], st, f["what"].replace("|", "\\|"), f["witness"]))
p = os.path.join(root, "DESIGN.md")
s = open(p).read()
b, e = "<!-- FINDINGS-TABLE-BEGIN -->", "<!-- FINDINGS-TABLE-END -->"
assert b in s and e in s
s = s[:s.index(b) + len(b)] + "\n" + "\n".join(rows) + "\n" + s[s.index(e):]
open(p, "w").write(s)
print(len(fs), "findings")
